package main

import (
	"os"

	"verif/checker/internal/an"
)

func main() {
	os.Exit(an.Main(os.Args[1:]))
}
