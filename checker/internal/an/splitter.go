package an

import (
	"go/constant"
	"go/token"
	"go/types"

	"golang.org/x/tools/go/ssa"
)

// byteSplitter recognises a hand-written module function that is strings.Split(s, string(c))
// for one ASCII byte c:
//
//	func f(s string) []string {
//		parts := []string{}            // or nil, or make([]string, 0[, k])
//		start := 0
//		for i := 0; i < len(s); i++ {
//			if s[i] == c {             // or `!= c { continue }`
//				parts = append(parts, s[start:i])
//				start = i + 1
//			}
//		}
//		parts = append(parts, s[start:])   // or `return append(parts, s[start:])`
//		return parts
//	}
//
// The whole function is matched, instruction by instruction, against that shape (names, the
// order of independent statements and the polarity of the test are free); anything else in the
// body makes it "not a splitter" and the function is then evaluated like any other.  The shape
// cannot panic: i < len(s) where s[i] is read, and 0 <= start <= i at s[start:i] because start
// is 0 or one more than an earlier i.  With c < 0x80 a byte equal to c is never part of a
// longer UTF-8 sequence, so cutting at bytes and cutting at the one-byte string are the same.
func (p *Program) byteSplitter(fn *ssa.Function) (sep string, ok bool) {
	if fn == nil || len(fn.Blocks) == 0 {
		return "", false
	}
	if p.splitters == nil {
		p.splitters = map[*ssa.Function]string{}
	}
	if s, done := p.splitters[fn]; done {
		return s, s != ""
	}
	s := matchByteSplitter(fn)
	p.splitters[fn] = s
	return s, s != ""
}

func matchByteSplitter(fn *ssa.Function) string {
	sig := fn.Signature
	if sig.Recv() != nil || sig.Params().Len() != 1 || sig.Results().Len() != 1 || len(fn.FreeVars) != 0 || fn.Recover != nil {
		return ""
	}
	if b, ok := sig.Params().At(0).Type().Underlying().(*types.Basic); !ok || b.Kind() != types.String {
		return ""
	}
	if sl, ok := sig.Results().At(0).Type().Underlying().(*types.Slice); !ok {
		return ""
	} else if b, ok := sl.Elem().Underlying().(*types.Basic); !ok || b.Kind() != types.String {
		return ""
	}
	if len(fn.Blocks) != 6 && len(fn.Blocks) != 7 {
		return ""
	}
	s := ssa.Value(fn.Params[0])
	real := func(b *ssa.BasicBlock) []ssa.Instruction {
		var out []ssa.Instruction
		for _, in := range b.Instrs {
			if _, dbg := in.(*ssa.DebugRef); !dbg {
				out = append(out, in)
			}
		}
		return out
	}
	// the loop header: three φ-nodes, len(s), i < len(s), If
	var hdr *ssa.BasicBlock
	for _, b := range fn.Blocks {
		if len(b.Instrs) > 0 {
			if _, isPhi := b.Instrs[0].(*ssa.Phi); isPhi && len(b.Preds) == 2 && len(b.Succs) == 2 {
				if hdr != nil {
					return ""
				}
				hdr = b
			}
		}
	}
	if hdr == nil {
		return ""
	}
	entry := fn.Blocks[0]
	if len(entry.Succs) != 1 || entry.Succs[0] != hdr {
		return ""
	}
	var latch *ssa.BasicBlock
	ei, li := -1, -1
	for k, pr := range hdr.Preds {
		if pr == entry {
			ei = k
		} else {
			latch, li = pr, k
		}
	}
	if ei < 0 || li < 0 {
		return ""
	}
	hi := real(hdr)
	var phis []*ssa.Phi
	for len(hi) > 0 {
		ph, ok := hi[0].(*ssa.Phi)
		if !ok {
			break
		}
		phis = append(phis, ph)
		hi = hi[1:]
	}
	if len(phis) != 3 || len(hi) != 3 {
		return ""
	}
	lenCall, ok := hi[0].(*ssa.Call)
	if !ok || !isBuiltinCall(lenCall, "len") || lenCall.Call.Args[0] != s {
		return ""
	}
	cmp, ok := hi[1].(*ssa.BinOp)
	if !ok || cmp.Op != token.LSS || cmp.Y != ssa.Value(lenCall) {
		return ""
	}
	ifH, ok := hi[2].(*ssa.If)
	if !ok || ifH.Cond != ssa.Value(cmp) {
		return ""
	}
	iphi, ok := cmp.X.(*ssa.Phi)
	if !ok || iphi.Block() != hdr {
		return ""
	}
	body, done := hdr.Succs[0], hdr.Succs[1]
	// the three roles
	var startPhi, partsPhi *ssa.Phi
	for _, ph := range phis {
		switch {
		case ph == iphi:
		case isStringSlice(ph.Type()):
			if partsPhi != nil {
				return ""
			}
			partsPhi = ph
		default:
			if startPhi != nil {
				return ""
			}
			startPhi = ph
		}
	}
	if startPhi == nil || partsPhi == nil {
		return ""
	}
	if k, ok := intConst(iphi.Edges[ei]); !ok || k != 0 {
		return ""
	}
	if k, ok := intConst(startPhi.Edges[ei]); !ok || k != 0 {
		return ""
	}
	if !emptyStringSlice(partsPhi.Edges[ei]) {
		return ""
	}
	plusOne := func(v ssa.Value) bool {
		bo, ok := v.(*ssa.BinOp)
		if !ok || bo.Op != token.ADD {
			return false
		}
		if k, ok := intConst(bo.Y); ok && k == 1 && bo.X == ssa.Value(iphi) {
			return true
		}
		k, ok := intConst(bo.X)
		return ok && k == 1 && bo.Y == ssa.Value(iphi)
	}
	if !plusOne(iphi.Edges[li]) {
		return ""
	}
	// the entry block: only what builds the empty slice, and the jump
	for _, in := range real(entry) {
		switch x := in.(type) {
		case *ssa.Alloc, *ssa.Slice, *ssa.MakeSlice:
			if v, ok := x.(ssa.Value); !ok || !feedsOnly(v, partsPhi.Edges[ei]) {
				return ""
			}
		case *ssa.Jump:
		default:
			return ""
		}
	}
	// the body: b = s[i]; b == c; If
	bi := real(body)
	if len(bi) != 3 || len(body.Preds) != 1 {
		return ""
	}
	var at ssa.Value
	switch x := bi[0].(type) {
	case *ssa.Index:
		if x.X != s || x.Index != ssa.Value(iphi) {
			return ""
		}
		at = x
	case *ssa.Lookup:
		if x.X != s || x.Index != ssa.Value(iphi) || x.CommaOk {
			return ""
		}
		at = x
	default:
		return ""
	}
	test, ok := bi[1].(*ssa.BinOp)
	if !ok || (test.Op != token.EQL && test.Op != token.NEQ) {
		return ""
	}
	var kv ssa.Value
	switch {
	case test.X == at:
		kv = test.Y
	case test.Y == at:
		kv = test.X
	default:
		return ""
	}
	kc, ok := kv.(*ssa.Const)
	if !ok || kc.Value == nil || kc.Value.Kind() != constant.Int {
		return ""
	}
	c, exact := constant.Int64Val(kc.Value)
	if !exact || c < 0 || c >= 0x80 {
		return ""
	}
	ifB, ok := bi[2].(*ssa.If)
	if !ok || ifB.Cond != ssa.Value(test) {
		return ""
	}
	cut, skip := body.Succs[0], body.Succs[1]
	if test.Op == token.NEQ {
		cut, skip = skip, cut
	}
	// the cutting block: append(parts, s[start:i]); start = i+1
	if len(cut.Preds) != 1 || len(cut.Succs) != 1 {
		return ""
	}
	app, extra, ok := appendOfSlice(real(cut), s, partsPhi, startPhi, iphi)
	if !ok {
		return ""
	}
	var newStart ssa.Value
	for _, in := range extra {
		switch x := in.(type) {
		case *ssa.BinOp:
			if !plusOne(x) {
				return ""
			}
			if newStart == nil {
				newStart = x
			}
		case *ssa.Jump:
		default:
			return ""
		}
	}
	// the latch: φ(parts), φ(start), i+1, jump — or, when the cutting block is the latch's only
	// other predecessor, the same thing with the skip edge coming straight from the body
	if latch == cut {
		return "" // a body without a skip edge cannot be this loop
	}
	if cut.Succs[0] != latch || len(latch.Preds) != 2 || len(latch.Succs) != 1 || latch.Succs[0] != hdr {
		return ""
	}
	if skip != latch {
		// `else { continue }` leaves an empty block on the skip edge
		if len(skip.Preds) != 1 || len(skip.Succs) != 1 || skip.Succs[0] != latch {
			return ""
		}
		for _, in := range real(skip) {
			if _, ok := in.(*ssa.Jump); !ok {
				return ""
			}
		}
	}
	ci := 0
	if latch.Preds[0] != cut {
		ci = 1
	}
	if latch.Preds[ci] != cut {
		return ""
	}
	nPhi := 0
	for _, in := range real(latch) {
		switch x := in.(type) {
		case *ssa.Phi:
			nPhi++
			switch {
			case ssa.Value(x) == partsPhi.Edges[li]:
				if x.Edges[ci] != ssa.Value(app) || x.Edges[1-ci] != ssa.Value(partsPhi) {
					return ""
				}
			case ssa.Value(x) == startPhi.Edges[li]:
				if !plusOne(x.Edges[ci]) || x.Edges[ci].(*ssa.BinOp).Block() != cut || x.Edges[1-ci] != ssa.Value(startPhi) {
					return ""
				}
			default:
				return ""
			}
		case *ssa.BinOp:
			if ssa.Value(x) != iphi.Edges[li] {
				return ""
			}
		case *ssa.Jump:
		default:
			return ""
		}
	}
	if nPhi != 2 {
		return ""
	}
	if b, ok := iphi.Edges[li].(*ssa.BinOp); !ok || (b.Block() != latch && b.Block() != cut) {
		return ""
	}
	_ = newStart
	// after the loop: return append(parts, s[start:])
	if len(done.Preds) != 1 || len(done.Succs) != 0 {
		return ""
	}
	tail, rest, ok := appendOfSlice(real(done), s, partsPhi, startPhi, nil)
	if !ok || len(rest) != 1 {
		return ""
	}
	ret, ok := rest[0].(*ssa.Return)
	if !ok || len(ret.Results) != 1 || ret.Results[0] != ssa.Value(tail) {
		return ""
	}
	// every block is accounted for
	want := map[*ssa.BasicBlock]bool{entry: true, hdr: true, body: true, cut: true, latch: true, done: true}
	if skip != latch {
		want[skip] = true
	}
	if len(want) != len(fn.Blocks) {
		return ""
	}
	for _, b := range fn.Blocks {
		if !want[b] {
			return ""
		}
	}
	return string(rune(c))
}

func isBuiltinCall(c *ssa.Call, name string) bool {
	b, ok := c.Call.Value.(*ssa.Builtin)
	return ok && b.Name() == name && len(c.Call.Args) >= 1
}

func isStringSlice(t types.Type) bool {
	sl, ok := t.Underlying().(*types.Slice)
	if !ok {
		return false
	}
	b, ok := sl.Elem().Underlying().(*types.Basic)
	return ok && b.Kind() == types.String
}

// emptyStringSlice: nil, []string{}, make([]string, 0[, k]).
func emptyStringSlice(v ssa.Value) bool {
	switch x := v.(type) {
	case *ssa.Const:
		return x.Value == nil
	case *ssa.MakeSlice:
		k, ok := intConst(x.Len)
		return ok && k == 0
	case *ssa.Slice:
		al, ok := x.X.(*ssa.Alloc)
		if !ok || x.Low != nil || x.Max != nil {
			return false
		}
		if x.High != nil {
			// make([]string, 0, k) with constant k: new [k]string, sliced [:0]
			k, ok := intConst(x.High)
			return ok && k == 0
		}
		at, ok := al.Type().Underlying().(*types.Pointer).Elem().Underlying().(*types.Array)
		return ok && at.Len() == 0
	}
	return false
}

// feedsOnly: v is target or the array target is a slice of.
func feedsOnly(v, target ssa.Value) bool {
	if v == target {
		return true
	}
	if sl, ok := target.(*ssa.Slice); ok && sl.X == v {
		return true
	}
	return false
}

// appendOfSlice finds, in the instructions of one block, `append(parts, s[start:hi])` spelled
// the way the compiler front end spells a one-element variadic call (hi == nil: s[start:]);
// it returns the append call and the instructions that are not part of it.
func appendOfSlice(ins []ssa.Instruction, s ssa.Value, parts, start, hi *ssa.Phi) (*ssa.Call, []ssa.Instruction, bool) {
	var piece *ssa.Slice
	var arr *ssa.Alloc
	var elem *ssa.IndexAddr
	var st *ssa.Store
	var whole *ssa.Slice
	var app *ssa.Call
	var rest []ssa.Instruction
	for _, in := range ins {
		switch x := in.(type) {
		case *ssa.Slice:
			switch {
			case x.X == s && piece == nil:
				if x.Low != ssa.Value(start) || x.Max != nil {
					return nil, nil, false
				}
				if hi == nil && x.High != nil || hi != nil && x.High != ssa.Value(hi) {
					return nil, nil, false
				}
				piece = x
			case arr != nil && x.X == ssa.Value(arr) && whole == nil:
				if x.Low != nil || x.High != nil || x.Max != nil {
					return nil, nil, false
				}
				whole = x
			default:
				return nil, nil, false
			}
		case *ssa.Alloc:
			at, ok := x.Type().Underlying().(*types.Pointer).Elem().Underlying().(*types.Array)
			if !ok || at.Len() != 1 || arr != nil {
				return nil, nil, false
			}
			arr = x
		case *ssa.IndexAddr:
			if arr == nil || x.X != ssa.Value(arr) || elem != nil {
				return nil, nil, false
			}
			if k, ok := intConst(x.Index); !ok || k != 0 {
				return nil, nil, false
			}
			elem = x
		case *ssa.Store:
			if elem == nil || x.Addr != ssa.Value(elem) || piece == nil || x.Val != ssa.Value(piece) || st != nil {
				return nil, nil, false
			}
			st = x
		case *ssa.Call:
			if !isBuiltinCall(x, "append") || len(x.Call.Args) != 2 || app != nil {
				return nil, nil, false
			}
			if x.Call.Args[0] != ssa.Value(parts) || whole == nil || x.Call.Args[1] != ssa.Value(whole) || st == nil {
				return nil, nil, false
			}
			app = x
		default:
			rest = append(rest, in)
		}
	}
	if app == nil {
		return nil, nil, false
	}
	return app, rest, true
}
