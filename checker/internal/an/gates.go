package an

import (
	"go/constant"
	"go/token"
	"go/types"
	"math"
	"strconv"
	"strings"
	"sync"

	"golang.org/x/tools/go/ssa"
)

// Gate analysis: for one function and one *subject* (a set of SSA values that all
// denote the same integer: a parameter, or every len(x) of one slice value), compute
// for every basic block an over-approximation of the set of subject values with
// which the block can be reached.  Branch conditions that are atoms over the subject
// (compare(f(subject), const), f a chain of + - * / by constants, optionally ending
// in % m) refine exactly; any other condition refines nothing, which keeps the
// result a superset.  No join is ever taken: unions are kept, so on the gates of this
// repository the result is exact.

type gop struct {
	kind byte // '+', '*', '/', '%', 'm' (min with c), 'M' (max with c), 'T' (table lookup)
	c    int64
	tab  *gtable
}

// gtable is a constant integer table: an array/slice literal (dense) or a map literal.
type gtable struct {
	name  string
	dense []int64         // array or slice: index must be in range
	keyed map[int64]int64 // map: missing keys give 0
}

type gexpr struct{ ops []gop }

func (e gexpr) with(k byte, c int64) *gexpr {
	n := gexpr{append(append([]gop{}, e.ops...), gop{kind: k, c: c})}
	return &n
}

func (e gexpr) withTable(t *gtable) *gexpr {
	n := gexpr{append(append([]gop{}, e.ops...), gop{kind: 'T', tab: t})}
	return &n
}

func (e gexpr) hasTable() bool {
	for _, o := range e.ops {
		if o.kind == 'T' {
			return true
		}
	}
	return false
}

func (e gexpr) monotone() bool {
	for _, o := range e.ops {
		switch o.kind {
		case '%', 'T':
			return false
		case '*', '/':
			if o.c <= 0 {
				return false
			}
		}
	}
	return true
}

// periodic: (mul·v + add) % m with mul > 0
func (e gexpr) periodic() (mul, add, m int64, ok bool) {
	if len(e.ops) == 0 {
		return
	}
	last := e.ops[len(e.ops)-1]
	if last.kind != '%' || last.c <= 0 || last.c > 4096 {
		return
	}
	mul = 1
	for _, o := range e.ops[:len(e.ops)-1] {
		switch o.kind {
		case '+':
			s, okk := addOv(add, o.c)
			if !okk {
				return 0, 0, 0, false
			}
			add = s
		case '*':
			if o.c <= 0 {
				return 0, 0, 0, false
			}
			p1, ok1 := mulOv(mul, o.c)
			p2, ok2 := mulOv(add, o.c)
			if !ok1 || !ok2 {
				return 0, 0, 0, false
			}
			mul, add = p1, p2
		default:
			return 0, 0, 0, false
		}
	}
	return mul, add, last.c, true
}

// eval applies the chain concretely; ok=false on overflow of the given width.
func (e gexpr) eval(v int64, bits int) (int64, bool) {
	lo, hi := int64(math.MinInt64), int64(math.MaxInt64)
	if bits == 32 {
		lo, hi = math.MinInt32, math.MaxInt32
	}
	for _, o := range e.ops {
		switch o.kind {
		case '+':
			if (o.c > 0 && v > hi-o.c) || (o.c < 0 && v < lo-o.c) {
				return 0, false
			}
			v += o.c
		case '*':
			if v != 0 {
				p := v * o.c
				if p/o.c != v || p < lo || p > hi {
					return 0, false
				}
				v = p
			}
		case '/':
			if o.c == 0 {
				return 0, false
			}
			v /= o.c
		case '%':
			if o.c == 0 {
				return 0, false
			}
			v %= o.c
		case 'm':
			if o.c < v {
				v = o.c
			}
		case 'M':
			if o.c > v {
				v = o.c
			}
		case 'T':
			if o.tab.keyed != nil {
				v = o.tab.keyed[v]
			} else {
				if v < 0 || v >= int64(len(o.tab.dense)) {
					return 0, false
				}
				v = o.tab.dense[v]
			}
		}
	}
	return v, true
}

// GateResult is the outcome of the analysis for one function.
type GateResult struct {
	Fn         *ssa.Function
	Subjects   map[ssa.Value]bool
	Domain     ZSet
	Reach      map[*ssa.BasicBlock]ZSet
	Pre        map[*ssa.BasicBlock]bool // block may execute before the subject is defined
	Atoms      int                      // number of refining conditions found
	Opaque     []ssa.Instruction        // conditions that depend on the subject but are not atoms
	Bits       int
	Edge       map[[2]*ssa.BasicBlock]ZSet // reach set per CFG edge
	predsSlice map[string]*predSets        // two-argument predicates with a constant table, per (function, table)
	InModule   func(fn *ssa.Function) bool // predicate helpers of the module may be looked into
	preds      map[*ssa.Function]*predSets
	Tables     func(g *ssa.Global) *gtable // constant tables of the module (nil: none)
	Relied     map[*ssa.Global]bool        // tables the result depends on (must be initialiser-only)
}

func intConst(v ssa.Value) (int64, bool) {
	c, ok := v.(*ssa.Const)
	if !ok || c.Value == nil || c.Value.Kind() != constant.Int {
		return 0, false
	}
	n, exact := constant.Int64Val(c.Value)
	return n, exact
}

func isIntType(t types.Type) bool {
	b, ok := t.Underlying().(*types.Basic)
	return ok && b.Info()&types.IsInteger != 0
}

func (g *GateResult) derive(v ssa.Value, depth int) *gexpr {
	if g.Subjects[v] {
		return &gexpr{}
	}
	if depth > 8 {
		return nil
	}
	switch x := v.(type) {
	case *ssa.BinOp:
		if c, ok := intConst(x.Y); ok {
			e := g.derive(x.X, depth+1)
			if e == nil {
				return nil
			}
			switch x.Op {
			case token.ADD:
				return e.with('+', c)
			case token.SUB:
				if c == math.MinInt64 {
					return nil
				}
				return e.with('+', -c)
			case token.MUL:
				return e.with('*', c)
			case token.QUO:
				return e.with('/', c)
			case token.REM:
				return e.with('%', c)
			}
			return nil
		}
		if c, ok := intConst(x.X); ok {
			e := g.derive(x.Y, depth+1)
			if e == nil {
				return nil
			}
			switch x.Op {
			case token.ADD:
				return e.with('+', c)
			case token.MUL:
				return e.with('*', c)
			}
		}
	case *ssa.UnOp:
		// T[e]: load of an element of a constant array/slice table
		if x.Op == token.MUL {
			if ia, ok := x.X.(*ssa.IndexAddr); ok && g.Tables != nil {
				var tg *ssa.Global
				if gl, ok := ia.X.(*ssa.Global); ok {
					tg = gl
				} else if gl := loadedGlobal(ia.X); gl != nil {
					tg = gl
				}
				if tg != nil {
					if t := g.Tables(tg); t != nil && t.dense != nil {
						if e := g.derive(ia.Index, depth+1); e != nil {
							g.Relied[tg] = true
							return e.withTable(t)
						}
					}
				}
			}
		}
	case *ssa.Lookup:
		if gl := loadedGlobal(x.X); gl != nil && g.Tables != nil && !x.CommaOk {
			if t := g.Tables(gl); t != nil && t.keyed != nil {
				if e := g.derive(x.Index, depth+1); e != nil {
					g.Relied[gl] = true
					return e.withTable(t)
				}
			}
		}
	case *ssa.Extract:
		if lk, ok := x.Tuple.(*ssa.Lookup); ok && lk.CommaOk && x.Index == 0 {
			if gl := loadedGlobal(lk.X); gl != nil && g.Tables != nil {
				if t := g.Tables(gl); t != nil && t.keyed != nil {
					if e := g.derive(lk.Index, depth+1); e != nil {
						g.Relied[gl] = true
						return e.withTable(t)
					}
				}
			}
		}
	case *ssa.Convert:
		// widening or same-width signed integer conversions preserve the value
		if isIntType(x.Type()) && isIntType(x.X.Type()) {
			from := x.X.Type().Underlying().(*types.Basic)
			to := x.Type().Underlying().(*types.Basic)
			if from.Info()&types.IsUnsigned == 0 && to.Info()&types.IsUnsigned == 0 && (to.Kind() == types.Int64 || to.Kind() == from.Kind()) {
				return g.derive(x.X, depth+1)
			}
		}
	case *ssa.ChangeType:
		return g.derive(x.X, depth+1)
	case *ssa.Call:
		// min(e, c) / max(e, c): monotone
		if bi, ok := x.Call.Value.(*ssa.Builtin); ok && (bi.Name() == "min" || bi.Name() == "max") && len(x.Call.Args) == 2 {
			k := byte('m')
			if bi.Name() == "max" {
				k = 'M'
			}
			if c, ok := intConst(x.Call.Args[1]); ok {
				if e := g.derive(x.Call.Args[0], depth+1); e != nil {
					return e.with(k, c)
				}
			}
			if c, ok := intConst(x.Call.Args[0]); ok {
				if e := g.derive(x.Call.Args[1], depth+1); e != nil {
					return e.with(k, c)
				}
			}
		}
	}
	return nil
}

// dependsOnSubject: syntactic dependence through pure value operations.
func (g *GateResult) dependsOnSubject(v ssa.Value, depth int) bool {
	if g.Subjects[v] {
		return true
	}
	if depth > 10 {
		return false
	}
	switch x := v.(type) {
	case *ssa.BinOp:
		return g.dependsOnSubject(x.X, depth+1) || g.dependsOnSubject(x.Y, depth+1)
	case *ssa.UnOp:
		return g.dependsOnSubject(x.X, depth+1)
	case *ssa.Convert:
		return g.dependsOnSubject(x.X, depth+1)
	case *ssa.ChangeType:
		return g.dependsOnSubject(x.X, depth+1)
	case *ssa.Phi:
		for _, e := range x.Edges {
			if e != v && g.dependsOnSubject(e, depth+1) {
				return true
			}
		}
	}
	return false
}

type atom struct {
	e    *gexpr
	op   token.Token
	c    int64
	keys map[int64]int64 // non-nil: the atom is "e is a key of this table" (op EQL) or its negation (NEQ)
	pred *predSets       // non-nil: the atom is "helper(e)" (op EQL) or "!helper(e)" (NEQ)
}

// predSets over-approximates a one-argument boolean helper: the argument values for which
// it can return true, and those for which it can return false.
type predSets struct {
	T, F   ZSet
	Relied map[*ssa.Global]bool // package-level tables the classification read (semantic form)
}

func flipOp(op token.Token) token.Token {
	switch op {
	case token.LSS:
		return token.GTR
	case token.GTR:
		return token.LSS
	case token.LEQ:
		return token.GEQ
	case token.GEQ:
		return token.LEQ
	}
	return op
}

func negOp(op token.Token) token.Token {
	switch op {
	case token.LSS:
		return token.GEQ
	case token.GEQ:
		return token.LSS
	case token.GTR:
		return token.LEQ
	case token.LEQ:
		return token.GTR
	case token.EQL:
		return token.NEQ
	case token.NEQ:
		return token.EQL
	}
	return op
}

func (g *GateResult) atomOf(cond ssa.Value) (*atom, bool) {
	neg := false
	for {
		if u, ok := cond.(*ssa.UnOp); ok && u.Op == token.NOT {
			neg = !neg
			cond = u.X
			continue
		}
		// `c == true`, `true == c`, `c != false`, … (`switch true { case n < 12: … }`, `if ok == true`)
		if bo, ok := cond.(*ssa.BinOp); ok && (bo.Op == token.EQL || bo.Op == token.NEQ) {
			var other ssa.Value
			var k *ssa.Const
			if c, isC := bo.X.(*ssa.Const); isC && c.Value != nil && c.Value.Kind() == constant.Bool {
				k, other = c, bo.Y
			} else if c, isC := bo.Y.(*ssa.Const); isC && c.Value != nil && c.Value.Kind() == constant.Bool {
				k, other = c, bo.X
			}
			if k != nil {
				if constant.BoolVal(k.Value) != (bo.Op == token.EQL) {
					neg = !neg
				}
				cond = other
				continue
			}
		}
		break
	}
	if call, ok := cond.(*ssa.Call); ok {
		// slices.Contains(<literal of integer constants>, e): membership in a constant set
		if f := call.Call.StaticCallee(); f != nil && len(call.Call.Args) == 2 && (strings.HasPrefix(f.String(), "slices.Contains[") || f.String() == "slices.Contains") {
			if keys, ok := constIntSlice(call.Call.Args[0]); ok {
				if e := g.derive(call.Call.Args[1], 0); e != nil {
					a := &atom{e: e, op: token.EQL, keys: keys}
					if neg {
						a.op = token.NEQ
					}
					return a, true
				}
			}
			return nil, false
		}
	}
	if call, ok := cond.(*ssa.Call); ok && g.InModule != nil {
		// inRange(n, 16, 32, 4): a predicate of the module with several integer parameters, all
		// but one of them constants at this call site
		if f := call.Call.StaticCallee(); f != nil && g.InModule(f) && len(call.Call.Args) >= 2 && len(call.Call.Args) <= 6 && len(f.Params) == len(call.Call.Args) && len(f.Blocks) > 0 {
			fixed := map[int]int64{}
			si := -1
			okArgs := true
			for i, arg := range call.Call.Args {
				if !isIntType(f.Params[i].Type()) {
					okArgs = false
					break
				}
				if c, isC := intConst(arg); isC {
					fixed[i] = c
				} else if si < 0 {
					si = i
				} else {
					okArgs = false
				}
			}
			if okArgs && si >= 0 {
				if e := g.derive(call.Call.Args[si], 0); e != nil && len(e.ops) == 0 {
					semPredMu.Lock()
					sp := semPredFixedByProg[f.Prog]
					semPredMu.Unlock()
					if sp != nil {
						if g.predsSlice == nil {
							g.predsSlice = map[string]*predSets{}
						}
						mk := f.String() + "@" + strconv.Itoa(si)
						for i := range call.Call.Args {
							if c, ok := fixed[i]; ok {
								mk += "," + strconv.FormatInt(c, 10)
							} else {
								mk += ",_"
							}
						}
						ps, done := g.predsSlice[mk]
						if !done {
							ps = sp(f, g.Bits, fixed)
							g.predsSlice[mk] = ps
							if ps != nil {
								for tg := range ps.Relied {
									g.Relied[tg] = true
								}
							}
						}
						if ps != nil {
							a := &atom{e: e, op: token.EQL, pred: ps}
							if neg {
								a.op = token.NEQ
							}
							return a, true
						}
					}
				}
			}
		}
		// helper(<literal of integer constants>, e) or helper(e, <literal>): a two-argument
		// predicate of the module with its table fixed at this call site
		if f := call.Call.StaticCallee(); f != nil && g.InModule(f) && len(call.Call.Args) == 2 && len(f.Params) == 2 && len(f.Blocks) > 0 {
			for si := 0; si < 2; si++ {
				tbl, ok := constIntTable(call.Call.Args[si])
				if !ok || !isIntType(f.Params[1-si].Type()) {
					continue
				}
				e := g.derive(call.Call.Args[1-si], 0)
				if e == nil || len(e.ops) != 0 {
					continue
				}
				semPredMu.Lock()
				sp := semPredSliceByProg[f.Prog]
				semPredMu.Unlock()
				if sp == nil {
					continue
				}
				if g.predsSlice == nil {
					g.predsSlice = map[string]*predSets{}
				}
				mk := f.String()
				for _, v := range tbl {
					mk += "," + strconv.FormatInt(v, 10)
				}
				ps, done := g.predsSlice[mk]
				if !done {
					ps = sp(f, g.Bits, tbl)
					if ps != nil {
						for tg := range ps.Relied {
							g.Relied[tg] = true
						}
					}
					g.predsSlice[mk] = ps
				}
				if ps != nil {
					a := &atom{e: e, op: token.EQL, pred: ps}
					if neg {
						a.op = token.NEQ
					}
					return a, true
				}
			}
		}
		if f := call.Call.StaticCallee(); f != nil && g.InModule(f) && len(call.Call.Args) == 1 && len(f.Params) == 1 && len(f.Blocks) > 0 {
			if e := g.derive(call.Call.Args[0], 0); e != nil && len(e.ops) == 0 {
				if ps := g.predicate(f); ps != nil {
					a := &atom{e: e, op: token.EQL, pred: ps}
					if neg {
						a.op = token.NEQ
					}
					return a, true
				}
			}
		}
		return nil, false
	}
	if ex, ok := cond.(*ssa.Extract); ok {
		if call, ok := ex.Tuple.(*ssa.Call); ok && g.InModule != nil {
			// `n, ok := sizeFor(x)`: the last result of a one-argument predicate of the module
			if f := call.Call.StaticCallee(); f != nil && g.InModule(f) && len(call.Call.Args) == 1 && len(f.Params) == 1 && len(f.Blocks) > 0 && ex.Index == f.Signature.Results().Len()-1 {
				if bt, isB := ex.Type().Underlying().(*types.Basic); isB && bt.Kind() == types.Bool {
					if e := g.derive(call.Call.Args[0], 0); e != nil && len(e.ops) == 0 {
						if ps := g.predicate(f); ps != nil {
							a := &atom{e: e, op: token.EQL, pred: ps}
							if neg {
								a.op = token.NEQ
							}
							return a, true
						}
					}
				}
			}
			return nil, false
		}
	}
	if ex, ok := cond.(*ssa.Extract); ok && ex.Index == 1 {
		if lk, ok := ex.Tuple.(*ssa.Lookup); ok && lk.CommaOk && g.Tables != nil {
			if gl := loadedGlobal(lk.X); gl != nil {
				if t := g.Tables(gl); t != nil && t.keyed != nil {
					if e := g.derive(lk.Index, 0); e != nil {
						g.Relied[gl] = true
						a := &atom{e: e, op: token.EQL, keys: t.keyed}
						if neg {
							a.op = token.NEQ
						}
						return a, true
					}
				}
			}
		}
		return nil, false
	}
	b, ok := cond.(*ssa.BinOp)
	if !ok {
		return nil, false
	}
	switch b.Op {
	case token.LSS, token.GTR, token.LEQ, token.GEQ, token.EQL, token.NEQ:
	default:
		return nil, false
	}
	// `check(n) != nil` with check an error-returning predicate of the module
	if b.Op == token.EQL || b.Op == token.NEQ {
		var call *ssa.Call
		errOf := func(v ssa.Value) *ssa.Call {
			if c, ok := v.(*ssa.Call); ok && isErrorType(c.Type()) {
				return c
			}
			if ex, ok := v.(*ssa.Extract); ok && isErrorType(ex.Type()) {
				if c, ok := ex.Tuple.(*ssa.Call); ok {
					if f := c.Call.StaticCallee(); f != nil && ex.Index == f.Signature.Results().Len()-1 {
						return c
					}
				}
			}
			return nil
		}
		if c := errOf(b.X); c != nil && isNilConst(b.Y) {
			call = c
		} else if c := errOf(b.Y); c != nil && isNilConst(b.X) {
			call = c
		}
		if call != nil && g.InModule != nil {
			if f := call.Call.StaticCallee(); f != nil && g.InModule(f) && len(call.Call.Args) == 1 && len(f.Params) == 1 && len(f.Blocks) > 0 {
				e := g.derive(call.Call.Args[0], 0)
				if e == nil {
					// the slice whose length is the subject, handed to a constructor that checks it
					for sv := range g.Subjects {
						if lenOperand(sv) == call.Call.Args[0] {
							e = &gexpr{}
						}
					}
				}
				if e != nil && len(e.ops) == 0 {
					if ps := g.predicate(f); ps != nil {
						a := &atom{e: e, op: token.EQL, pred: ps} // "the predicate holds" = a non-nil error
						if (b.Op == token.EQL) != neg {
							a.op = token.NEQ
						}
						return a, true
					}
				}
			}
			return nil, false
		}
	}
	// `sizeFor(n) == -1`: an integer-valued helper of the module compared with a constant
	{
		lhs, rhs, op := b.X, b.Y, b.Op
		if _, isC := intConst(lhs); isC {
			lhs, rhs, op = rhs, lhs, flipOp(op)
		}
		if c, isC := intConst(rhs); isC && g.InModule != nil {
			if call, ok := lhs.(*ssa.Call); ok {
				if f := call.Call.StaticCallee(); f != nil && g.InModule(f) && len(call.Call.Args) == 1 && len(f.Params) == 1 && len(f.Blocks) > 0 &&
					isIntType(f.Params[0].Type()) && f.Signature.Results().Len() == 1 && isIntType(f.Signature.Results().At(0).Type()) {
					if e := g.derive(call.Call.Args[0], 0); e != nil && len(e.ops) == 0 {
						semPredMu.Lock()
						sp := semPredCmpByProg[f.Prog]
						semPredMu.Unlock()
						if sp != nil {
							if g.predsSlice == nil {
								g.predsSlice = map[string]*predSets{}
							}
							mk := f.String() + " " + op.String() + " " + strconv.FormatInt(c, 10)
							ps, done := g.predsSlice[mk]
							if !done {
								ps = sp(f, g.Bits, op, c)
								g.predsSlice[mk] = ps
								if ps != nil {
									for tg := range ps.Relied {
										g.Relied[tg] = true
									}
								}
							}
							if ps != nil {
								a := &atom{e: e, op: token.EQL, pred: ps}
								if neg {
									a.op = token.NEQ
								}
								return a, true
							}
						}
					}
				}
			}
		}
	}
	var a *atom
	if c, ok := intConst(b.Y); ok {
		if e := g.derive(b.X, 0); e != nil {
			a = &atom{e: e, op: b.Op, c: c}
		}
	} else if c, ok := intConst(b.X); ok {
		if e := g.derive(b.Y, 0); e != nil {
			a = &atom{e: e, op: flipOp(b.Op), c: c}
		}
	}
	if a == nil {
		return nil, false
	}
	if neg {
		a.op = negOp(a.op)
	}
	return a, true
}

func cmpHolds(x int64, op token.Token, c int64) bool {
	switch op {
	case token.LSS:
		return x < c
	case token.GTR:
		return x > c
	case token.LEQ:
		return x <= c
	case token.GEQ:
		return x >= c
	case token.EQL:
		return x == c
	case token.NEQ:
		return x != c
	}
	return false
}

// leastWith returns the least v in [lo,hi] with pred(v) (pred monotone false→true); hi+1 semantics via ok=false if none.
func leastWith(lo, hi int64, pred func(int64) bool) (int64, bool) {
	if !pred(hi) {
		return 0, false
	}
	for lo < hi {
		mid := lo + int64((uint64(hi)-uint64(lo))/2)
		if pred(mid) {
			hi = mid
		} else {
			lo = mid + 1
		}
	}
	return lo, true
}

// refine returns the subset of s on which the atom has truth value want.
func (g *GateResult) refine(s ZSet, a *atom, want bool) ZSet {
	if s.Empty() {
		return s
	}
	op := a.op
	if !want {
		op = negOp(op)
	}
	if a.pred != nil {
		if op == token.EQL {
			return s.Intersect(a.pred.T)
		}
		return s.Intersect(a.pred.F)
	}
	if a.keys != nil || a.e.hasTable() {
		return g.refineByEnumeration(s, a, op)
	}
	dlo, dhi := s.cells[0].lo, s.cells[0].hi
	for _, c := range s.cells {
		if c.lo < dlo {
			dlo = c.lo
		}
		if c.hi > dhi {
			dhi = c.hi
		}
	}
	if a.e.monotone() {
		// the chain may overflow at the ends of the hull: refine only inside the largest
		// interval around 0 (or the hull's small end) where it does not, keep the rest on both edges
		_, okLo := a.e.eval(dlo, g.Bits)
		_, okHi := a.e.eval(dhi, g.Bits)
		if !okLo || !okHi {
			anchor := int64(0)
			if dlo > 0 {
				anchor = dlo
			} else if dhi < 0 {
				anchor = dhi
			}
			if _, ok := a.e.eval(anchor, g.Bits); !ok {
				return s
			}
			safeLo, safeHi := dlo, dhi
			if !okHi {
				// greatest v >= anchor without overflow
				t, found := leastWith(anchor, dhi, func(v int64) bool { _, ok := a.e.eval(v, g.Bits); return !ok })
				if found {
					safeHi = t - 1
				}
			}
			if !okLo {
				// least v <= anchor without overflow: search on the mirrored predicate
				lo, hi := dlo, anchor
				for lo < hi {
					mid := lo + int64((uint64(hi)-uint64(lo))/2)
					if _, ok := a.e.eval(mid, g.Bits); ok {
						hi = mid
					} else {
						lo = mid + 1
					}
				}
				safeLo = lo
			}
			inside := s.clip(safeLo, safeHi)
			var outside ZSet
			if safeLo > dlo {
				outside = outside.Union(s.clip(dlo, safeLo-1))
			}
			if safeHi < dhi {
				outside = outside.Union(s.clip(safeHi+1, dhi))
			}
			if inside.Empty() {
				return s
			}
			return g.refine(inside, a, want).Union(outside)
		}
		f := func(v int64) int64 { x, _ := a.e.eval(v, g.Bits); return x }
		// tGE = least v with f(v) >= c ; tGT = least v with f(v) > c
		tGE, okGE := leastWith(dlo, dhi, func(v int64) bool { return f(v) >= a.c })
		tGT, okGT := leastWith(dlo, dhi, func(v int64) bool { return f(v) > a.c })
		below := func(t int64, ok bool) ZSet { // {v < t}
			if !ok {
				return s
			}
			if t == math.MinInt64 {
				return ZSet{}
			}
			return s.clip(dlo, t-1)
		}
		from := func(t int64, ok bool) ZSet { // {v >= t}
			if !ok {
				return ZSet{}
			}
			return s.clip(t, dhi)
		}
		switch op {
		case token.LSS:
			return below(tGE, okGE)
		case token.LEQ:
			return below(tGT, okGT)
		case token.GEQ:
			return from(tGE, okGE)
		case token.GTR:
			return from(tGT, okGT)
		case token.EQL:
			if !okGE {
				return ZSet{}
			}
			r := s.clip(tGE, dhi)
			if okGT {
				if tGT == math.MinInt64 {
					return ZSet{}
				}
				r = r.clip(tGE, tGT-1)
			}
			return r
		case token.NEQ:
			return below(tGE, okGE).Union(from(tGT, okGT))
		}
		return s
	}
	if mul, add, m, ok := a.e.periodic(); ok {
		lin := gexpr{[]gop{{kind: '*', c: mul}, {kind: '+', c: add}}}
		// restrict to the part of the hull where mul·v+add does not overflow
		_, okLo := lin.eval(dlo, g.Bits)
		_, okHi := lin.eval(dhi, g.Bits)
		inside, outside := s, ZSet{}
		if !okLo || !okHi {
			anchor := int64(0)
			if dlo > 0 {
				anchor = dlo
			} else if dhi < 0 {
				anchor = dhi
			}
			if _, ok := lin.eval(anchor, g.Bits); !ok {
				return s
			}
			safeLo, safeHi := dlo, dhi
			if !okHi {
				if t, found := leastWith(anchor, dhi, func(v int64) bool { _, ok := lin.eval(v, g.Bits); return !ok }); found {
					safeHi = t - 1
				}
			}
			if !okLo {
				lo, hi := dlo, anchor
				for lo < hi {
					mid := lo + int64((uint64(hi)-uint64(lo))/2)
					if _, ok := lin.eval(mid, g.Bits); ok {
						hi = mid
					} else {
						lo = mid + 1
					}
				}
				safeLo = lo
			}
			inside = s.clip(safeLo, safeHi)
			if safeLo > dlo {
				outside = outside.Union(s.clip(dlo, safeLo-1))
			}
			if safeHi < dhi {
				outside = outside.Union(s.clip(safeHi+1, dhi))
			}
			dlo, dhi = safeLo, safeHi
		}
		if inside.Empty() {
			return s
		}
		// v0 = least v with mul·v+add >= 0
		v0, has := leastWith(dlo, dhi, func(v int64) bool { u, _ := lin.eval(v, g.Bits); return u >= 0 })
		nonneg, neg := ZSet{}, inside
		if has {
			nonneg = inside.clip(v0, dhi)
			if v0 > dlo {
				neg = inside.clip(dlo, v0-1)
			} else {
				neg = ZSet{}
			}
		}
		P := m / gcd(mul, m)
		out := outside
		for r := int64(0); r < P; r++ {
			u := mathMod(mathMod(mul, m)*r+mathMod(add, m), m) // (mul·r+add) mod m
			if cmpHolds(u, op, a.c) {
				out = out.Union(nonneg.residue(P, r))
			}
			// for negative u the truncated remainder is -((-u) mod m) = -(mathMod(-u, m))
			nu := mathMod(-u, m)
			if cmpHolds(-nu, op, a.c) {
				out = out.Union(neg.residue(P, r))
			}
		}
		return out
	}
	return s
}

func maxI(a, b int64) int64 {
	if a > b {
		return a
	}
	return b
}
func minI(a, b int64) int64 {
	if a < b {
		return a
	}
	return b
}

// AnalyseGate runs the reach-set analysis.  defBlock is the block in which the subject
// becomes defined (entry block for a parameter).
func AnalyseGate(fn *ssa.Function, subjects map[ssa.Value]bool, defBlock *ssa.BasicBlock, domain ZSet, bits int, tables func(*ssa.Global) *gtable, inModule func(*ssa.Function) bool) *GateResult {
	g := &GateResult{Fn: fn, Subjects: subjects, Domain: domain, Reach: map[*ssa.BasicBlock]ZSet{}, Pre: map[*ssa.BasicBlock]bool{}, Bits: bits, Tables: tables, Relied: map[*ssa.Global]bool{}, Edge: map[[2]*ssa.BasicBlock]ZSet{}, InModule: inModule}
	if len(fn.Blocks) == 0 {
		return g
	}
	// blocks that can run before the subject exists: reachable from entry without passing defBlock
	if defBlock != fn.Blocks[0] {
		var walk func(b *ssa.BasicBlock)
		walk = func(b *ssa.BasicBlock) {
			if g.Pre[b] || b == defBlock {
				return
			}
			g.Pre[b] = true
			for _, s := range b.Succs {
				walk(s)
			}
		}
		walk(fn.Blocks[0])
	}
	g.Reach[defBlock] = domain
	work := []*ssa.BasicBlock{defBlock}
	iter := 0
	atomSeen := map[*ssa.BasicBlock]bool{}
	for len(work) > 0 {
		iter++
		if iter > 10000 {
			for _, b := range fn.Blocks {
				if !g.Pre[b] || b == defBlock {
					g.Reach[b] = domain
				}
			}
			break
		}
		b := work[0]
		work = work[1:]
		in := g.Reach[b]
		outs := make([]ZSet, len(b.Succs))
		for i := range outs {
			outs[i] = in
		}
		if ifi, ok := b.Instrs[len(b.Instrs)-1].(*ssa.If); ok && len(b.Succs) == 2 {
			if a, ok := g.atomOf(ifi.Cond); ok {
				if !atomSeen[b] {
					atomSeen[b] = true
					g.Atoms++
				}
				outs[0] = g.refine(in, a, true)
				outs[1] = g.refine(in, a, false)
			} else if t, f, ok := g.flagSets(ifi.Cond, b); ok {
				// a boolean flag set on the branches of earlier tests of the size
				// (`valid := false; switch n { case 16: valid = true … }; if !valid`): it is true
				// exactly for the sizes that arrive over the edges that carry `true`
				outs[0] = in.Intersect(t)
				outs[1] = in.Intersect(f)
			} else if g.dependsOnSubject(ifi.Cond, 0) && !atomSeen[b] {
				atomSeen[b] = true
				g.Opaque = append(g.Opaque, ifi)
			}
		}
		for i, s := range b.Succs {
			k := [2]*ssa.BasicBlock{b, s}
			g.Edge[k] = g.Edge[k].Union(outs[i])
			old := g.Reach[s]
			nw := old.Union(outs[i])
			if nw.String() != old.String() || (len(old.cells) == 0 && len(nw.cells) > 0) {
				g.Reach[s] = nw
				work = append(work, s)
			} else if _, seen := g.Reach[s]; !seen {
				g.Reach[s] = nw
			}
		}
	}
	return g
}

// constIntTable: like constIntSlice, but the constants in order.
func constIntTable(v ssa.Value) ([]int64, bool) {
	if _, ok := constIntSlice(v); !ok {
		return nil, false
	}
	al := v.(*ssa.Slice).X.(*ssa.Alloc)
	n := al.Type().Underlying().(*types.Pointer).Elem().Underlying().(*types.Array).Len()
	out := make([]int64, n) // elements never stored stay zero, as in the literal
	for _, r := range *al.Referrers() {
		ia, ok := r.(*ssa.IndexAddr)
		if !ok {
			continue
		}
		i, _ := intConst(ia.Index)
		for _, rr := range *ia.Referrers() {
			if st, ok := rr.(*ssa.Store); ok {
				c, _ := intConst(st.Val)
				if i >= 0 && i < n {
					out[i] = c
				}
			}
		}
	}
	return out, true
}

// constIntSlice: v is a slice literal of integer constants (`[]int{16, 20, 24}`): a slice of
// a local array all of whose elements are stored once, with constants, and nothing else.
func constIntSlice(v ssa.Value) (map[int64]int64, bool) {
	sl, ok := v.(*ssa.Slice)
	if !ok || sl.Low != nil || sl.High != nil {
		return nil, false
	}
	al, ok := sl.X.(*ssa.Alloc)
	if !ok {
		return nil, false
	}
	at, ok := al.Type().Underlying().(*types.Pointer).Elem().Underlying().(*types.Array)
	if !ok || at.Len() > 4096 {
		return nil, false
	}
	vals := map[int64]int64{}
	stored := map[int64]bool{}
	for _, r := range *al.Referrers() {
		switch x := r.(type) {
		case *ssa.DebugRef:
		case *ssa.Slice:
			if x != sl {
				return nil, false
			}
		case *ssa.IndexAddr:
			i, ok := intConst(x.Index)
			if !ok || stored[i] {
				return nil, false
			}
			for _, rr := range *x.Referrers() {
				st, ok := rr.(*ssa.Store)
				if !ok || st.Addr != ssa.Value(x) {
					return nil, false
				}
				c, ok := intConst(st.Val)
				if !ok {
					return nil, false
				}
				vals[c] = 1
				stored[i] = true
			}
		default:
			return nil, false
		}
	}
	if int64(len(stored)) != at.Len() {
		vals[0] = 1 // an element left at its zero value
	}
	// the slice itself must not be written through or handed on before the call: its only use is the call
	for _, r := range *sl.Referrers() {
		if _, ok := r.(ssa.CallInstruction); !ok {
			if _, dbg := r.(*ssa.DebugRef); !dbg {
				return nil, false
			}
		}
	}
	return vals, true
}

// flagSets: cond is (a negation of) a φ of boolean constants in a block that is b or
// dominates b; returns the subject values that can make it true / false, from the reach sets
// of the φ's incoming edges.
func (g *GateResult) flagSets(cond ssa.Value, b *ssa.BasicBlock) (t, f ZSet, ok bool) {
	neg := false
	for {
		u, isNot := cond.(*ssa.UnOp)
		if !isNot || u.Op != token.NOT {
			break
		}
		neg = !neg
		cond = u.X
	}
	phi, isPhi := cond.(*ssa.Phi)
	if !isPhi {
		return t, f, false
	}
	pb := phi.Block()
	if pb != b && !pb.Dominates(b) {
		return t, f, false
	}
	for i, p := range pb.Preds {
		c, isConst := phi.Edges[i].(*ssa.Const)
		if !isConst || c.Value == nil || c.Value.Kind() != constant.Bool {
			return t, f, false
		}
		e := g.Edge[[2]*ssa.BasicBlock{p, pb}]
		if g.Pre[p] {
			return t, f, false
		}
		if constant.BoolVal(c.Value) != neg {
			t = t.Union(e)
		} else {
			f = f.Union(e)
		}
	}
	return t, f, true
}

// refineByEnumeration handles atoms over constant tables: the candidate subject values
// at which the truth of the atom is not constant are finitely many (indices of the table /
// keys of the map, pulled back through the invertible part of the chain); they are listed
// and the atom is evaluated on each.  Values at which the chain cannot be evaluated
// (index out of range: the program would panic there) stay on both edges.
func (g *GateResult) refineByEnumeration(s ZSet, a *atom, op token.Token) ZSet {
	if vs, ok := s.Enumerate(8192); ok {
		var keep []int64
		for _, v := range vs {
			if g.atomTruth(a, op, v) != 0 {
				keep = append(keep, v)
			}
		}
		return ZOf(keep...)
	}
	// infinite S: split off the finite region where the table matters
	// find the prefix of the chain before the first table op; it must be the identity or +c
	shift := int64(0)
	var first *gtable
	for _, o := range a.e.ops {
		if o.kind == 'T' {
			first = o.tab
			break
		}
		if o.kind != '+' {
			return s
		}
		shift += o.c
	}
	keys := a.keys
	if first != nil && first.keyed != nil {
		keys = first.keyed
	}
	var region []int64
	switch {
	case first != nil && first.dense != nil:
		for i := range first.dense {
			region = append(region, int64(i)-shift)
		}
	case keys != nil:
		if first == nil {
			// inkeys atom on a plain chain: only identity/+c supported
			for _, o := range a.e.ops {
				if o.kind != '+' {
					return s
				}
			}
			shift = 0
			for _, o := range a.e.ops {
				shift += o.c
			}
		}
		for k := range keys {
			region = append(region, k-shift)
		}
	default:
		return s
	}
	inside := s.IntersectFinite(region)
	outside := s.MinusFinite(region)
	var keep []int64
	if vs, ok := inside.Enumerate(8192); ok {
		for _, v := range vs {
			if g.atomTruth(a, op, v) != 0 {
				keep = append(keep, v)
			}
		}
	}
	out := ZOf(keep...)
	// outside the region: dense tables cannot be evaluated (kept), map tables give the zero value / "not a key"
	if first != nil && first.dense != nil {
		return out.Union(outside)
	}
	probe := outside.Sample(1)
	if len(probe) == 1 && g.atomTruth(a, op, probe[0]) != 0 {
		return out.Union(outside)
	}
	return out
}

// atomTruth: 1 true, 0 false, 2 cannot be evaluated (kept on both edges)
func (g *GateResult) atomTruth(a *atom, op token.Token, v int64) int {
	x, ok := a.e.eval(v, g.Bits)
	if !ok {
		return 2
	}
	if a.keys != nil {
		_, in := a.keys[x]
		if in == (op == token.EQL) {
			return 1
		}
		return 0
	}
	if cmpHolds(x, op, a.c) {
		return 1
	}
	return 0
}

// SemPred, when set, classifies a one-argument helper by abstract evaluation (used when its
// code is beyond the structural analysis below: loops, calls of other helpers).
var (
	semPredMu     sync.Mutex
	semPredByProg = map[*ssa.Program]func(f *ssa.Function, bits int) *predSets{}
	// the same for helpers that also take a slice of integer constants: `contains(list, n)`
	semPredSliceByProg = map[*ssa.Program]func(f *ssa.Function, bits int, slice []int64) *predSets{}
	semPredCmpByProg   = map[*ssa.Program]func(f *ssa.Function, bits int, op token.Token, c int64) *predSets{}
	semPredFixedByProg = map[*ssa.Program]func(f *ssa.Function, bits int, fixed map[int]int64) *predSets{}
)

func semPredOf(f *ssa.Function) func(f *ssa.Function, bits int) *predSets {
	semPredMu.Lock()
	defer semPredMu.Unlock()
	return semPredByProg[f.Prog]
}

// predicate analyses a one-argument boolean helper `func(n int) bool` of the module.
func (g *GateResult) predicate(f *ssa.Function) *predSets {
	if g.preds == nil {
		g.preds = map[*ssa.Function]*predSets{}
	}
	if ps, ok := g.preds[f]; ok {
		return ps
	}
	ps := g.predicateStruct(f)
	if sp := semPredOf(f); ps == nil && sp != nil && len(f.Params) == 1 && isIntType(f.Params[0].Type()) {
		ps = sp(f, g.Bits)
		if ps != nil {
			for tg := range ps.Relied {
				g.Relied[tg] = true
			}
		}
	}
	g.preds[f] = ps
	return ps
}

func (g *GateResult) predicateStruct(f *ssa.Function) *predSets {
	g.preds[f] = nil // recursion guard
	p := f.Params[0]
	// `NewEntropy(b []byte) (Entropy, error)`: a predicate of len(b)
	bytesParam := false
	if sl, ok := p.Type().Underlying().(*types.Slice); ok {
		if bt, ok := sl.Elem().Underlying().(*types.Basic); ok && bt.Kind() == types.Uint8 {
			bytesParam = true
		}
	}
	if !isIntType(p.Type()) && !bytesParam {
		return nil
	}
	// the result is a bool, or an error (then "true" stands for "returns a non-nil error")
	// (an error-returning predicate may have other results before the error: `(size, error)`)
	isErr := false
	res := f.Signature.Results()
	ri := res.Len() - 1
	if ri >= 0 && isErrorType(res.At(ri).Type()) {
		isErr = true
	} else if ri < 0 {
		return nil
	} else if b, ok := res.At(ri).Type().Underlying().(*types.Basic); !ok || b.Kind() != types.Bool {
		return nil // (a bool predicate may have other results before the bool: `(size, ok)`)
	}
	lo, hi := int64(math.MinInt64), int64(math.MaxInt64)
	if g.Bits == 32 {
		lo, hi = math.MinInt32, math.MaxInt32
	}
	// no side effects: only value computations, branches and returns
	for _, b := range f.Blocks {
		for _, in := range b.Instrs {
			switch in.(type) {
			case *ssa.BinOp, *ssa.UnOp, *ssa.Phi, *ssa.If, *ssa.Jump, *ssa.Return, *ssa.DebugRef, *ssa.Convert, *ssa.ChangeType, *ssa.IndexAddr, *ssa.Lookup, *ssa.Extract:
			case *ssa.Call, *ssa.Alloc, *ssa.Store, *ssa.MakeInterface, *ssa.Slice, *ssa.FieldAddr:
				// building an error value (fmt.Errorf("…%w", sentinel), errors.New): allowed in an
				// error-returning predicate, and only that
				if !isErr {
					// a (value, ok) predicate may build its value in a local struct
					okLocal := false
					switch x := in.(type) {
					case *ssa.Alloc:
						_, okLocal = x.Type().Underlying().(*types.Pointer).Elem().Underlying().(*types.Struct)
						okLocal = okLocal && !x.Heap
					case *ssa.FieldAddr:
						_, okLocal = x.X.(*ssa.Alloc)
					case *ssa.Store:
						if fa, isFA := x.Addr.(*ssa.FieldAddr); isFA {
							_, okLocal = fa.X.(*ssa.Alloc)
						} else {
							_, okLocal = x.Addr.(*ssa.Alloc)
						}
					}
					if !okLocal {
						return nil
					}
					continue
				}
				if c, ok := in.(*ssa.Call); ok {
					if n := calleeName(c); n != "fmt.Errorf" && n != "errors.New" && !(bytesParam && (n == "len" || n == "append")) {
						return nil
					}
				}
				if st, ok := in.(*ssa.Store); ok {
					switch ad := st.Addr.(type) {
					case *ssa.IndexAddr:
					case *ssa.FieldAddr: // a field of a local struct being built as another result
						if _, local := ad.X.(*ssa.Alloc); !local {
							return nil
						}
					default:
						return nil
					}
				}
			default:
				return nil
			}
		}
	}
	innerSubj := map[ssa.Value]bool{p: true}
	if bytesParam {
		if !isErr {
			return nil
		}
		innerSubj = map[ssa.Value]bool{}
		for _, c := range callsIn(f) {
			if calleeName(c) == "len" && c.Common().Args[0] == ssa.Value(p) {
				innerSubj[c.Value()] = true
			}
		}
		if len(innerSubj) == 0 {
			return nil
		}
		lo, hi = 0, int64(1)<<48
		if g.Bits == 32 {
			hi = math.MaxInt32
		}
	}
	inner := AnalyseGate(f, innerSubj, f.Blocks[0], ZRange(lo, hi), g.Bits, g.Tables, nil)
	for tg := range inner.Relied {
		g.Relied[tg] = true
	}
	ps := &predSets{}
	addVal := func(v ssa.Value, reach ZSet) bool {
		if isErr {
			switch x := v.(type) {
			case *ssa.Const:
				if x.Value == nil {
					ps.F = ps.F.Union(reach)
					return true
				}
			case *ssa.UnOp:
				if loadedGlobal(x) != nil { // a sentinel variable (S1: initialised non-nil, never reassigned)
					ps.T = ps.T.Union(reach)
					return true
				}
			case *ssa.Call:
				if n := calleeName(x); n == "fmt.Errorf" || n == "errors.New" {
					ps.T = ps.T.Union(reach)
					return true
				}
			}
			return false
		}
		if c, ok := v.(*ssa.Const); ok && c.Value != nil {
			if c.Value.String() == "true" {
				ps.T = ps.T.Union(reach)
			} else {
				ps.F = ps.F.Union(reach)
			}
			return true
		}
		if a, ok := inner.atomOf(v); ok {
			ps.T = ps.T.Union(inner.refine(reach, a, true))
			ps.F = ps.F.Union(inner.refine(reach, a, false))
			return true
		}
		return false
	}
	for _, ret := range returnsOf(f) {
		b := ret.Block()
		v := ret.Results[ri]
		if phi, ok := v.(*ssa.Phi); ok && phi.Block() == b {
			for i, pr := range b.Preds {
				if !addVal(phi.Edges[i], inner.Edge[[2]*ssa.BasicBlock{pr, b}]) {
					return nil
				}
			}
			continue
		}
		if !addVal(v, inner.Reach[b]) {
			return nil
		}
	}
	g.preds[f] = ps
	return ps
}
