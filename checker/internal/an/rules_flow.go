package an

import (
	"fmt"
	"go/constant"
	"go/token"
	"go/types"
	"sort"
	"strings"

	"golang.org/x/text/unicode/norm"
	"golang.org/x/tools/go/ssa"
)

// ---------------------------------------------------------------- non-interference

// rawUses follows a raw string parameter through value-preserving operations and reports
// every use that is not "operand of an NFKD call".  Concatenation with other strings keeps
// the result raw (NFKD of a concatenation is a function of the NFKD forms of the parts).
type rawUse struct {
	Instr ssa.Instruction
	What  string
}

func isNFKDCall(c ssa.CallInstruction, v ssa.Value) bool {
	cc := c.Common()
	callee := cc.StaticCallee()
	if callee == nil || cc.IsInvoke() {
		return false
	}
	name := callee.String()
	if !strings.HasPrefix(name, "(golang.org/x/text/unicode/norm.Form).") {
		return false
	}
	if mc, ok := cc.Value.(*ssa.MakeClosure); ok && (callee.Name() == "String$bound" || callee.Name() == "Bytes$bound") {
		// the method value norm.NFKD.String held in a local (`nfkd := norm.NFKD.String; nfkd(s)`)
		if len(mc.Bindings) != 1 || len(cc.Args) != 1 {
			return false
		}
		f, ok := intConst(mc.Bindings[0])
		return ok && f == int64(norm.NFKD) && cc.Args[0] == v
	}
	switch callee.Name() {
	case "String", "Bytes", "AppendString", "Append":
	default:
		return false
	}
	if len(cc.Args) < 2 {
		return false
	}
	f, ok := intConst(cc.Args[0])
	if !ok || f != int64(norm.NFKD) {
		return false
	}
	return cc.Args[len(cc.Args)-1] == v
}

// onlyEmptinessTest: every use of n (a length) is a comparison that only asks whether it is 0.
func onlyEmptinessTest(n ssa.Value) bool {
	if n == nil || n.Referrers() == nil {
		return false
	}
	any := false
	for _, r := range *n.Referrers() {
		if _, ok := r.(*ssa.DebugRef); ok {
			continue
		}
		bo, ok := r.(*ssa.BinOp)
		if !ok {
			return false
		}
		op, other := bo.Op, bo.Y
		if other == n {
			op, other = flipOp(op), bo.X
		}
		k, isC := intConst(other)
		if !isC {
			return false
		}
		switch {
		case k == 0 && (op == token.EQL || op == token.NEQ || op == token.GTR || op == token.LEQ):
		case k == 1 && (op == token.LSS || op == token.GEQ):
		default:
			return false
		}
		any = true
	}
	return any
}

// isBoundNFKDString: the method value norm.NFKD.String (or .Bytes).
func isBoundNFKDString(fv FuncV) bool {
	if fv.Fn == nil || len(fv.Bindings) != 1 {
		return false
	}
	n := fv.Fn.String()
	if n != "(golang.org/x/text/unicode/norm.Form).String$bound" && n != "(golang.org/x/text/unicode/norm.Form).Bytes$bound" {
		return false
	}
	f, ok := fv.Bindings[0].(IntV)
	c, okc := f.Const()
	return ok && okc && c == int64(norm.NFKD)
}

// localMemory: the object was made by a make or a local variable of a module function during
// the evaluation (not a package-level variable, not something a caller handed in).
func localMemory(o *Obj) bool {
	if o == nil || o.Site == nil {
		return false
	}
	switch x := o.Site.(type) {
	case *ssa.MakeSlice, *ssa.Alloc:
		return true
	case *ssa.Slice:
		// the slice of a local array (what `make([]byte, 64)` with a constant size compiles to)
		_, isAlloc := x.X.(*ssa.Alloc)
		return isAlloc
	}
	return false
}

func (a *Analysis) rawUses(root ssa.Value) (bad []rawUse, sanitised int) {
	seen := map[ssa.Value]bool{}
	var walk func(v ssa.Value, depth int)
	// walkStruct: sv is a struct (or a pointer to one) whose field f holds the raw text
	type sf struct {
		v ssa.Value
		f int
	}
	seenS := map[sf]bool{}
	var walkStruct func(sv ssa.Value, f int, depth int)
	walkStruct = func(sv ssa.Value, f int, depth int) {
		if seenS[sf{sv, f}] || depth > 16 {
			return
		}
		seenS[sf{sv, f}] = true
		refs := sv.Referrers()
		if refs == nil {
			return
		}
		_, isPtr := sv.Type().Underlying().(*types.Pointer)
		for _, r := range *refs {
			switch x := r.(type) {
			case *ssa.DebugRef:
			case *ssa.FieldAddr:
				if !isPtr || x.X != sv {
					bad = append(bad, rawUse{r, "struct holding the raw argument used in an unexpected way"})
					continue
				}
				if x.Field != f {
					continue
				}
				for _, fr := range *x.Referrers() {
					switch y := fr.(type) {
					case *ssa.DebugRef:
					case *ssa.UnOp:
						if y.Op == token.MUL {
							walk(y, depth+1)
						}
					case *ssa.Store:
						if y.Addr != ssa.Value(x) {
							bad = append(bad, rawUse{fr, "address of the field holding the raw argument stored"})
						}
					default:
						bad = append(bad, rawUse{fr, "address of the field holding the raw argument escapes"})
					}
				}
			case *ssa.Field:
				if x.X == sv && x.Field == f {
					walk(x, depth+1)
				}
			case *ssa.UnOp:
				if isPtr && x.Op == token.MUL {
					walkStruct(x, f, depth+1)
				} else {
					bad = append(bad, rawUse{r, "struct holding the raw argument used in an unexpected way"})
				}
			case *ssa.Store:
				// the struct value spilled into a local of the callee (a value receiver whose
				// address is taken): that local holds it
				if al, ok := x.Addr.(*ssa.Alloc); ok && x.Val == sv && !isPtr {
					walkStruct(al, f, depth+1)
				} else if x.Addr == sv && seenS[sf{x.Val, f}] {
					// the spill itself
				} else if x.Addr == sv {
					// (re)initialisation of the struct itself: `*p = T{}` would drop the text
					bad = append(bad, rawUse{r, "struct holding the raw argument overwritten"})
				} else {
					bad = append(bad, rawUse{r, "struct holding the raw argument stored to memory"})
				}
			case ssa.CallInstruction:
				cc := x.Common()
				callee := cc.StaticCallee()
				if callee != nil && len(callee.Blocks) > 0 && callee.Pkg != nil && a.P.InModule(callee.Pkg) && len(callee.Params) == len(cc.Args) {
					for i, arg := range cc.Args {
						if arg == sv {
							walkStruct(callee.Params[i], f, depth+1)
						}
					}
					continue
				}
				bad = append(bad, rawUse{r, "struct holding the raw argument passed to " + calleeName(x)})
			default:
				bad = append(bad, rawUse{r, "struct holding the raw argument used in an unexpected way"})
			}
		}
	}
	walk = func(v ssa.Value, depth int) {
		if seen[v] || depth > 16 {
			return
		}
		seen[v] = true
		refs := v.Referrers()
		if refs == nil {
			return
		}
		for _, r := range *refs {
			switch x := r.(type) {
			case *ssa.DebugRef:
			case *ssa.Phi, *ssa.ChangeType, *ssa.MakeInterface, *ssa.ChangeInterface:
				walk(r.(ssa.Value), depth+1)
			case *ssa.Convert:
				walk(x, depth+1) // string <-> []byte keeps the raw bytes
			case *ssa.Slice:
				bad = append(bad, rawUse{r, "substring of the raw argument"})
			case *ssa.BinOp:
				other := x.Y
				if other == v {
					other = x.X
				}
				if x.Op == token.ADD {
					walk(x, depth+1)
				} else if s, isC := strConst(other); isC && s == "" && (x.Op == token.EQL || x.Op == token.NEQ) {
					// emptiness: NFKD never deletes a character, so s == "" exactly when NFKD(s) == ""
				} else {
					bad = append(bad, rawUse{r, "comparison on the raw argument (" + x.Op.String() + ")"})
				}
			case *ssa.Store:
				if al, ok := x.Addr.(*ssa.Alloc); ok && x.Val == v {
					for _, ar := range *al.Referrers() {
						if ld, ok := ar.(*ssa.UnOp); ok && ld.Op == token.MUL {
							walk(ld, depth+1)
						}
						if mc, ok := ar.(*ssa.MakeClosure); ok {
							if fn, ok := mc.Fn.(*ssa.Function); ok {
								for i, b := range mc.Bindings {
									if b == ssa.Value(al) && i < len(fn.FreeVars) {
										for _, fr := range *fn.FreeVars[i].Referrers() {
											if ld, ok := fr.(*ssa.UnOp); ok && ld.Op == token.MUL {
												walk(ld, depth+1)
											}
										}
									}
								}
							}
						}
					}
				} else if fa, ok := x.Addr.(*ssa.FieldAddr); ok && x.Val == v {
					// a field of a struct built in place (`Mnemonic{text: mnemonic}.Seed(p)`): the
					// raw text is wherever that field of that struct is read
					if al, isAl := fa.X.(*ssa.Alloc); isAl {
						walkStruct(al, fa.Field, depth+1)
					} else {
						bad = append(bad, rawUse{r, "raw argument stored to memory"})
					}
				} else {
					bad = append(bad, rawUse{r, "raw argument stored to memory"})
				}
			case ssa.CallInstruction:
				if isNFKDCall(x, v) {
					sanitised++
					continue
				}
				cc := x.Common()
				callee := cc.StaticCallee()
				if callee != nil && len(cc.Args) == 1 && cc.Args[0] == v && a.P.nfkdHelper(callee) {
					sanitised++ // norm.NFKD.String behind a "normalised already?" test
					continue
				}
				if callee == nil && !cc.IsInvoke() {
					// a call through a function-valued package variable that only its declaration
					// assigns (a seam): the function it holds
					if gl := loadedGlobal(cc.Value); gl != nil && a.G.SeamOK[gl] {
						if fv, ok := a.G.Init[gl].(FuncV); ok && fv.Fn != nil {
							if isBoundNFKDString(fv) && len(cc.Args) == 1 && cc.Args[0] == v {
								sanitised++
								continue
							}
							if len(fv.Bindings) == 0 {
								callee = fv.Fn
							}
						}
					}
				}
				if callee != nil && len(callee.Blocks) > 0 && callee.Pkg != nil && a.P.InModule(callee.Pkg) {
					for i, arg := range cc.Args {
						if arg == v && i < len(callee.Params) {
							walk(callee.Params[i], depth+1)
						}
					}
					continue
				}
				if calleeName(x) == "len" {
					if onlyCapacityHint(x.Value()) {
						continue // len(raw) used only as a capacity hint of make: not observable
					}
					if onlyEmptinessTest(x.Value()) {
						continue // len(raw) == 0 exactly when the NFKD form is empty
					}
					bad = append(bad, rawUse{r, "length of the raw argument"})
					continue
				}
				bad = append(bad, rawUse{r, "raw argument passed to " + calleeName(x)})
			case *ssa.MakeClosure:
				if fn, ok := x.Fn.(*ssa.Function); ok {
					for i, b := range x.Bindings {
						if b == v && i < len(fn.FreeVars) {
							walk(fn.FreeVars[i], depth+1)
						}
					}
				}
			case *ssa.Return:
				bad = append(bad, rawUse{r, "raw argument returned"})
			case *ssa.Lookup:
				bad = append(bad, rawUse{r, "raw argument used as a map key or indexed"})
			case *ssa.Index, *ssa.IndexAddr, *ssa.Range:
				bad = append(bad, rawUse{r, "raw argument iterated or indexed"})
			case *ssa.If:
			default:
				bad = append(bad, rawUse{r, fmt.Sprintf("raw argument used by %T", r)})
			}
		}
	}
	walk(root, 0)
	return
}

// onlyCapacityHint: the value flows (through additions) only into the capacity operand of make.
func onlyCapacityHint(v ssa.Value) bool {
	if v == nil || v.Referrers() == nil {
		return false
	}
	for _, r := range *v.Referrers() {
		switch x := r.(type) {
		case *ssa.DebugRef:
		case *ssa.BinOp:
			if x.Op != token.ADD || !onlyCapacityHint(x) {
				return false
			}
		case *ssa.MakeSlice:
			if x.Cap != v || x.Len == v {
				return false
			}
		default:
			return false
		}
	}
	return true
}

func stringParams(fn *ssa.Function) []*ssa.Parameter {
	var out []*ssa.Parameter
	for _, p := range fn.Params {
		if b, ok := p.Type().Underlying().(*types.Basic); ok && b.Info()&types.IsString != 0 {
			out = append(out, p)
		}
	}
	return out
}

// ruleF1: the validator's verdict depends on its string argument only through NFKD.
func (a *Analysis) ruleF1() {
	r := a.R
	roots := []*ssa.Function{a.IMV}
	if a.CM != nil {
		roots = append(append([]*ssa.Function{}, a.API[a.CM]...), a.IMV)
	}
	for _, fn := range roots {
		if fn == nil {
			continue
		}
		for _, p := range stringParams(fn) {
			bad, san := a.rawUses(p)
			key := fnKey(fn) + "/raw/" + p.Name()
			for _, b := range bad {
				r.Bad("F1", key, a.P.InstrPos(b.Instr), "", "%s: %s — the verdict can differ between strings with equal NFKD forms", fnKey(fn), b.What)
			}
			switch {
			case len(bad) > 0:
			case san == 0:
				r.Bad("F1", key, a.P.Pos(fn.Pos()), "", "the string argument of %s never reaches an NFKD normalisation", fnKey(fn))
			default:
				r.OK("F1", key, a.P.Pos(fn.Pos()), "", "every use of the raw argument is the operand of norm.NFKD (%d call sites)", san)
			}
		}
	}
}

// ---------------------------------------------------------------- F2

func (a *Analysis) moduleCallees(fn *ssa.Function) map[*ssa.Function]bool {
	seen := map[*ssa.Function]bool{}
	var walk func(f *ssa.Function)
	walk = func(f *ssa.Function) {
		for _, b := range f.Blocks {
			for _, in := range b.Instrs {
				for _, op := range in.Operands(nil) {
					var callee *ssa.Function
					switch v := (*op).(type) {
					case *ssa.Function:
						callee = v
					case *ssa.MakeClosure:
						callee, _ = v.Fn.(*ssa.Function)
					}
					if callee == nil || seen[callee] {
						continue
					}
					pk := callee.Pkg
					if pk == nil && callee.Parent() != nil {
						pk = callee.Parent().Pkg
					}
					if pk == nil || !a.P.InModule(pk) {
						continue
					}
					seen[callee] = true
					walk(callee)
				}
			}
		}
	}
	walk(fn)
	return seen
}

// ruleF2: MnemonicToSeed is exactly pbkdf2.Key(NFKD(m), "mnemonic"+NFKD(p), 2048, 64, sha512.New).
func (a *Analysis) ruleF2() {
	r := a.R
	fn := a.MTS
	if fn == nil {
		return
	}
	fk := fnKey(fn)
	pos := a.P.Pos(fn.Pos())
	e := a.eval(fn, &Ctx{Name: "any"})
	// non-interference
	for _, p := range stringParams(fn) {
		bad, san := a.rawUses(p)
		k := fk + "/raw/" + p.Name()
		for _, b := range bad {
			r.Bad("F2n", k, a.P.InstrPos(b.Instr), "", "%s: %s — the seed can differ between arguments with equal NFKD forms", fk, b.What)
		}
		if len(bad) == 0 && san == 0 {
			r.Bad("F2n", k, pos, "", "argument %s never reaches an NFKD normalisation", p.Name())
		} else if len(bad) == 0 {
			r.OK("F2n", k, pos, "", "every use of %s is the operand of norm.NFKD (directly or after concatenation)", p.Name())
		}
	}
	var key *CallRec
	nKey := 0
	for i := range e.Calls {
		if e.Calls[i].Callee == "golang.org/x/crypto/pbkdf2.Key" {
			key = &e.Calls[i]
			nKey++
		}
	}
	if key == nil || nKey != 1 {
		r.Bad("F2", fk+"/kdf-call", pos, "", "expected exactly one call of golang.org/x/crypto/pbkdf2.Key, found %d", nKey)
		return
	}
	kp := a.P.InstrPos(key.Instr)
	sp := stringParams(fn)
	if len(sp) != 2 {
		r.Unk("F2", fk+"/params", pos, "", "expected two string parameters")
		return
	}
	raw := func(p *ssa.Parameter) string { return "raw(" + p.Name() + ")" }
	// password (as the bytes stand when the KDF is called)
	resolveAt := func(v AV) BytesV {
		b, _ := v.(BytesV)
		if b.Obj != nil {
			if bc, ok := key.State[b.Obj].(BufC); ok {
				return bc.B
			}
		}
		return b
	}
	pw := resolveAt(key.Args[0])
	wantPw := "NFKD(" + raw(sp[0]) + ")"
	if pw.Str == nil || pw.Str.String() != wantPw {
		r.Bad("F2", fk+"/password", kp, "", "password operand is %v, BIP39 requires the bytes of NFKD(mnemonic)", key.Args[0])
	} else {
		r.OK("F2", fk+"/password", kp, "", "password = []byte(%s)", wantPw)
	}
	// salt
	salt := resolveAt(key.Args[1])
	w1 := "NFKD(\"mnemonic\"+" + raw(sp[1]) + ")"
	w2 := "\"mnemonic\"+NFKD(" + raw(sp[1]) + ")"
	if salt.Str == nil || (salt.Str.String() != w1 && salt.Str.String() != w2) {
		r.Bad("F2", fk+"/salt", kp, "", "salt operand is %v, BIP39 requires \"mnemonic\" followed by NFKD(passphrase)", key.Args[1])
	} else {
		r.OK("F2", fk+"/salt", kp, "", "salt = []byte(%s)", salt.Str)
	}
	chk := func(i int, want int64, what string) {
		iv, _ := key.Args[i].(IntV)
		if c, ok := iv.Const(); !ok || c != want {
			r.Bad("F2", fk+"/"+what, kp, "", "%s is %v, BIP39 requires %d", what, key.Args[i], want)
		} else {
			r.OK("F2", fk+"/"+what, kp, "", "%s = %d", what, want)
		}
	}
	chk(2, 2048, "iterations")
	chk(3, 64, "key-length")
	if f, ok := key.Args[4].(FuncV); !ok || f.Fn.String() != "crypto/sha512.New" {
		r.Bad("F2", fk+"/hash", kp, "", "hash constructor is %v, BIP39 requires crypto/sha512.New", key.Args[4])
	} else {
		r.OK("F2", fk+"/hash", kp, "", "HMAC hash = crypto/sha512.New")
	}
	// the result is returned directly: a fresh slice
	okRet := true
	keyRes, _ := key.Res.(BytesV)
	nRet := 0
	for _, x := range topExits(e, fn) {
		nRet++
		got, isB := BytesV{}, false
		if len(x.Vals) == 1 {
			got, isB = x.Vals[0].(BytesV)
		}
		same := isB && keyRes.Obj != nil && got.Obj == keyRes.Obj && got.WinOf == nil
		if same {
			// nothing wrote to it between the call and the return
			if bc, ok := x.State[keyRes.Obj].(BufC); !ok || bc.B.Src != "pbkdf2.Key" {
				same = false
			}
		}
		if !same && isB && got.Obj != nil && got.Obj != keyRes.Obj && got.WinOf == nil && localMemory(got.Obj) {
			// a copy: memory made during this call (make, a local array) that holds, whole and
			// unchanged, what pbkdf2.Key returned (`var s Seed; copy(s[:], key); return s.Bytes()`)
			if bc, ok := x.State[got.Obj].(BufC); ok && bc.B.Src == "pbkdf2.Key" && bc.B.LenKnown && bc.B.Len.Const() && bc.B.Len.A == 64 && bc.B.WinOf == nil {
				same = true
			}
		}
		if !same {
			okRet = false
			r.Bad("F2r", fk+"/result", a.P.InstrPos(x.Ret), "", "%s returns %v instead of the slice pbkdf2.Key returned, unchanged: not (necessarily) a fresh 64-byte result", fk, x.Vals)
		}
	}
	if nRet == 0 {
		okRet = false
		r.Unk("F2r", fk+"/result", pos, "", "no return of %s was evaluated", fk)
	}
	if okRet {
		r.OK("F2r", fk+"/result", kp, "", "returns the fresh slice from pbkdf2.Key unchanged")
	}
	// nothing else happens to the result or arguments
	for _, c := range e.Calls {
		switch c.Callee {
		case "golang.org/x/crypto/pbkdf2.Key", "(golang.org/x/text/unicode/norm.Form).String", "(golang.org/x/text/unicode/norm.Form).Bytes",
			"(golang.org/x/text/unicode/norm.Form).AppendString", "(golang.org/x/text/unicode/norm.Form).Append", "len", "cap", "append":
		default:
			if a.counterBump(c.Instr) {
				continue // counts the call: nothing reads the counter on this path (E1 class "counter")
			}
			if ci, ok := c.Instr.(ssa.CallInstruction); ok && a.inertCall(ci) {
				continue // a trace region, a profiler label
			}
			if c.Callee == "copy" && len(c.Args) == 2 {
				// into memory made during this call: what is returned is judged by F2r, what the
				// KDF is given by the operands as they stand when it is called
				if d, ok := c.Args[0].(BytesV); ok && d.Obj != nil && localMemory(d.Obj) {
					continue
				}
			}
			r.Bad("F2", fk+"/extra-call", a.P.InstrPos(c.Instr), "", "%s also calls %s: the seed must be a function of the two NFKD forms only", fk, c.Callee)
		}
	}
	// no validation
	callees := a.moduleCallees(fn)
	var impure []string
	for f := range callees {
		if a.isAnchor(f, a.CM) || f == a.IMV || a.touchesPackageState(f) {
			impure = append(impure, fnKey(f))
		}
	}
	sort.Strings(impure)
	if len(impure) > 0 {
		r.Bad("F2", fk+"/no-validation", pos, "", "%s reaches module functions %v that validate or touch package state: the seed must depend on the two arguments only", fk, impure)
	} else {
		r.OK("F2", fk+"/no-validation", pos, "", "reaches %d module helper(s), none of which validates or touches a package-level variable", len(callees))
	}
}

// ---------------------------------------------------------------- F3

// ruleF3: the randomness source.
func (a *Analysis) ruleF3() {
	r := a.R
	fn := a.NM
	if fn == nil {
		return
	}
	fk := fnKey(fn)
	pos := a.P.Pos(fn.Pos())
	// (role) the source: the package-level io.Reader read by NewMnemonic (and its module callees)
	cands := map[*ssa.Global]bool{}
	fns := []*ssa.Function{fn}
	for f := range a.moduleCallees(fn) {
		fns = append(fns, f)
	}
	// the wrappers that forward to fn may be where the source is named
	// (`return newMnemonic(cryptoRander, n, lang)`)
	for _, w := range a.API[fn] {
		if w != fn {
			fns = append(fns, w)
		}
	}
	for _, f := range fns {
		for _, b := range f.Blocks {
			for _, in := range b.Instrs {
				if u, ok := in.(*ssa.UnOp); ok {
					if g := loadedGlobal(u); g != nil && a.P.InModule(g.Pkg) {
						if it, ok := u.Type().Underlying().(*types.Interface); ok && hasMethod(it, "Read") {
							cands[g] = true
						}
					}
				}
			}
		}
	}
	if len(cands) != 1 {
		r.Bad("F3", fk+"/source", pos, "", "expected NewMnemonic to read exactly one package-level io.Reader, found %d", len(cands))
		return
	}
	var R *ssa.Global
	for g := range cands {
		R = g
	}
	a.Source = R
	rp := a.P.Pos(R.Pos())
	// (a) initialiser
	iv := a.G.Init[R]
	if ev, ok := iv.(ExtGlobalV); ok && ev.Name == "crypto/rand.Reader" {
		r.OK("F3a", "source/initialiser", rp, "", "%s is initialised to crypto/rand.Reader", R.Name())
	} else {
		r.Bad("F3a", "source/initialiser", rp, "", "the randomness source %s is initialised to %v, not to crypto/rand.Reader", R.Name(), iv)
	}
	// (b) writers
	// functions that run without the caller asking for a swap: everything reachable from the
	// exported API other than through the writer itself (an exported swap function is fine as
	// long as nothing else of the package calls it)
	writers := map[*ssa.Function]bool{}
	for _, w := range a.Ef.Writes[R] {
		if !w.Test {
			writers[w.Fn] = true
		}
	}
	reach := map[*ssa.Function]bool{}
	for _, en := range a.Exported {
		if writers[en] {
			continue
		}
		reach[en] = true
		for f := range a.moduleCallees(en) {
			reach[f] = true
		}
	}
	for _, f := range a.P.ModuleFuncs(false) {
		if strings.HasPrefix(f.Name(), "init") && f.Parent() == nil && (f.Synthetic != "" || strings.HasPrefix(f.Name(), "init#")) {
			reach[f] = true
			for g := range a.moduleCallees(f) {
				reach[g] = true
			}
		}
	}
	nW := 0
	okB := true
	for _, w := range a.Ef.Writes[R] {
		if w.Test {
			continue
		}
		if w.Synth && w.Kind == "store" {
			continue
		}
		nW++
		wp := a.P.InstrPos(w.Instr)
		st, isStore := w.Instr.(*ssa.Store)
		swap := false
		if isStore && w.Kind == "store" {
			v := st.Val
			for {
				switch x := v.(type) {
				case *ssa.MakeInterface:
					v = x.X
					continue
				case *ssa.ChangeInterface:
					v = x.X
					continue
				}
				break
			}
			isOwnParam := func(v ssa.Value) bool {
				for {
					switch x := v.(type) {
					case *ssa.MakeInterface:
						v = x.X
						continue
					case *ssa.ChangeInterface:
						v = x.X
						continue
					}
					break
				}
				p, ok := v.(*ssa.Parameter)
				return ok && p.Parent() == w.Fn
			}
			isDefault := func(v ssa.Value) bool {
				g := loadedGlobal(v)
				return g != nil && g.Pkg != nil && g.Pkg.Pkg.Path() == "crypto/rand" && g.Name() == "Reader"
			}
			if isOwnParam(v) {
				swap = true
			} else if phi, ok := v.(*ssa.Phi); ok {
				// `if r == nil { r = rand.Reader }`: the parameter or the default
				swap = true
				hasParam := false
				for _, ed := range phi.Edges {
					if isOwnParam(ed) {
						hasParam = true
					} else if !isDefault(ed) {
						swap = false
					}
				}
				swap = swap && hasParam
			}
		}
		switch {
		case !swap:
			r.Bad("F3b", "source/writer/"+fnKey(w.Fn), wp, "", "%s writes the randomness source (%s): only a caller-requested swap of its own parameter is allowed outside tests", fnKey(w.Fn), w.How)
			okB = false
		case reach[w.Fn]:
			r.Bad("F3b", "source/writer/"+fnKey(w.Fn), wp, "", "%s replaces the randomness source and runs during initialisation or inside the public API", fnKey(w.Fn))
			okB = false
		default:
			r.OK("F3b", "source/writer/"+fnKey(w.Fn), wp, "", "explicit swap: %s stores its own parameter and is not reachable from init or the API", fnKey(w.Fn))
			a.SwapStores[w.Instr] = true
		}
	}
	if len(a.Ef.AddrUse[R]) > 0 {
		r.Bad("F3b", "source/address", a.P.InstrPos(a.Ef.AddrUse[R][0]), "", "the address of %s escapes", R.Name())
		okB = false
	}
	if okB {
		r.OK("F3b", "source/writers", rp, "", "no non-test code assigns %s apart from its declaration (%d explicit swap hooks)", R.Name(), nW)
	}
	// (d) the read call, (e) its error handling, and "nothing is read for rejected counts":
	// decided on the abstract evaluation of NewMnemonic (module-local helpers are inlined, so
	// extracting the read into a helper does not matter)
	rdp := pos
	if a.Gate2 != nil {
		lcs := a.langCtxs()
		if len(lcs) == 0 {
			return
		}
		usesR := func(v AV) bool {
			gv, ok := v.(GlobalValV)
			return ok && gv.G == R
		}
		for _, W := range a.Gate2.passed() {
			for _, lc := range lcs {
				W := W
				ctx := a.sizeCtx("W", &W, a.Gate2, lc)
				e := a.eval(fn, ctx)
				var reads []ReadInfo
				for _, ri := range e.Reads {
					if usesR(ri.Reader) {
						reads = append(reads, ri)
					}
				}
				for _, c := range e.Calls {
					if strings.HasPrefix(c.Callee, "invoke:") && usesR(c.Recv) {
						r.Bad("F3d", fk+"/read-call", a.P.InstrPos(c.Instr), ctx.Name, "%s calls %s on the source directly: a single Read may return fewer bytes than requested; use io.ReadFull", fk, strings.TrimPrefix(c.Callee, "invoke:"))
					}
				}
				if len(reads) != 1 {
					r.Bad("F3d", fk+"/read-call", pos, ctx.Name, "expected exactly one io.ReadFull / io.ReadAtLeast on the source per call, found %d", len(reads))
					continue
				}
				ri := reads[0]
				rdp = a.P.InstrPos(ri.Instr)
				switch {
				case !ri.Full:
					r.Bad("F3d", fk+"/read-call", rdp, ctx.Name, "the source is read through %s with a minimum that does not guarantee a completely filled buffer", ri.Callee)
				default:
					r.OK("F3d", fk+"/read-call", rdp, ctx.Name, "%s(%s, buf) fills the buffer completely or fails", ri.Callee, R.Name())
				}
				if !ri.Whole || !ri.Fresh {
					r.Bad("F3c", fk+"/buffer", rdp, ctx.Name, "the read target is not a whole freshly made buffer")
				} else {
					r.OK("F3c", fk+"/buffer", rdp, ctx.Name, "the read fills the whole make([]byte, n) buffer")
				}
				// (e) exits
				okE := true
				okS := true
				for _, x := range delegatedExits(e, fn) {
					if len(x.Vals) != 2 {
						continue
					}
					ev := asErr(x.Vals[1])
					xp := a.P.InstrPos(x.Ret)
					switch {
					case ev.Kind == ekNil:
						// success: F3c below shows the encoder consumed exactly the bytes read, which is only
						// the case on the path where the read is known to have succeeded
					case ev.Kind == ekFrom:
						s, _ := x.Vals[0].(StrV)
						if !ev.NonNil {
							r.Bad("F3e", fk+"/read-error", xp, ctx.Name, "this exit returns the error of %s without having tested it alone: it is reachable whether or not the read failed", ev.From)
							okE = false
						} else if s.Kind != skConst || s.S != "" {
							r.Bad("F3e", fk+"/read-error", xp, ctx.Name, "after a failed read %s returns %v instead of the empty string", fk, x.Vals[0])
							okE = false
						}
					case ev.Kind == ekFresh || ev.Kind == ekSentinel || ev.Kind == ekWrap || (ev.Kind == ekUnknown && ev.NonNil):
						// a failure with an accepted count: only because the read failed
						if lc.Const != nil {
							failed := false
							if o := e.errObj[ri.Instr]; o != nil {
								if c, ok := x.State[o].(CellC); ok {
									if b, ok := c.V.(BoolV); ok && b.Known && !b.Val {
										failed = true
									}
								}
							}
							if !failed {
								r.Bad("G2s", fk+"/fails-only-with-source", xp, ctx.Name, "with an accepted word count %s can return %v although the read of the source succeeded (or before reading it): it must succeed whenever the source delivers", fk, ev)
								okS = false
							}
						}
						s, _ := x.Vals[0].(StrV)
						if s.Kind != skConst || s.S != "" {
							r.Bad("F3e", fk+"/read-error", xp, ctx.Name, "a failure exit returns %v instead of the empty string", x.Vals[0])
							okE = false
						}
					default:
						r.Bad("F3e", fk+"/read-error", xp, ctx.Name, "an exit past the read returns an error that is not certainly nil or non-nil (%v): the outcome of the read does not decide it", ev)
						okE = false
					}
				}
				if okE {
					r.OK("F3e", fk+"/read-error", rdp, ctx.Name, "the read error is tested alone; the failure path returns (\"\", non-nil error)")
				}
				if okS && lc.Const != nil {
					r.OK("G2s", fk+"/fails-only-with-source", rdp, ctx.Name, "every failure exit is on the failed-read edge")
				}
			}
		}
		// nothing touches the source for rejected counts
		okR := true
		var rejCtxs []*Ctx
		for _, lc := range lcs {
			rejCtxs = append(rejCtxs, a.rejectCtxs("W", a.Gate2, lc)...)
		}
		for _, ctx := range rejCtxs {
			e := a.eval(fn, ctx)
			for _, ri := range e.Reads {
				if usesR(ri.Reader) {
					r.Bad("G2r", fk+"/no-read-when-rejected", a.P.InstrPos(ri.Instr), ctx.Name, "the source is read for a word count that is (later) rejected: rejected counts must consume no randomness")
					okR = false
				}
			}
			for _, c := range e.Calls {
				if strings.HasPrefix(c.Callee, "invoke:") && usesR(c.Recv) {
					r.Bad("G2r", fk+"/no-read-when-rejected", a.P.InstrPos(c.Instr), ctx.Name, "the source is used for a word count that is (later) rejected")
					okR = false
				}
			}
		}
		if okR {
			r.OK("G2r", fk+"/no-read-when-rejected", rdp, "", "no rejected word count reaches a read of the source")
		}
	}
	// (c) in every accepted context the encoder sees exactly the bytes read
	if a.Gate2 != nil {
		lcs := a.langCtxs()
		okC := true
		n := 0
		for _, W := range a.Gate2.passed() {
			for _, lc := range lcs {
				W := W
				ctx := a.sizeCtx("W", &W, a.Gate2, lc)
				e := a.eval(fn, ctx)
				for _, c := range e.Calls {
					if c.Callee != "invoke:hash.Write" && c.Callee != "crypto/sha256.Sum256" && c.Callee != "(*math/big.Int).SetBytes" {
						continue
					}
					var b BytesV
					if c.Callee == "(*math/big.Int).SetBytes" {
						b, _ = c.Args[1].(BytesV)
					} else {
						b, _ = c.Args[0].(BytesV)
					}
					if b.Obj != nil {
						if bc, ok := c.State[b.Obj].(BufC); ok {
							if bc.B.Pending != nil {
								bc.B.HasVal, bc.B.Src = false, "⊤: buffer used although the read may have failed"
							}
							b = bc.B
						}
					} else if c.Callee == "(*math/big.Int).SetBytes" {
						continue // not the buffer (e.g. the digest byte)
					}
					n++
					want := "read(val:" + R.Name() + ")"
					if b.HasVal && b.LenKnown && b.Src != want && fromSourceOnly(e, b.Val, 0) && holdsAllOf(b.Val, "E", 8*int64(W/3*4)) {
						// a private buffer made of the bytes read — all of them, in one piece — and
						// of digests of those bytes (ENT ‖ checksum byte): nothing but the source goes
						// in; what is done with it is the layout rules' business (L1n)
						continue
					}
					if !b.HasVal || b.Src != want || !b.LenKnown || !b.Val.Equal(SymL("E", 8*b.Len.A)) {
						r.Bad("F3c", fk+"/encoder-input", a.P.InstrPos(c.Instr), ctx.Name, "the encoder consumes %v, not exactly the bytes delivered by the source", b)
						okC = false
					}
				}
			}
		}
		if okC && n > 0 {
			r.OK("F3c", fk+"/encoder-input", rdp, "", "in every accepted context the encoder's inputs are exactly the bytes read from %s (%d uses)", R.Name(), n)
		} else if n == 0 {
			r.Unk("F3c", fk+"/encoder-input", rdp, "", "no use of the buffer by the encoder was seen")
		}
	}
	// (f) cross-reference
	var weak []string
	for imp := range a.P.RootP.Imports {
		if imp == "math/rand" || imp == "math/rand/v2" || imp == "time" {
			weak = append(weak, imp)
		}
	}
	sort.Strings(weak)
	r.OK("F3f", "imports", "-", "", "cross-reference: non-test files import %v from {math/rand, math/rand/v2, time}", weak)
}

// fromSourceOnly: every symbolic field of l is a piece of the bytes read from the source
// ("E") or of a digest of bytes that are themselves made of such pieces only.
func fromSourceOnly(e *Eval, l Layout, depth int) bool {
	if depth > 3 {
		return false
	}
	for _, f := range l.Norm() {
		switch {
		case f.Sym == "" || f.Sym == "E":
		default:
			d, ok := e.Digests[f.Sym]
			if !ok || len(d.Writes) == 0 {
				return false
			}
			for _, w := range d.Writes {
				if !w.HasVal || !fromSourceOnly(e, w.Val, depth+1) {
					return false
				}
			}
		}
	}
	return true
}

// holdsAllOf: l has one field that is the whole of symbol sym, bits wide (from its bit 0 up).
func holdsAllOf(l Layout, sym string, bits int64) bool {
	for _, f := range l.Norm() {
		if f.Sym == sym && !f.HasIdx && f.W.Const() && f.W.A == bits && f.Lo.Const() && f.Lo.A == 0 {
			return true
		}
	}
	return false
}

func hasMethod(it *types.Interface, name string) bool {
	for i := 0; i < it.NumMethods(); i++ {
		if it.Method(i).Name() == name {
			return true
		}
	}
	return false
}

// ---------------------------------------------------------------- F4

// ruleF4: caller-owned memory is never written; no exported function hands out shared memory.
func (a *Analysis) ruleF4() {
	r := a.R
	n := 0
	for _, fn := range a.Exported {
		for _, p := range fn.Params {
			switch p.Type().Underlying().(type) {
			case *types.Slice, *types.Pointer, *types.Map:
			default:
				continue // strings and scalars are values; interface arguments (a reader handed to a swap function) are the callee's to keep
			}
			n++
			key := fnKey(fn) + "/param/" + p.Name()
			ws, esc, rets := a.Ef.ParamWrites(p)
			for _, w := range ws {
				r.Bad("F4", key, a.P.InstrPos(w.Instr), "", "%s writes memory owned by the caller through parameter %s of %s (%s)", fnKey(w.Fn), p.Name(), fnKey(fn), w.How)
			}
			for _, s := range esc {
				r.Bad("F4", key, a.P.Pos(fn.Pos()), "", "parameter %s of %s: %s", p.Name(), fnKey(fn), s)
			}
			exported := false
			for _, f := range rets {
				if f == fn {
					exported = true
				}
			}
			if exported {
				r.Bad("F4", key, a.P.Pos(fn.Pos()), "", "%s returns memory aliasing its parameter %s", fnKey(fn), p.Name())
			}
			if len(ws) == 0 && len(esc) == 0 && !exported {
				r.OK("F4", key, a.P.Pos(fn.Pos()), "", "parameter %s is only read (hash.Write, big.Int.SetBytes, len, module-local callees)", p.Name())
			}
		}
	}
	// shared memory handed out
	for _, g := range a.G.AllGlobals {
		switch g.Type().(*types.Pointer).Elem().Underlying().(type) {
		case *types.Slice, *types.Map, *types.Pointer:
		default:
			continue // interface values (the error sentinels) are immutable to callers
		}
		for _, f := range a.Ef.Returns[g] {
			isExp := false
			for _, en := range a.Exported {
				if en == f {
					isExp = true
				}
			}
			if isExp {
				r.Bad("F4", "returns-shared/"+fnKey(f), a.P.Pos(f.Pos()), "", "exported %s returns memory reached through package-level variable %s", fnKey(f), g.Name())
			}
		}
	}
	r.OK("F4", "returns-shared", "-", "", "no exported function returns memory reached through a package-level variable")
	r.Counts["F4.params"] = n
}

// ---------------------------------------------------------------- E1

// isDescTable: g is a descriptor table whose uses T3 found to be of the recognised form.
func (a *Analysis) isDescTable(g *ssa.Global) bool {
	for _, dt := range a.descTables {
		if dt.D == g && dt.checked && dt.problem == "" {
			return true
		}
	}
	return false
}

func isOnceArray(t types.Type) bool {
	at, ok := t.Underlying().(*types.Array)
	return ok && isOnce(at.Elem())
}

func isOnce(t types.Type) bool {
	n, ok := t.(*types.Named)
	return ok && n.Obj().Pkg() != nil && n.Obj().Pkg().Path() == "sync" && n.Obj().Name() == "Once"
}

// ruleE1: every package-level variable is initialiser-only, once-built (T3), a guard, or the source.
func (a *Analysis) ruleE1() {
	r := a.R
	builtMap := map[*ssa.Global]bool{}
	for _, m := range a.MapOf {
		builtMap[m] = true
	}
	guards := map[*ssa.Global]int{}
	for _, d := range a.onceDoCalls() {
		if d.Guard != nil {
			guards[d.Guard]++
		}
	}
	classes := map[string]int{}
	for _, g := range a.G.AllGlobals {
		if g.Name() == "_" {
			continue
		}
		et := g.Type().(*types.Pointer).Elem()
		key := "var/" + g.Pkg.Pkg.Name() + "." + g.Name()
		pos := a.P.Pos(g.Pos())
		var ws []Write
		for _, w := range a.Ef.Writes[g] {
			if !w.Test {
				ws = append(ws, w)
			}
		}
		esc := a.Ef.Escapes[g]
		switch {
		case isMutexType(et) && a.mutexDiscipline(g) == "":
			// a lock: it holds no data; used only as `mu.Lock(); defer mu.Unlock()` (or the read
			// pair), never re-acquired by a function called while it is held
			classes["mutex"]++
			r.OK("E1", key, pos, "", "mutex: every Lock/RLock is followed at once by the matching deferred unlock, and nothing called while it is held locks it again")
		case isMutexType(et):
			r.Unk("E1", key, pos, "", "mutex %s: %s", g.Name(), a.mutexDiscipline(g))
		case isCounterType(et) && a.counterDiscipline(g) == "":
			// an event counter: only ever touched through sync/atomic, and read only by an
			// accessor the library itself never calls — no result can depend on it, no race
			classes["counter"]++
			r.OK("E1", key, pos, "", "counter: only sync/atomic Add/Load/Store, read only by accessors that no module code calls")
		case a.G.PoolElem[g] != nil:
			// a typed free list: goroutine-safe by construction, only Get and Put touch it, and
			// what Get yields is treated as holding unknown content (so nothing can come to depend
			// on what an earlier call left there without a rule noticing)
			classes["pool"]++
			r.OK("E1", key, pos, "", "sync.Pool used as a free list of %v: only Get/Put, content unknown on Get", a.G.PoolElem[g])
		case a.isDescTable(g):
			// a table of per-language descriptors (list, pointer to the map variable, Once): what
			// T3 checked — written by its declaration only, the Once fields only receive Do, the
			// map pointers only lead to the guarded construction and to reads after it
			classes["descriptor-table"]++
			r.OK("E1", key, pos, "", "descriptor table: written by its declaration only; its sync.Once fields are only the receivers of Do (T3)")
		case isOnceArray(et):
			// an array of guards: never assigned; every use of its address is &g[k] with a constant
			// k, and that only as the receiver of Do
			bad := false
			for _, w := range ws {
				r.Bad("E1", key, a.P.InstrPos(w.Instr), "", "array of sync.Once %s is written by %s (%s)", g.Name(), fnKey(w.Fn), w.How)
				bad = true
			}
			for _, ld := range a.Ef.Loads[g] {
				if !a.P.IsTestFunc(ld.Parent()) {
					r.Bad("E1", key, a.P.InstrPos(ld), "", "array of sync.Once %s is copied by value", g.Name())
					bad = true
				}
			}
			for _, u := range a.Ef.AddrUse[g] {
				if a.P.IsTestFunc(u.Parent()) {
					continue
				}
				if c, ok := u.(ssa.CallInstruction); ok && calleeName(c) == "(*sync.Once).Do" {
					if eg, _ := onceArrayElem(c.Common().Args[0]); eg == g {
						continue // judged element by element below
					}
				}
				r.Bad("E1", key, a.P.InstrPos(u), "", "the address of the array of sync.Once %s is used other than to take a constant element as the receiver of Do", g.Name())
				bad = true
			}
			n := 0
			for _, fn := range a.P.ModuleFuncs(false) {
				for _, b := range fn.Blocks {
					for _, in := range b.Instrs {
						ia, ok := in.(*ssa.IndexAddr)
						if !ok || ia.X != ssa.Value(g) {
							continue
						}
						if _, k := onceArrayElem(ia); k < 0 {
							r.Unk("E1", key, a.P.InstrPos(ia), "", "an element of the array of sync.Once %s is chosen by an index that is not a constant: which guard runs which construction is not followed", g.Name())
							bad = true
							continue
						}
						for _, ref := range *ia.Referrers() {
							c, ok := ref.(ssa.CallInstruction)
							if _, dbg := ref.(*ssa.DebugRef); dbg {
								continue
							}
							if !ok || calleeName(c) != "(*sync.Once).Do" || c.Common().Args[0] != ssa.Value(ia) {
								r.Bad("E1", key, a.P.InstrPos(ref), "", "an element of the array of sync.Once %s is used other than as the receiver of Do", g.Name())
								bad = true
								continue
							}
							n++
						}
					}
				}
			}
			if !bad {
				classes["guard"] += int(et.Underlying().(*types.Array).Len())
				r.OK("E1", key, pos, "", "array of guards: elements chosen by constants, only ever the receiver of (*sync.Once).Do (%d sites)", n)
			}
		case isOnce(et):
			// a guard: never assigned, address used only as the receiver of Do
			bad := false
			for _, w := range ws {
				r.Bad("E1", key, a.P.InstrPos(w.Instr), "", "sync.Once %s is written by %s", g.Name(), fnKey(w.Fn))
				bad = true
			}
			for _, u := range a.Ef.AddrUse[g] {
				if a.LazyGuard[g] != nil && a.isLazyUse(u, g, true) {
					continue // handed to the lazy-construction helper as its guard (T3)
				}
				c, ok := u.(ssa.CallInstruction)
				if !ok || calleeName(c) != "(*sync.Once).Do" {
					if !a.P.IsTestFunc(u.Parent()) {
						r.Bad("E1", key, a.P.InstrPos(u), "", "the address of sync.Once %s is used other than as the receiver of Do", g.Name())
						bad = true
					}
				}
			}
			if !bad {
				classes["guard"]++
				r.OK("E1", key, pos, "", "guard: only ever the receiver of (*sync.Once).Do (%d sites)", guards[g])
			}
		case builtMap[g]:
			classes["once-built"]++
			r.OK("E1", key, pos, "", "once-built: written only by its builder under its guard (T3)")
		case g == a.Source:
			classes["source"]++
			r.OK("E1", key, pos, "", "randomness source: writers classified by F3b")
		default:
			bad := false
			for _, w := range ws {
				if w.Synth && w.Kind == "store" {
					continue
				}
				who := fnKey(w.Fn)
				if w.UserInit {
					who = "an init() function"
				}
				r.Bad("E1", key, a.P.InstrPos(w.Instr), "", "package-level variable %s is written by %s (%s): shared state must be written only by its own declaration", g.Name(), who, w.How)
				bad = true
			}
			for _, s := range esc {
				r.Unk("E1", key, pos, "", "memory reached through %s leaves the analysed code: %s", g.Name(), s)
				bad = true
			}
			// an object behind an interface- or function-typed variable: the module cannot write its
			// memory directly, but every method call on it may change its state, which all callers share
			if _, isIface := et.Underlying().(*types.Interface); isIface && !isErrorType(et) {
				seenInv := map[ssa.Instruction]bool{}
				for _, c := range a.Ef.Invokes[g] {
					if a.P.IsTestFunc(c.Parent()) || seenInv[c] {
						continue
					}
					seenInv[c] = true
					if _, direct := c.Common().Value.(*ssa.UnOp); direct {
						continue // reported below
					}
					r.Bad("E1", key, a.P.InstrPos(c), "", "%s calls %s on the object held in package-level variable %s (handed down as an argument): a stateful object shared by all calls and goroutines", fnKey(c.Parent()), c.Common().Method.Name(), g.Name())
					bad = true
				}
				for _, ld := range a.Ef.Loads[g] {
					if a.P.IsTestFunc(ld.Parent()) {
						continue
					}
					for _, ref := range *ld.Referrers() {
						if c, ok := ref.(ssa.CallInstruction); ok && c.Common().IsInvoke() && c.Common().Value == ssa.Value(ld) {
							r.Bad("E1", key, a.P.InstrPos(c), "", "%s calls %s on the object held in package-level variable %s: a stateful object shared by all calls and goroutines", fnKey(ld.Parent()), c.Common().Method.Name(), g.Name())
							bad = true
						}
					}
				}
			}
			for _, u := range a.Ef.AddrUse[g] {
				if !a.P.IsTestFunc(u.Parent()) {
					r.Unk("E1", key, a.P.InstrPos(u), "", "the address of %s is taken", g.Name())
					bad = true
				}
			}
			if !bad {
				classes["initialiser-only"]++
				r.OK("E1", key, pos, "", "initialiser-only: %d loads, no writer besides its declaration", len(a.Ef.Loads[g]))
			}
		}
	}
	total := 0
	for k, v := range classes {
		r.Counts["E1."+k] = v
		total += v
	}
	// a map built during package initialisation has no guard variable to classify
	r.Counts["E1.guard"] += a.initBuilt + a.descGuards
	r.Counts["E1.classified"] = total + a.initBuilt + a.descGuards
	// every guard serves exactly one T3 instance
	for g, n := range guards {
		_ = n
		served := 0
		for m, f := range a.OnceFn {
			_ = m
			for _, d := range a.onceDoCalls() {
				if d.Guard == g && d.Fn == f {
					served++
					break
				}
			}
		}
		if a.LazyGuard[g] != nil {
			served++
		}
		if served == 0 {
			r.Unk("E1", "guard-use/"+g.Name(), a.P.Pos(g.Pos()), "", "sync.Once %s does not guard a recognised map construction", g.Name())
		}
	}
}

// ---------------------------------------------------------------- S2 / S3

// ruleS2: every exit of the validator is of a known class and returns what that class must return.
func (a *Analysis) ruleS2() {
	r := a.R
	fn := a.CM
	if fn == nil || a.Gate3 == nil {
		return
	}
	fk := fnKey(fn)
	csSent := a.sentinel("ErrChecksumIncorrect")
	nExit := 0
	// the count gate precedes every lookup (lookups in module functions called from the gate's
	// function are judged by the block of the call)
	gateFn := a.Gate3.Res.Fn
	type lkSite struct {
		lk     *ssa.Lookup
		blocks []*ssa.BasicBlock // blocks of the gate function through which the lookup is reached
		before bool              // not (only) reached through the gate function
	}
	var sites []lkSite
	var walk func(f *ssa.Function, via []*ssa.BasicBlock, inGate bool, depth int, seen map[*ssa.Function]bool)
	walk = func(f *ssa.Function, via []*ssa.BasicBlock, inGate bool, depth int, seen map[*ssa.Function]bool) {
		if depth > 6 || seen[f] {
			return
		}
		seen[f] = true
		defer delete(seen, f)
		for _, b := range f.Blocks {
			for _, in := range b.Instrs {
				if lk, ok := in.(*ssa.Lookup); ok && lk.CommaOk || ok && isMapType(lk.X.Type()) {
					s := lkSite{lk: lk, blocks: via, before: !inGate}
					if f == gateFn {
						s.blocks = []*ssa.BasicBlock{b}
					}
					sites = append(sites, s)
				}
				if c, ok := in.(ssa.CallInstruction); ok {
					if g := c.Common().StaticCallee(); g != nil && a.isModuleFunc(g) && len(g.Blocks) > 0 {
						switch {
						case g == gateFn:
							walk(g, nil, true, depth+1, seen)
						case f == gateFn:
							walk(g, []*ssa.BasicBlock{b}, true, depth+1, seen)
						default:
							walk(g, via, inGate, depth+1, seen)
						}
					}
				}
			}
		}
	}
	walk(fn, nil, fn == gateFn, 0, map[*ssa.Function]bool{})
	// a lookup made outside the gate function is fine where the gate function has already
	// returned a nil error: the call that leads to it, in a caller of the gate function, is
	// dominated by the nil edge of the test of that error
	passed := ZOf(a.Gate3.Accept...).Union(a.Gate3.Extra)
	afterGate := func(lk *ssa.Lookup) bool {
		if gateFn == fn {
			return false
		}
		// blocks (in functions that call the gate function) dominated by its success edge
		ok := map[*ssa.BasicBlock]bool{}
		for f := range a.reachableFrom(fn) {
			for _, c := range callsIn(f) {
				cc, isCall := c.(*ssa.Call)
				if !isCall || cc.Call.StaticCallee() != gateFn {
					continue
				}
				nres := gateFn.Signature.Results().Len()
				var errv ssa.Value = cc
				if nres > 1 {
					errv = nil
					for _, ref := range *cc.Referrers() {
						if ex, ok := ref.(*ssa.Extract); ok && ex.Index == nres-1 {
							errv = ex
						}
					}
				}
				if errv == nil {
					continue
				}
				for _, b := range f.Blocks {
					for _, ce := range (&Eval{P: a.P}).ctrlEdges(b) {
						cv := ce.If.Cond
						hold := ce.Taken
						for {
							u, isNot := cv.(*ssa.UnOp)
							if !isNot || u.Op != token.NOT {
								break
							}
							hold = !hold
							cv = u.X
						}
						bo, isBin := cv.(*ssa.BinOp)
						if !isBin || (bo.Op != token.EQL && bo.Op != token.NEQ) {
							continue
						}
						if !((bo.X == errv && isNilConst(bo.Y)) || (bo.Y == errv && isNilConst(bo.X))) {
							continue
						}
						if (bo.Op == token.EQL) == hold {
							ok[b] = true
						}
					}
				}
			}
		}
		// the lookup's own block, or a call site on the way to it, is such a block
		var reachesVia func(f *ssa.Function, target *ssa.Lookup, depth int) bool
		reachesVia = func(f *ssa.Function, target *ssa.Lookup, depth int) bool {
			if depth > 6 {
				return false
			}
			for _, b := range f.Blocks {
				for _, in := range b.Instrs {
					if in == ssa.Instruction(target) {
						return ok[b]
					}
				}
			}
			return false
		}
		if reachesVia(lk.Parent(), lk, 0) {
			return true
		}
		// call sites, in any caller, of the function containing the lookup (transitively)
		target := lk.Parent()
		seen := map[*ssa.Function]bool{}
		var up func(t *ssa.Function, depth int) bool
		up = func(t *ssa.Function, depth int) bool {
			if depth > 6 || seen[t] {
				return false
			}
			seen[t] = true
			all, any := true, false
			for f := range a.reachableFrom(fn) {
				for _, c := range callsIn(f) {
					if c.Common().StaticCallee() != t {
						continue
					}
					any = true
					if !(ok[c.Block()] || up(f, depth+1)) {
						all = false
					}
				}
			}
			return any && all
		}
		return up(target, 0)
	}
	for _, s := range sites {
		var reach ZSet
		pre := s.before
		if pre && afterGate(s.lk) {
			pre = false
			reach = passed
		}
		for _, b := range s.blocks {
			reach = reach.Union(a.Gate3.Res.Reach[b])
			if a.Gate3.Res.Pre[b] {
				pre = true
			}
		}
		out := reach.MinusFinite(a.Gate3.Spec)
		if pre || !out.Empty() {
			r.Bad("S2a+S2s", fk+"/gate-before-lookup", a.P.InstrPos(s.lk), "", "a word is looked up with a token count outside the BIP39 set (%v)", out)
		} else {
			r.OK("S2a+S2s", fk+"/gate-before-lookup", a.P.InstrPos(s.lk), "", "lookups happen only with an accepted token count")
		}
	}
	seenClass := map[string]bool{}
	unkExits := 0 // exits the classification could not read
	for _, W := range a.Gate3.passed() {
		W := W
		for _, lc := range a.langCtxs() {
			ctx := a.sizeCtx("N", &W, a.Gate3, lc)
			e := a.eval(fn, ctx)
			for _, x := range delegatedExits(e, fn) {
				nExit++
				xp := a.P.InstrPos(x.Ret)
				key := fk + "/exit" + exitLabel(x.Ret)
				ev := asErr(x.Vals[len(x.Vals)-1])
				var first *EdgeCond
				for i := range x.Conds {
					if bv, ok := x.Conds[i].Val.(BoolV); ok && !bv.Known && bv.C != nil && !x.Conds[i].LoopTest {
						first = &x.Conds[i]
						break
					}
				}
				if first == nil {
					// no data-dependent condition controls this exit in this context
					if lc.Const == nil {
						// unsupported language: the nil map makes every lookup fail (condition folded)
						if ev.Kind == ekFresh || ev.Kind == ekUnknown && ev.NonNil || ev.Kind == ekWrap && a.privateFreshErr(ev.G) {
							r.OK("S2e", key, xp, ctx.Name, "unsupported language: every lookup fails, a non-nil error is returned")
							continue
						}
					}
					if ev.Kind == ekNil && checksumExitInLoop(e, fn, csSent) {
						unkExits++
						r.Unk("S2a+S2s", key, xp, ctx.Name, "this exit returns nil after a loop that returns the checksum error from inside: the comparison is made piece by piece, which is not one of the recognised forms")
						continue
					}
					rule := "S2a+S2s"
					if ev.Kind != ekNil {
						rule = "S2e"
						if lc.Const != nil {
							rule = "S2e+S2c"
						}
					}
					r.Bad(rule, key, xp, ctx.Name, "with an accepted token count this exit is taken unconditionally and returns %v", x.Vals)
					continue
				}
				bv := first.Val.(BoolV)
				c := bv.C
				switch c.Kind {
				case "lookupok":
					hit := first.Taken != bv.Neg
					if hit {
						r.Bad("S2a+"+map[bool]string{true: "S2s", false: "S2c"}[ev.Kind == ekNil], key, xp, ctx.Name, "exit taken when a token IS in the list returns %v", x.Vals)
						continue
					}
					seenClass["miss"] = true
					tokNamed := false
					for _, arg := range ev.Args {
						// the very token that was looked up and not found, not some other token
						if s, ok := arg.(StrV); ok && s.Kind == skTok && c.B != nil && s.String() == c.B.String() {
							tokNamed = true
						}
					}
					if ev.Kind == ekFresh || ev.Kind == ekSentinel || ev.Kind == ekWrap || ev.NonNil {
						r.OK("S2a+S2s", key+"/non-nil", xp, ctx.Name, "unknown token ⇒ a non-nil error")
					}
					switch {
					case ev.Kind == ekNil || ev.Kind == ekUnknown && !ev.NonNil:
						r.Bad("S2a+S2s", key, xp, ctx.Name, "a token that is not in the list yields %v: the sentence can be accepted although a word is not in the list", ev)
					case ev.Kind != ekFresh && !(ev.Kind == ekWrap && a.privateFreshErr(ev.G)):
						r.Bad("S2e", key, xp, ctx.Name, "a token that is not in the list yields %v; it must be a non-nil error distinct from both sentinels", ev)
					case !tokNamed:
						r.Bad("S2e", key, xp, ctx.Name, "the error for an unknown token (%v) does not name that token (%v)", ev, c.B)
					default:
						if k, ok := c.B.(StrV); !ok || k.Kind != skTok {
							r.Bad("S2a+S2s+S2c", key, xp, ctx.Name, "the looked-up key %v is not a token of the normalised input", c.B)
						} else {
							r.OK("S2e", key, xp, ctx.Name, "unknown token ⇒ fresh error naming the token (%q)", ev.Format)
						}
					}
				case "bigcmp", "intcmp":
					if !x.AfterLoop {
						r.Bad("S2a+S2s+S2c", key, xp, ctx.Name, "checksum comparison before all tokens were looked up")
						continue
					}
					eq := (c.Op == token.EQL) == (first.Taken != bv.Neg)
					if c.Op != token.EQL && c.Op != token.NEQ {
						unkExits++
						r.Unk("S2a+S2s+S2c", key, xp, ctx.Name, "exit controlled by %v", bv)
						continue
					}
					if eq {
						seenClass["accept"] = true
						// membership: the accept path is only reached when every looked-up token was found
						if lc.Const != nil {
							for _, c := range e.Calls {
								if c.Callee != "lookup" {
									continue
								}
								if k, ok := c.Args[1].(StrV); !ok || k.Kind != skTok {
									continue
								}
								hit, inLoop := e.LoopHits[c.Instr]
								if !inLoop || (hit && e.LoopHitsUnrolled[c.Instr]) {
									// (in a loop evaluated iteration by iteration: no lookup was made after one
									// that had not certainly hit, and the last one, as this exit sees it, hit)
									hit = false
									if o := e.lkObj[c.Instr]; o != nil {
										if cc, ok := x.State[o].(CellC); ok {
											if b, ok := cc.V.(BoolV); ok && b.Known && b.Val {
												hit = true
											}
										}
									}
								}
								if hit {
									r.OK("S2a+S2s", fk+"/membership", a.P.InstrPos(c.Instr), ctx.Name, "validation goes on only on the edge where the token was found in the map")
								} else {
									r.Bad("S2a+S2s", fk+"/membership", a.P.InstrPos(c.Instr), ctx.Name, "a token that is not in the list does not stop the validation: the looked-up index is used on a path where the word was not found (it is then 0, the first word)")
								}
							}
						}
						if ev.Kind == ekNil {
							r.OK("S2a+S2s+S2c", key, xp, ctx.Name, "checksums equal ⇒ nil")
						} else {
							r.Bad("S2a+S2c", key, xp, ctx.Name, "a sentence with a correct checksum yields %v", ev)
						}
					} else {
						seenClass["checksum"] = true
						if (ev.Kind == ekSentinel || ev.Kind == ekWrap) && ev.G == csSent && csSent != nil {
							r.OK("S2e", key, xp, ctx.Name, "checksums differ ⇒ %v", ev)
						} else {
							r.Bad(map[bool]string{true: "S2a+S2s", false: "S2e"}[ev.Kind == ekNil], key, xp, ctx.Name, "a wrong checksum yields %v, which does not match ErrChecksumIncorrect", ev)
						}
					}
				default:
					if ev.Kind == ekNil {
						r.Bad("S2a+S2s", key, xp, ctx.Name, "return nil under %v: acceptance must be decided by the checksum comparison alone", bv)
					} else {
						unkExits++
						r.Unk("S2a+S2c", key, xp, ctx.Name, "exit controlled by %v is none of count-reject, unknown-token, checksum-reject, accept", bv)
					}
				}
			}
		}
	}
	for _, cl := range []string{"miss", "checksum", "accept"} {
		if !seenClass[cl] {
			if unkExits > 0 {
				// some exits could not be classified: the missing class may be among them
				r.Unk(map[bool]string{true: "S2a+S2c", false: "S2e"}[cl == "accept"], fk+"/class/"+cl, a.P.Pos(fn.Pos()), "", "no %s exit was recognised among the exits of CheckMnemonic (%d of them could not be classified)", cl, unkExits)
				continue
			}
			r.Bad(map[bool]string{true: "S2a+S2c", false: "S2e"}[cl == "accept"], fk+"/class/"+cl, a.P.Pos(fn.Pos()), "", "CheckMnemonic has no %s exit", cl)
		}
	}
	r.Counts["S2.exits"] = nExit
}

func isMapType(t types.Type) bool {
	_, ok := t.Underlying().(*types.Map)
	return ok
}

// ruleS3: IsMnemonicValid(m, l) is exactly CheckMnemonic(m, l) == nil.
func (a *Analysis) ruleS3() {
	r := a.R
	fn := a.IMV
	if fn == nil || a.CM == nil {
		return
	}
	fk := fnKey(fn)
	pos := a.P.Pos(fn.Pos())
	// the one call of the validator, with IsMnemonicValid's own arguments
	var call *ssa.Call
	other := ""
	for _, b := range fn.Blocks {
		for _, in := range b.Instrs {
			c, ok := in.(ssa.CallInstruction)
			if !ok {
				continue
			}
			if x, isCall := in.(*ssa.Call); isCall && a.isAnchor(x.Call.StaticCallee(), a.CM) && call == nil {
				call = x
			} else {
				other = "calls " + calleeName(c)
			}
		}
	}
	if call == nil {
		r.Add("S3", fk, pos, "", Violated, "IsMnemonicValid is not `CheckMnemonic(m, lang) == nil`: it does not call CheckMnemonic")
		return
	}
	if other == "" {
		if len(call.Call.Args) != len(fn.Params) {
			other = "arguments are not passed through unchanged"
		}
		for i, p := range fn.Params {
			if i >= len(call.Call.Args) || call.Call.Args[i] != ssa.Value(p) {
				other = "arguments are not passed through unchanged"
			}
		}
	}
	if other != "" {
		r.Add("S3", fk, pos, "", Violated, "IsMnemonicValid is not exactly `CheckMnemonic(m, lang) == nil`: %s", other)
		return
	}
	// interpret the (tiny) function for both outcomes of the call: error nil / non-nil
	nres := call.Call.StaticCallee().Signature.Results().Len()
	run := func(errNil bool) (res bool, why string) {
		env := map[ssa.Value]int{} // 0 false, 1 true, 2 the error of the call, 3 nil
		get := func(v ssa.Value) (int, bool) {
			if c, ok := v.(*ssa.Const); ok {
				if c.Value == nil {
					return 3, true
				}
				if c.Value.Kind() == constant.Bool {
					if constant.BoolVal(c.Value) {
						return 1, true
					}
					return 0, true
				}
				return 0, false
			}
			x, ok := env[v]
			return x, ok
		}
		var prev *ssa.BasicBlock
		b := fn.Blocks[0]
		for steps := 0; steps < 64; steps++ {
			var next *ssa.BasicBlock
			for _, in := range b.Instrs {
				switch x := in.(type) {
				case *ssa.DebugRef:
				case *ssa.Call:
					if x != call {
						return false, "extra call"
					}
					if nres == 1 {
						env[x] = 2
					}
				case *ssa.Extract:
					if x.Tuple != ssa.Value(call) {
						return false, "extract of another tuple"
					}
					if x.Index == nres-1 {
						env[x] = 2
					}
				case *ssa.BinOp:
					l, ok1 := get(x.X)
					rr, ok2 := get(x.Y)
					if !ok1 || !ok2 || (x.Op != token.EQL && x.Op != token.NEQ) {
						return false, "operation " + x.String()
					}
					var eq bool
					switch {
					case (l == 2 && rr == 3) || (l == 3 && rr == 2):
						eq = errNil
					case l <= 1 && rr <= 1:
						eq = l == rr
					default:
						return false, "operation " + x.String()
					}
					if x.Op == token.NEQ {
						eq = !eq
					}
					env[x] = 0
					if eq {
						env[x] = 1
					}
				case *ssa.UnOp:
					v, ok := get(x.X)
					if x.Op != token.NOT || !ok || v > 1 {
						return false, "operation " + x.String()
					}
					env[x] = 1 - v
				case *ssa.Phi:
					found := false
					for i, p := range b.Preds {
						if p == prev {
							v, ok := get(x.Edges[i])
							if !ok {
								return false, "phi of an unknown value"
							}
							env[x] = v
							found = true
						}
					}
					if !found {
						return false, "phi without predecessor"
					}
				case *ssa.If:
					v, ok := get(x.Cond)
					if !ok || v > 1 {
						return false, "branch on " + x.Cond.String()
					}
					next = b.Succs[1-v]
				case *ssa.Jump:
					next = b.Succs[0]
				case *ssa.Return:
					if len(x.Results) != 1 {
						return false, "result count"
					}
					v, ok := get(x.Results[0])
					if !ok || v > 1 {
						return false, "returns " + x.Results[0].String()
					}
					return v == 1, ""
				default:
					return false, fmt.Sprintf("contains %T", in)
				}
			}
			if next == nil {
				return false, "no terminator"
			}
			prev, b = b, next
		}
		return false, "too many steps"
	}
	onNil, why1 := run(true)
	onErr, why2 := run(false)
	switch {
	case why1 != "" || why2 != "":
		r.Unk("S3", fk, pos, "", "cannot reduce IsMnemonicValid to a function of CheckMnemonic's error alone: %s", why1+why2)
	case onNil && !onErr:
		r.OK("S3", fk, pos, "", "returns true exactly when %s(m, lang) returns a nil error, with its own arguments", call.Call.StaticCallee().Name())
	default:
		r.Add("S3", fk, pos, "", Violated, "IsMnemonicValid is not `CheckMnemonic(m, lang) == nil`: it returns %v when the error is nil and %v when it is not", onNil, onErr)
	}
}

// finishE1 copies the E1 obligations into per-use rule names, so that a property depends
// only on the variables its own argument relies on:
//
//	E1enc — variables the encoder evaluations read (lists, masks)
//	E1val — variables the validator evaluations read, plus the lookup maps and their guards
//	E1src — the randomness source
//	E1lst — the word lists and the lookup maps
//	E1str — variables Language.String reads
func (a *Analysis) finishE1() {
	relied := map[string]map[string]bool{"E1enc": {}, "E1val": {}, "E1str": {}, "E1src": {}, "E1lst": {}}
	name := func(g *ssa.Global) string { return "var/" + g.Pkg.Pkg.Name() + "." + g.Name() }
	for key, e := range a.evals {
		var cls string
		switch {
		case hasKey(key, a.API[a.NME]...), hasKey(key, a.API[a.NM]...):
			cls = "E1enc"
		case hasKey(key, a.API[a.CM]...), hasKey(key, a.IMV):
			cls = "E1val"
		case a.Str != nil && strings.HasPrefix(key, fnKey(a.Str)+"|"):
			cls = "E1str"
		default:
			continue
		}
		for g := range e.Relied {
			relied[cls][name(g)] = true
		}
		for g := range e.Touched {
			relied[cls][name(g)] = true
		}
	}
	for _, m := range a.MapOf {
		relied["E1val"][name(m)] = true
		relied["E1lst"][name(m)] = true
		if l := a.MapList[m]; l != nil {
			relied["E1val"][name(l)] = true
		}
	}
	for _, d := range a.onceDoCalls() {
		if d.Guard != nil {
			relied["E1val"][name(d.Guard)] = true
		}
	}
	for g := range a.LazyGuard {
		relied["E1val"][name(g)] = true
	}
	for g := range a.G.Lists {
		relied["E1lst"][name(g)] = true
	}
	if a.Source != nil {
		relied["E1src"][name(a.Source)] = true
	}
	var extra []Obligation
	for _, o := range a.R.Obls {
		if o.Rule != "E1" {
			continue
		}
		for cls, set := range relied {
			if set[o.Key] {
				c := o
				c.Rule = cls
				extra = append(extra, c)
			}
		}
	}
	a.R.Obls = append(a.R.Obls, extra...)
	// T3 consistency: the map consulted for K is the inverse of the list the encoder uses for K
	for _, lc := range a.langCtxs() {
		if lc.Const == nil {
			continue
		}
		m := a.MapOf[lc.Name]
		if m == nil {
			continue
		}
		ml, el := a.MapList[m], a.EncList[lc.Name]
		switch {
		case ml == nil || el == nil:
			a.R.Unk("T3e", "consistent/"+m.Name(), a.P.Pos(m.Pos()), "", "cannot relate the lookup map of %s to the list the encoder uses", lc.Name)
		case ml != el:
			a.R.Bad("T3e", "consistent/"+m.Name(), a.P.Pos(m.Pos()), "", "%s mnemonics are encoded with %s but validated against the inverse of %s", lc.Name, el.Name(), ml.Name())
		default:
			a.R.OK("T3e", "consistent/"+m.Name(), a.P.Pos(m.Pos()), "", "%s: encoder list and validator map both come from %s", lc.Name, el.Name())
		}
	}
}

func isMutexType(t types.Type) bool {
	n, ok := t.(*types.Named)
	return ok && n.Obj().Pkg() != nil && n.Obj().Pkg().Path() == "sync" && (n.Obj().Name() == "Mutex" || n.Obj().Name() == "RWMutex")
}

// isCounterType: an integer that sync/atomic can work on, one of sync/atomic's integer types,
// or a struct or array of those.
func isCounterType(t types.Type) bool {
	if n, ok := t.(*types.Named); ok && n.Obj().Pkg() != nil && n.Obj().Pkg().Path() == "sync/atomic" {
		switch n.Obj().Name() {
		case "Int32", "Int64", "Uint32", "Uint64":
			return true
		}
		return false
	}
	switch u := t.Underlying().(type) {
	case *types.Basic:
		switch u.Kind() {
		case types.Int32, types.Int64, types.Uint32, types.Uint64, types.Uintptr:
			return true
		}
	case *types.Struct:
		if u.NumFields() == 0 {
			return false
		}
		for i := 0; i < u.NumFields(); i++ {
			if !isCounterType(u.Field(i).Type()) {
				return false
			}
		}
		return true
	case *types.Array:
		return isCounterType(u.Elem())
	}
	return false
}

// counterDiscipline checks that the package-level variable g is an event counter that cannot
// influence a result or race: "" if it has a counter type, is never assigned or read directly,
// every use of its address (or of the address of a field or element of it) is the first
// argument of a sync/atomic Add/Load/Store function or the receiver of the Add/Load/Store
// method of a sync/atomic integer, a function that reads it (Load, or the value Add returns)
// has no caller in the module outside tests and is never used as a function value — an
// accessor the library itself never consults — otherwise what is wrong.
func (a *Analysis) counterDiscipline(g *ssa.Global) string {
	if !isCounterType(g.Type().(*types.Pointer).Elem()) {
		return "not a counter type"
	}
	// functions that some non-test module code calls or takes as a value
	if a.calledFns == nil {
		a.calledFns = map[*ssa.Function]bool{}
		for _, fn := range a.P.ModuleFuncs(false) {
			for _, b := range fn.Blocks {
				for _, in := range b.Instrs {
					for _, op := range in.Operands(nil) {
						if f, ok := (*op).(*ssa.Function); ok {
							a.calledFns[f] = true
						}
					}
				}
			}
		}
	}
	var bad string
	var use func(ptr ssa.Value, depth int)
	use = func(ptr ssa.Value, depth int) {
		if ptr.Referrers() == nil && depth > 0 {
			return
		}
		check := func(in ssa.Instruction) {
			if bad != "" || a.P.IsTestFunc(in.Parent()) {
				return
			}
			switch x := in.(type) {
			case *ssa.DebugRef:
			case *ssa.FieldAddr:
				if x.X == ptr && depth < 4 {
					use(x, depth+1)
					return
				}
				bad = "its address is used at " + a.P.InstrPos(in)
			case *ssa.IndexAddr:
				if x.X == ptr && depth < 4 {
					use(x, depth+1)
					return
				}
				bad = "its address is used at " + a.P.InstrPos(in)
			case *ssa.Call:
				name := calleeName(x)
				args := x.Call.Args
				if len(args) == 0 || args[0] != ptr {
					bad = "its address is passed to " + name + " at " + a.P.InstrPos(in)
					return
				}
				for _, other := range args[1:] {
					if other == ptr {
						bad = "its address is passed to " + name + " at " + a.P.InstrPos(in)
						return
					}
				}
				reads := false
				switch {
				case strings.HasPrefix(name, "sync/atomic.Add"), strings.HasPrefix(name, "(*sync/atomic.") && strings.HasSuffix(name, ").Add"):
					if refs := x.Referrers(); refs != nil {
						for _, r := range *refs {
							if _, dbg := r.(*ssa.DebugRef); !dbg {
								reads = true
							}
						}
					}
				case strings.HasPrefix(name, "sync/atomic.Load"), strings.HasPrefix(name, "(*sync/atomic.") && strings.HasSuffix(name, ").Load"):
					reads = true
				case strings.HasPrefix(name, "sync/atomic.Store"), strings.HasPrefix(name, "(*sync/atomic.") && strings.HasSuffix(name, ").Store"):
				default:
					bad = "it is handed to " + name + " at " + a.P.InstrPos(in)
					return
				}
				if reads {
					f := in.Parent()
					api := false
					for _, name := range []string{"NewMnemonicByEntropy", "NewMnemonic", "CheckMnemonic", "IsMnemonicValid", "MnemonicToSeed"} {
						if f == a.P.Root.Func(name) {
							api = true
						}
					}
					if f == a.Str || (f.Signature.Recv() != nil && f.Name() == "String") {
						api = true
					}
					if f.Parent() != nil || a.calledFns[f] || api {
						bad = "its value is read in " + fnKey(f) + " (" + a.P.InstrPos(in) + "), which is part of the API the properties speak of, or which the library itself calls or passes around"
					}
				}
			default:
				bad = "it is used directly at " + a.P.InstrPos(in)
			}
		}
		if depth == 0 {
			for _, fn := range a.P.ModuleFuncs(false) {
				for _, b := range fn.Blocks {
					for _, in := range b.Instrs {
						for _, op := range in.Operands(nil) {
							if *op == ptr {
								check(in)
							}
						}
					}
				}
			}
			return
		}
		for _, r := range *ptr.Referrers() {
			check(r)
		}
	}
	use(g, 0)
	return bad
}

// isCounter: g is an event counter in the sense of counterDiscipline (cached).
func (a *Analysis) isCounter(g *ssa.Global) bool {
	if a.counters == nil {
		a.counters = map[*ssa.Global]bool{}
	}
	v, done := a.counters[g]
	if !done {
		v = isCounterType(g.Type().(*types.Pointer).Elem()) && a.counterDiscipline(g) == ""
		a.counters[g] = v
	}
	return v
}

// counterRoot: the package-level variable ptr points into (itself, or through field and
// element addresses).
func counterRoot(ptr ssa.Value) *ssa.Global {
	for i := 0; i < 6; i++ {
		switch x := ptr.(type) {
		case *ssa.Global:
			return x
		case *ssa.FieldAddr:
			ptr = x.X
		case *ssa.IndexAddr:
			ptr = x.X
		default:
			return nil
		}
	}
	return nil
}

// counterBump: in is a sync/atomic call whose first argument points into an event counter.
func (a *Analysis) counterBump(in ssa.Instruction) bool {
	c, ok := in.(*ssa.Call)
	if !ok || len(c.Call.Args) == 0 {
		return false
	}
	name := calleeName(c)
	if !strings.HasPrefix(name, "sync/atomic.") && !strings.HasPrefix(name, "(*sync/atomic.") {
		return false
	}
	g := counterRoot(c.Call.Args[0])
	return g != nil && g.Pkg != nil && a.P.InModule(g.Pkg) && a.isCounter(g)
}

// mutexDiscipline checks how the package-level mutex g is used; "" if every use is
// `g.Lock(); defer g.Unlock()` (or RLock/RUnlock) with the defer right after the lock in the
// same block, the variable is never assigned or copied, and no module function reachable
// from a function that locks g locks g itself (self-deadlock); otherwise what is wrong.
func (a *Analysis) mutexDiscipline(g *ssa.Global) string {
	for _, w := range a.Ef.Writes[g] {
		if !w.Test {
			return "it is assigned (" + a.P.InstrPos(w.Instr) + ")"
		}
	}
	if len(a.Ef.Loads[g]) > 0 {
		for _, ld := range a.Ef.Loads[g] {
			if !a.P.IsTestFunc(ld.Parent()) {
				return "it is copied by value (" + a.P.InstrPos(ld) + ")"
			}
		}
	}
	lockers := map[*ssa.Function]bool{}
	for _, u := range a.Ef.AddrUse[g] {
		if a.P.IsTestFunc(u.Parent()) {
			continue
		}
		var cc *ssa.CallCommon
		_, isDefer := u.(*ssa.Defer)
		if c, ok := u.(ssa.CallInstruction); ok {
			cc = c.Common()
		}
		if cc == nil || len(cc.Args) != 1 || cc.Args[0] != ssa.Value(g) || cc.StaticCallee() == nil {
			return "its address is used other than as the receiver of a lock method (" + a.P.InstrPos(u) + ")"
		}
		m := cc.StaticCallee().Name()
		switch m {
		case "Lock", "RLock":
			if isDefer {
				return "a lock is taken in a defer (" + a.P.InstrPos(u) + ")"
			}
			// the next instruction in the block must be the deferred matching unlock
			want := "Unlock"
			if m == "RLock" {
				want = "RUnlock"
			}
			blk := u.Block()
			okPair := false
			for i, in := range blk.Instrs {
				if in != u {
					continue
				}
				for _, nx := range blk.Instrs[i+1:] {
					if _, dbg := nx.(*ssa.DebugRef); dbg {
						continue
					}
					if d, ok := nx.(*ssa.Defer); ok && d.Call.StaticCallee() != nil && d.Call.StaticCallee().Name() == want && len(d.Call.Args) == 1 && d.Call.Args[0] == ssa.Value(g) {
						okPair = true
					}
					break
				}
			}
			if !okPair {
				return m + " is not followed at once by `defer " + g.Name() + "." + want + "()` (" + a.P.InstrPos(u) + ")"
			}
			fn := u.Parent()
			for fn.Parent() != nil {
				fn = fn.Parent()
			}
			lockers[u.Parent()] = true
		case "Unlock", "RUnlock":
			if !isDefer {
				return "an unlock that is not deferred (" + a.P.InstrPos(u) + ")"
			}
		default:
			return "method " + m + " is called on it (" + a.P.InstrPos(u) + ")"
		}
	}
	// nothing called from a locking function locks the same mutex
	for fn := range lockers {
		for callee := range a.reachableFrom(fn) {
			if callee != fn && lockers[callee] {
				return fnKey(fn) + " holds it while calling " + fnKey(callee) + ", which locks it again"
			}
		}
		for _, c := range callsIn(fn) {
			if callee := c.Common().StaticCallee(); callee == fn {
				return fnKey(fn) + " calls itself while holding it"
			}
		}
	}
	return ""
}

func hasKey(key string, fns ...*ssa.Function) bool {
	for _, f := range fns {
		if f != nil && strings.HasPrefix(key, fnKey(f)+"|") {
			return true
		}
	}
	return false
}

// touchesPackageState: the function itself loads, stores or takes the address of a module global.
func (a *Analysis) touchesPackageState(f *ssa.Function) bool {
	for _, b := range f.Blocks {
		for _, in := range b.Instrs {
			for _, op := range in.Operands(nil) {
				if g, ok := (*op).(*ssa.Global); ok && g.Pkg != nil && a.P.InModule(g.Pkg) {
					if a.isCounter(g) {
						continue // an event counter: nothing can depend on it (E1 class "counter")
					}
					return true
				}
			}
		}
	}
	return false
}

// touchesPackageStateExceptLoads: the function uses a module global other than by loading its value.
func (a *Analysis) touchesPackageStateExceptLoads(f *ssa.Function) bool {
	for _, b := range f.Blocks {
		for _, in := range b.Instrs {
			if u, ok := in.(*ssa.UnOp); ok && u.Op == token.MUL {
				if _, isG := u.X.(*ssa.Global); isG {
					continue
				}
			}
			for _, op := range in.Operands(nil) {
				if g, ok := (*op).(*ssa.Global); ok && g.Pkg != nil && a.P.InModule(g.Pkg) {
					if a.isCounter(g) {
						continue // an event counter: nothing can depend on it (E1 class "counter")
					}
					return true
				}
			}
		}
	}
	return false
}
