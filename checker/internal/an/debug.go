package an

import (
	"crypto/sha256"
	"encoding/hex"
	"fmt"
	"go/types"
)

func debugDump(repo, fn string) int {
	p, err := Load(repo, Config{GOOS: "linux", GOARCH: "amd64"})
	if err != nil {
		fmt.Println("load:", err)
		return 1
	}
	fmt.Printf("loaded %s: %d files, %d funcs, %d instrs, unanalysed %v\n", p.ModPath, len(p.Files), p.NumFuncs, p.NumInstrs, p.Unanalysed)
	g := BuildGlobals(p)
	fmt.Printf("language constants: %v\nlists: %d vecs: %d init: %d\n", g.LangConst, len(g.Lists), len(g.Vecs), len(g.Init))
	for gl, v := range g.Init {
		fmt.Printf("  init %s = %v", gl.Name(), v)
		if pv, ok := v.(PtrV); ok && pv.O != nil {
			fmt.Printf("  -> %v", g.Objs[pv.O])
		}
		fmt.Println()
	}
	for _, ev := range g.InitEvents {
		fmt.Printf("  init event %s %s %s\n", ev.Rule, ev.Status, ev.Msg)
	}
	for _, gl := range g.AllGlobals {
		if _, ok := gl.Type().Underlying().(*types.Pointer).Elem().Underlying().(*types.Map); ok {
			g.MapBits[gl] = 11
		}
	}
	if fn == "digests" {
		for _, gl := range g.ListOrder {
			fmt.Printf("%s %d %s\n", gl.Name(), len(g.Lists[gl].Elems), listDigest(g.Lists[gl].Elems))
		}
		return 0
	}
	f := p.Root.Func(fn)
	if f == nil {
		for _, pk := range p.Pkgs {
			if sp := p.SSA.Package(pk.Types); sp != nil && sp.Func(fn) != nil {
				f = sp.Func(fn)
			}
		}
	}
	if f == nil {
		fmt.Println("no such function")
		return 1
	}
	l16, w12, k2 := int64(16), int64(12), CInt(2)
	l32, w24, k5 := int64(32), int64(24), CInt(5)
	for _, ctx := range []*Ctx{{Name: "L16/W12/K2", EntLen: &l16, WordCount: &w12, TokCount: &w12, Lang: &k2}, {Name: "L32/W24/K5", EntLen: &l32, WordCount: &w24, TokCount: &w24, Lang: &k5}} {
		if fn == "fromEntropy" {
			// the word-count parameter is an int too
		}
		e := NewEval(p, g, ctx)
		res, st := e.Run(f)
		fmt.Printf("==== %s ctx=%s: %d instrs\n", fn, ctx.Name, e.Instrs)
		fmt.Printf("result: %v\n", res)
		for o, c := range st {
			fmt.Printf("  obj%d (%s) = %v\n", o.ID, o.Note, c)
		}
		for _, l := range e.Loops {
			fmt.Printf("loop in %s header %d: T=%d iv=%s passes=%d %v\n", l.Fn.Name(), l.Header.Index, l.T, l.IV, l.Passes, l.Recs)
		}
		for _, x := range e.Exits {
			fmt.Printf("exit %s block %d depth %d inloop=%v afterloop=%v: %v\n", x.Fn.Name(), x.Ret.Block().Index, x.Depth, x.InLoop, x.AfterLoop, x.Vals)
			for _, c := range x.Conds {
				fmt.Printf("     under %v = %v\n", c.Val, c.Taken)
			}
		}
		for _, ev := range e.Events {
			if ev.Status != Discharged {
				fmt.Printf("EVENT %s %s %s: %s\n", ev.Rule, ev.Status, p.InstrPos(ev.Instr), ev.Msg)
			}
		}
		n := 0
		for _, ev := range e.Events {
			if ev.Status == Discharged {
				n++
			}
		}
		fmt.Printf("%d discharged events, %d calls\n", n, len(e.Calls))
		for _, c := range e.Calls {
			fmt.Printf("  call %s(%v) -> %v\n", c.Callee, c.Args, c.Res)
		}
	}
	return 0
}

func listDigest(words []string) string {
	h := sha256.New()
	for _, w := range words {
		h.Write([]byte(w))
		h.Write([]byte("\n"))
	}
	return hex.EncodeToString(h.Sum(nil))
}
