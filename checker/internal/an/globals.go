package an

import (
	"go/ast"
	"go/constant"
	"go/token"
	"go/types"
	"sort"

	"golang.org/x/tools/go/packages"
	"golang.org/x/tools/go/ssa"
)

// LangConst is one constant of the Language type.
type LangConst struct {
	Name string
	Val  int64
	Pos  token.Pos
}

// Globals holds what the analysis knows about package-level state of the module:
// the Language type and its constants, word lists read from the syntax tree, and
// the abstract values the package initialisers assign.
type Globals struct {
	P          *Program
	LangType   *types.Named
	LangConst  []LangConst
	LangOther  []LangConst            // unexported constants of the type (counts, bounds)
	Lists      map[*ssa.Global]*ListV // []string globals with a literal of constants
	ListOrder  []*ssa.Global
	Vecs       map[*ssa.Global]*VecV       // arrays/slices of constant integers
	Init       map[*ssa.Global]AV          // value stored by the synthetic initialiser
	Objs       State                       // contents of objects created by initialisers
	MapBits    map[*ssa.Global]int64       // set by T3: lookup map -> width of its values
	PoolElem   map[*ssa.Global]types.Type  // sync.Pool variables used as typed free lists: the *T they hold
	SentAlias  map[*ssa.Global]*ssa.Global // inner error variable → the exported sentinel declared from it (sentinelAliases)
	SeamOK     map[*ssa.Global]bool        // function-valued variables assigned only by their declaration, address never taken
	MapNonNil  map[*ssa.Global]bool        // set by T3: every read of the map variable comes after its construction (a fresh make): never nil
	InitNotes  []string
	InitEvents []Event
	AllGlobals []*ssa.Global // globals of root + wordlist, sorted by name
}

// BuildGlobals reads the tables and abstractly evaluates the synthetic initialisers.
func BuildGlobals(p *Program) *Globals {
	g := &Globals{P: p, Lists: map[*ssa.Global]*ListV{}, Vecs: map[*ssa.Global]*VecV{}, Init: map[*ssa.Global]AV{}, Objs: State{}, MapBits: map[*ssa.Global]int64{}}
	// Language type and constants
	if obj := p.Root.Pkg.Scope().Lookup("Language"); obj != nil {
		if tn, ok := obj.(*types.TypeName); ok {
			if n, ok := tn.Type().(*types.Named); ok {
				g.LangType = n
			}
		}
	}
	if g.LangType != nil {
		sc := p.Root.Pkg.Scope()
		for _, name := range sc.Names() {
			if c, ok := sc.Lookup(name).(*types.Const); ok && types.Identical(c.Type(), g.LangType) {
				if v, ok := constant.Int64Val(c.Val()); ok {
					if !c.Exported() {
						// not a language a caller can name (a count or bound kept next to the
						// ten, `numLanguages`): no property quantifies over it
						g.LangOther = append(g.LangOther, LangConst{name, v, c.Pos()})
						continue
					}
					g.LangConst = append(g.LangConst, LangConst{name, v, c.Pos()})
				}
			}
		}
		sort.Slice(g.LangConst, func(i, j int) bool { return g.LangConst[i].Val < g.LangConst[j].Val })
	}
	// literal tables from the syntax tree
	for _, pk := range []*packages.Package{p.RootP, p.WordP} {
		if pk == nil {
			continue
		}
		sp := p.SSA.Package(pk.Types)
		for _, f := range pk.Syntax {
			for _, d := range f.Decls {
				gd, ok := d.(*ast.GenDecl)
				if !ok || gd.Tok != token.VAR {
					continue
				}
				for _, s := range gd.Specs {
					vs := s.(*ast.ValueSpec)
					if len(vs.Values) != len(vs.Names) {
						continue
					}
					for i, nm := range vs.Names {
						gl, _ := sp.Members[nm.Name].(*ssa.Global)
						if gl == nil {
							continue
						}
						cl, ok := ast.Unparen(vs.Values[i]).(*ast.CompositeLit)
						if !ok {
							continue
						}
						g.readLiteral(pk, gl, cl)
					}
				}
			}
		}
	}
	libs := []*ssa.Package{p.Root, p.Words}
	for _, pk := range p.Pkgs {
		// the module's other library packages (a table or a sentinel kept in an internal package)
		if sp := p.SSA.Package(pk.Types); sp != nil && sp != p.Root && sp != p.Words && sp != p.Gen && pk.Types.Name() != "main" && p.InModule(sp) {
			libs = append(libs, sp)
		}
	}
	for _, sp := range libs {
		if sp == nil {
			continue
		}
		for _, m := range sp.Members {
			if gl, ok := m.(*ssa.Global); ok && gl.Name() != "init$guard" {
				g.AllGlobals = append(g.AllGlobals, gl)
			}
		}
	}
	sort.Slice(g.AllGlobals, func(i, j int) bool {
		a, b := g.AllGlobals[i], g.AllGlobals[j]
		if a.Pkg != b.Pkg {
			return a.Pkg.Pkg.Path() < b.Pkg.Pkg.Path()
		}
		return a.Name() < b.Name()
	})
	// the initialisers of the module's other library packages (a table or a sentinel kept in an
	// internal package), in import order as go/packages lists them; the word-list package is
	// read from its literals above and the generator comes last
	nOther := 0
	for _, pk := range p.Pkgs {
		sp := p.SSA.Package(pk.Types)
		if sp == nil || sp == p.Root || sp == p.Words || sp == p.Gen || pk.Types.Name() == "main" || !p.InModule(sp) {
			continue
		}
		init := sp.Func("init")
		if init == nil {
			continue
		}
		nOther++
		e := NewEval(p, g, &Ctx{Name: "init(" + pk.Types.Name() + ")"})
		e.initMode = true
		e.objs = 10000 + 500*nOther
		e.Run(init)
		for k, v := range e.GlobalInit {
			if k.Pkg == sp {
				if _, done := g.Init[k]; !done {
					g.Init[k] = v
				}
			}
		}
		for k, v := range e.GlobalObj {
			if _, done := g.Objs[k]; !done {
				g.Objs[k] = v
			}
		}
	}
	// abstract evaluation of the root package's synthetic initialiser
	if init := p.Root.Func("init"); init != nil {
		e := NewEval(p, g, &Ctx{Name: "init"})
		e.initMode = true
		e.objs = 1000
		e.Run(init)
		for k, v := range e.GlobalInit {
			g.Init[k] = v
		}
		for k, v := range e.GlobalObj {
			g.Objs[k] = v
		}
		g.InitNotes = e.Notes
		g.InitEvents = e.Events
	}
	// the generator's initialiser, for the values of its own package variables (command-line
	// options and their defaults); its events are of no interest to the library rules
	if p.Gen != nil {
		if init := p.Gen.Func("init"); init != nil {
			e := NewEval(p, g, &Ctx{Name: "init(generator)"})
			e.initMode = true
			e.objs = 5000
			e.Run(init)
			for k, v := range e.GlobalInit {
				if k.Pkg == p.Gen {
					if _, done := g.Init[k]; !done {
						g.Init[k] = v
					}
				}
			}
			for k, v := range e.GlobalObj {
				if _, done := g.Objs[k]; !done {
					g.Objs[k] = v
				}
			}
		}
	}
	return g
}

func (g *Globals) readLiteral(pk *packages.Package, gl *ssa.Global, cl *ast.CompositeLit) {
	t := pk.TypesInfo.TypeOf(cl)
	if t == nil {
		return
	}
	var elem types.Type
	switch u := t.Underlying().(type) {
	case *types.Slice:
		elem = u.Elem()
	case *types.Array:
		elem = u.Elem()
	default:
		return
	}
	b, ok := elem.Underlying().(*types.Basic)
	if !ok {
		return
	}
	var strs []string
	var ints []AV
	for _, el := range cl.Elts {
		if _, isKV := el.(*ast.KeyValueExpr); isKV {
			return
		}
		tv, ok := pk.TypesInfo.Types[el]
		if !ok || tv.Value == nil {
			return
		}
		switch {
		case b.Info()&types.IsString != 0 && tv.Value.Kind() == constant.String:
			strs = append(strs, constant.StringVal(tv.Value))
		case b.Info()&types.IsInteger != 0 && tv.Value.Kind() == constant.Int:
			n, ok := constant.Int64Val(tv.Value)
			if !ok {
				return
			}
			ints = append(ints, CInt(n))
		default:
			return
		}
	}
	if b.Info()&types.IsString != 0 {
		g.Lists[gl] = &ListV{G: gl, Elems: strs}
		g.ListOrder = append(g.ListOrder, gl)
	} else if b.Info()&types.IsInteger != 0 {
		g.Vecs[gl] = &VecV{Elems: ints}
	}
}

func (g *Globals) vecOf(e *Eval, gl *ssa.Global) *VecV {
	if v := g.Vecs[gl]; v != nil {
		e.Relied[gl] = true
		return v
	}
	if v, ok := g.Init[gl].(VecV); ok {
		// an array built element by element in its declaration (e.g. an array of word lists)
		for _, el := range v.Elems {
			if el == nil {
				return nil
			}
		}
		e.Relied[gl] = true
		return &v
	}
	return nil
}

// vecComplete: every element (and every field of an element) has a value.
func vecComplete(v VecV) bool {
	for _, el := range v.Elems {
		if el == nil {
			return false
		}
		if sv, ok := el.(VecV); ok && !vecComplete(sv) {
			return false
		}
	}
	return true
}

func (g *Globals) mapValueBits(gl *ssa.Global) int64 { return g.MapBits[gl] }

// load gives the abstract value of reading module global gl.
func (g *Globals) load(e *Eval, gl *ssa.Global, t types.Type) AV {
	if l := g.Lists[gl]; l != nil {
		e.Relied[gl] = true
		return l
	}
	if v := g.Vecs[gl]; v != nil {
		e.Relied[gl] = true
		return *v
	}
	if isErrorType(t) {
		if r := g.SentAlias[gl]; r != nil {
			return ErrV{Kind: ekSentinel, G: r}
		}
		return ErrV{Kind: ekSentinel, G: gl}
	}
	switch u := t.Underlying().(type) {
	case *types.Map:
		if cm, ok := g.Init[gl].(CMapV); ok {
			if mc, ok := g.Objs[cm.O].(MapC); ok && mc.Top == "" {
				e.Relied[gl] = true
				return cm
			}
		}
		return MapV{G: gl}
	case *types.Pointer:
		if isBigInt(u.Elem()) {
			if iv, ok := g.Init[gl]; ok {
				e.Relied[gl] = true
				return iv
			}
		}
		if pv, ok := g.Init[gl].(PtrV); ok && pv.Ext != nil {
			// a pointer to a value the program only reads (a command-line option and its default)
			e.Relied[gl] = true
			return pv
		}
	case *types.Signature:
		// a function-valued variable (a seam for tests): the function its declaration assigns;
		// that nothing else assigns it is what E1 checks for every variable relied upon
		if fv, ok := g.Init[gl].(FuncV); ok && fv.Fn != nil && g.SeamOK[gl] {
			e.Relied[gl] = true
			return fv
		}
	case *types.Interface:
		return GlobalValV{G: gl}
	case *types.Array, *types.Struct:
		// the whole value of a table its declaration builds (`for _, row := range table`)
		if v, ok := g.Init[gl].(VecV); ok && vecComplete(v) {
			e.Relied[gl] = true
			return v
		}
	case *types.Basic:
		if iv, ok := g.Init[gl]; ok {
			e.Relied[gl] = true
			return iv
		}
	}
	if e.Touched != nil {
		e.Touched[gl] = true
	}
	return TopV{"global " + gl.Name()}
}
