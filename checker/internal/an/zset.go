package an

import (
	"fmt"
	"math"
	"sort"
	"strings"
)

// ZSet is an exact set of integers: a finite union of cells
// { v | lo <= v <= hi, v ≡ r (mod m) }.  The bounds are always finite because the
// subject is a machine integer of the configured width.
type ZSet struct{ cells []zcell }

type zcell struct {
	lo, hi int64
	m, r   int64 // m >= 1, 0 <= r < m (mathematical residue)
}

func mathMod(v, m int64) int64 {
	x := v % m
	if x < 0 {
		x += m
	}
	return x
}

// firstGE returns the least v >= lo with v ≡ r (mod m); ok=false on overflow
func firstGE(lo, m, r int64) (int64, bool) {
	d := mathMod(r-mathMod(lo, m), m)
	if lo > math.MaxInt64-d {
		return 0, false
	}
	return lo + d, true
}
func lastLE(hi, m, r int64) (int64, bool) {
	d := mathMod(mathMod(hi, m)-r, m)
	if hi < math.MinInt64+d {
		return 0, false
	}
	return hi - d, true
}

func (c zcell) norm() (zcell, bool) {
	if c.lo > c.hi {
		return c, false
	}
	lo, ok1 := firstGE(c.lo, c.m, c.r)
	hi, ok2 := lastLE(c.hi, c.m, c.r)
	if !ok1 || !ok2 || lo > hi {
		return c, false
	}
	c.lo, c.hi = lo, hi
	if lo == hi {
		c.m, c.r = 1, 0
	}
	return c, true
}

// ZRange is the set [lo,hi].
func ZRange(lo, hi int64) ZSet {
	if lo > hi {
		return ZSet{}
	}
	return ZSet{[]zcell{{lo, hi, 1, 0}}}
}

// ZOf is the finite set of the given values.
func ZOf(vs ...int64) ZSet {
	var z ZSet
	for _, v := range vs {
		z.cells = append(z.cells, zcell{v, v, 1, 0})
	}
	return z.simplify()
}

func (z ZSet) Empty() bool { return len(z.cells) == 0 }

func (z ZSet) simplify() ZSet {
	var out []zcell
	for _, c := range z.cells {
		if n, ok := c.norm(); ok {
			out = append(out, n)
		}
	}
	sort.Slice(out, func(i, j int) bool {
		a, b := out[i], out[j]
		if a.lo != b.lo {
			return a.lo < b.lo
		}
		if a.hi != b.hi {
			return a.hi < b.hi
		}
		if a.m != b.m {
			return a.m < b.m
		}
		return a.r < b.r
	})
	// drop duplicates and cells contained in an m=1 cell; merge adjacent m=1 cells
	var res []zcell
	for _, c := range out {
		if len(res) > 0 {
			l := &res[len(res)-1]
			if *l == c {
				continue
			}
			if l.m == 1 && c.lo >= l.lo && c.hi <= l.hi {
				continue
			}
			if l.m == 1 && c.m == 1 && l.hi != math.MaxInt64 && c.lo <= l.hi+1 {
				if c.hi > l.hi {
					l.hi = c.hi
				}
				continue
			}
		}
		res = append(res, c)
	}
	return ZSet{res}
}

// Union is exact.
func (z ZSet) Union(o ZSet) ZSet {
	return ZSet{append(append([]zcell{}, z.cells...), o.cells...)}.simplify()
}

// clip intersects with [lo,hi].
func (z ZSet) clip(lo, hi int64) ZSet {
	var out []zcell
	for _, c := range z.cells {
		if c.lo < lo {
			c.lo = lo
		}
		if c.hi > hi {
			c.hi = hi
		}
		out = append(out, c)
	}
	return ZSet{out}.simplify()
}

func gcd(a, b int64) int64 {
	for b != 0 {
		a, b = b, a%b
	}
	if a < 0 {
		return -a
	}
	return a
}

// residue intersects with { v ≡ r (mod m) } (mathematical congruence).
func (z ZSet) residue(m, r int64) ZSet {
	var out []zcell
	for _, c := range z.cells {
		g := gcd(c.m, m)
		if mathMod(c.r-r, g) != 0 {
			continue
		}
		l := c.m / g * m
		if l > 1<<20 || l <= 0 {
			// give up exactness: keep the cell (over-approximation is what callers need)
			out = append(out, c)
			continue
		}
		// find the common residue by stepping (l/c.m <= m steps)
		found := false
		for x := c.r; x < l; x += c.m {
			if mathMod(x, m) == r {
				out = append(out, zcell{c.lo, c.hi, l, x})
				found = true
				break
			}
		}
		_ = found
	}
	return ZSet{out}.simplify()
}

// Contains reports membership.
func (z ZSet) Contains(v int64) bool {
	for _, c := range z.cells {
		if v >= c.lo && v <= c.hi && mathMod(v, c.m) == c.r {
			return true
		}
	}
	return false
}

// Card returns the number of elements, capped at limit+1.
func (z ZSet) Card(limit int64) int64 {
	vs, ok := z.Enumerate(limit)
	if !ok {
		return limit + 1
	}
	return int64(len(vs))
}

// Enumerate lists the elements if there are at most limit of them.
func (z ZSet) Enumerate(limit int64) ([]int64, bool) {
	seen := map[int64]bool{}
	var out []int64
	for _, c := range z.cells {
		n := (c.hi-c.lo)/c.m + 1
		if c.hi-c.lo < 0 || n > limit || n <= 0 {
			return nil, false
		}
		for v := c.lo; ; v += c.m {
			if !seen[v] {
				seen[v] = true
				out = append(out, v)
			}
			if v > c.hi-c.m {
				break
			}
		}
		if int64(len(out)) > limit {
			return nil, false
		}
	}
	sort.Slice(out, func(i, j int) bool { return out[i] < out[j] })
	return out, true
}

// MinusFinite removes the listed values.
func (z ZSet) MinusFinite(vs []int64) ZSet {
	cur := z
	for _, v := range vs {
		if !cur.Contains(v) {
			continue
		}
		var out []zcell
		for _, c := range cur.cells {
			if v < c.lo || v > c.hi || mathMod(v, c.m) != c.r {
				out = append(out, c)
				continue
			}
			if v > math.MinInt64 {
				out = append(out, zcell{c.lo, v - 1, c.m, c.r})
			}
			if v < math.MaxInt64 {
				out = append(out, zcell{v + 1, c.hi, c.m, c.r})
			}
		}
		cur = ZSet{out}.simplify()
	}
	return cur
}

// IntersectFinite keeps only the listed values.
func (z ZSet) IntersectFinite(vs []int64) ZSet {
	var keep []int64
	for _, v := range vs {
		if z.Contains(v) {
			keep = append(keep, v)
		}
	}
	return ZOf(keep...)
}

// Describe renders the set; small finite sets are listed, others shown as cells with a few samples.
func (z ZSet) String() string {
	if z.Empty() {
		return "{}"
	}
	if vs, ok := z.Enumerate(40); ok {
		var p []string
		for _, v := range vs {
			p = append(p, fmt.Sprint(v))
		}
		return "{" + strings.Join(p, ",") + "}"
	}
	var p []string
	for _, c := range z.cells {
		lo, hi := fmt.Sprint(c.lo), fmt.Sprint(c.hi)
		if c.lo == math.MinInt64 || c.lo == math.MinInt32 {
			lo = "minInt"
		}
		if c.hi == math.MaxInt64 || c.hi == math.MaxInt32 {
			hi = "maxInt"
		}
		if c.m == 1 {
			p = append(p, fmt.Sprintf("[%s..%s]", lo, hi))
		} else {
			p = append(p, fmt.Sprintf("[%s..%s]≡%d mod %d", lo, hi, c.r, c.m))
		}
	}
	return strings.Join(p, " ∪ ")
}

// Sample returns up to n concrete members (smallest of each cell first), for diagnostics.
func (z ZSet) Sample(n int) []int64 {
	var out []int64
	for _, c := range z.cells {
		for v, k := c.lo, 0; k < 3 && v <= c.hi; k++ {
			out = append(out, v)
			if v > c.hi-c.m {
				break
			}
			v += c.m
		}
	}
	sort.Slice(out, func(i, j int) bool { return out[i] < out[j] })
	if len(out) > n {
		out = out[:n]
	}
	return out
}

// Intersect is exact up to the modulus cap of residue().
func (z ZSet) Intersect(o ZSet) ZSet {
	var out ZSet
	for _, c := range o.cells {
		out = out.Union(z.clip(c.lo, c.hi).residue(c.m, c.r))
	}
	return out
}
