package an

import (
	"go/token"
	"go/types"

	"golang.org/x/tools/go/ssa"
)

// scanLinesLoop recognises the line-reading idiom
//
//	var words []string
//	for sc.Scan() {
//		w := sc.Text()
//		[ if w != "" { ] words = append(words, w) [ } ]
//	}
//
// over a bufio.Scanner with the default split function (ScanLines) that nothing else has
// read from: afterwards `words` holds the lines of the scanner's text in order (the
// non-empty ones if filtered).  Nothing else may happen in the loop.  Whether the scan ended
// early (a read error, a line longer than the buffer) is what sc.Err() says; rule W2 requires
// it to be examined.
func (e *Eval) scanLinesLoop(fr *frame, h *ssa.BasicBlock, body map[*ssa.BasicBlock]bool, in State, done map[*ssa.BasicBlock]bool) bool {
	if len(h.Succs) != 2 || len(e.activeLoops) > 0 {
		return false
	}
	ifi, ok := h.Instrs[len(h.Instrs)-1].(*ssa.If)
	if !ok {
		return false
	}
	scan, ok := ifi.Cond.(*ssa.Call)
	if !ok || scan.Block() != h || calleeName(scan) != "(*bufio.Scanner).Scan" {
		return false
	}
	cont, exit := h.Succs[0], h.Succs[1]
	if !body[cont] || body[exit] {
		return false
	}
	// the loop is left at its header only (no break, no return from inside)
	for b := range body {
		if b == h {
			continue
		}
		for _, sc := range b.Succs {
			if !body[sc] {
				return false
			}
		}
	}
	scv := scan.Call.Args[0]
	sv, ok := e.val(fr, scv).(ResV)
	if !ok || sv.Kind != "bufio.Scanner" || sv.O == nil {
		return false
	}
	if c, ok := in[sv.O].(CellC); !ok {
		return false
	} else if b, ok := c.V.(BoolV); !ok || !b.Known || !b.Val {
		return false // another split function, or already read from
	}
	// header: φs, the Scan call, the branch
	var acc *ssa.Phi
	for _, ins := range h.Instrs {
		switch x := ins.(type) {
		case *ssa.Phi:
			if acc != nil {
				return false
			}
			acc = x
		case *ssa.DebugRef, *ssa.If:
		case *ssa.Call:
			if x != scan {
				return false
			}
		default:
			return false
		}
	}
	if acc == nil {
		return false
	}
	if st, ok := acc.Type().Underlying().(*types.Slice); !ok || !isStringType(st.Elem()) {
		return false
	}
	// body
	var text, app *ssa.Call
	var cmp *ssa.BinOp
	var arr *ssa.Alloc
	for b := range body {
		if b == h {
			continue
		}
		for _, ins := range b.Instrs {
			switch x := ins.(type) {
			case *ssa.DebugRef, *ssa.Jump, *ssa.If, *ssa.Phi, *ssa.IndexAddr, *ssa.Slice:
			case *ssa.Alloc:
				if arr != nil {
					return false
				}
				arr = x
			case *ssa.Store:
				if _, ok := x.Addr.(*ssa.IndexAddr); !ok {
					return false
				}
			case *ssa.BinOp:
				if cmp != nil || (x.Op != token.EQL && x.Op != token.NEQ) {
					return false
				}
				cmp = x
			case *ssa.Call:
				switch calleeName(x) {
				case "(*bufio.Scanner).Text":
					if text != nil || x.Call.Args[0] != scv {
						return false
					}
					text = x
				case "append":
					if app != nil {
						return false
					}
					app = x
				default:
					return false
				}
			default:
				return false
			}
		}
	}
	if text == nil || app == nil || arr == nil || len(app.Call.Args) != 2 {
		return false
	}
	// append(acc, text): the variadic array holds text alone
	sl, ok := app.Call.Args[1].(*ssa.Slice)
	if !ok || sl.X != ssa.Value(arr) || app.Call.Args[0] != ssa.Value(acc) {
		return false
	}
	if at, ok := arr.Type().Underlying().(*types.Pointer).Elem().Underlying().(*types.Array); !ok || at.Len() != 1 {
		return false
	}
	nStores := 0
	for _, ref := range *arr.Referrers() {
		switch x := ref.(type) {
		case *ssa.IndexAddr:
			for _, r2 := range *x.Referrers() {
				st, ok := r2.(*ssa.Store)
				if !ok || st.Val != ssa.Value(text) {
					return false
				}
				nStores++
			}
		case *ssa.Slice:
			if x != sl {
				return false
			}
		case *ssa.DebugRef:
		default:
			return false
		}
	}
	if nStores != 1 {
		return false
	}
	// the filter, if any: append only where text != ""
	filtered := false
	if cmp != nil {
		other := cmp.Y
		if other == ssa.Value(text) {
			other = cmp.X
		} else if cmp.X != ssa.Value(text) {
			return false
		}
		if s, isC := strConst(other); !isC || s != "" {
			return false
		}
		var br *ssa.If
		for _, ref := range *cmp.Referrers() {
			if i, ok := ref.(*ssa.If); ok {
				br = i
			} else if _, dbg := ref.(*ssa.DebugRef); !dbg {
				return false
			}
		}
		if br == nil {
			return false
		}
		nonEmpty := br.Block().Succs[0]
		if cmp.Op == token.EQL {
			nonEmpty = br.Block().Succs[1]
		}
		if !nonEmpty.Dominates(app.Block()) || len(nonEmpty.Preds) != 1 {
			return false
		}
		filtered = true
	} else {
		// no branch at all inside the body
		for b := range body {
			if b == h {
				continue
			}
			if _, isIf := b.Instrs[len(b.Instrs)-1].(*ssa.If); isIf {
				return false
			}
		}
	}
	// the accumulator: φ(initial from outside, back-edge value), the latter being the append
	// result or (filtered) a φ of it and the accumulator itself
	okAcc := true
	for i, edge := range acc.Edges {
		if !body[h.Preds[i]] {
			switch v := e.val(fr, edge).(type) {
			case NilV:
			case SliceV:
				if ac, ok := in[v.O].(*ArrC); !ok || ac.Top != "" {
					okAcc = false
				} else if n, ok := ac.N.Const(); !ok || n != 0 {
					okAcc = false
				}
			default:
				okAcc = false
			}
			continue
		}
		if edge == ssa.Value(app) || (filtered && edge == ssa.Value(acc)) {
			continue
		}
		phi, ok := edge.(*ssa.Phi)
		if !ok || !filtered {
			okAcc = false
			continue
		}
		for _, pe := range phi.Edges {
			if pe != ssa.Value(app) && pe != ssa.Value(acc) {
				okAcc = false
			}
		}
	}
	if !okAcc {
		return false
	}
	// nothing defined in the loop is used after it, except the accumulator
	for b := range body {
		for _, ins := range b.Instrs {
			v, ok := ins.(ssa.Value)
			if !ok || v == ssa.Value(acc) || v.Referrers() == nil {
				continue
			}
			for _, ref := range *v.Referrers() {
				if _, dbg := ref.(*ssa.DebugRef); dbg {
					continue
				}
				if !body[ref.Block()] {
					return false
				}
			}
		}
	}
	for b := range body {
		done[b] = true
	}
	st := in.clone()
	st[sv.O] = CellC{KBool(false)} // read to its end
	fr.env[acc] = &TokensV{Fn: "bufio.ScanLines", In: sv.A, Sep: CStr("\n"), N: RangeInt(0, 1<<31), Site: scan, NonEmpty: filtered, Scanner: sv.O}
	fr.env[scan] = KBool(false)
	e.event("P5", Discharged, ifi, "loop in %s reads the lines of a text with a bufio.Scanner: it ends with the text", fr.fn.Name())
	e.Loops = append(e.Loops, LoopInfo{Fn: fr.fn, Header: h, T: -1, IV: "lines of a scanner"})
	e.setEdgeRaw(fr, h, exit, st)
	fr.afterLp[exit] = true
	return true
}

func isStringType(t types.Type) bool {
	b, ok := t.Underlying().(*types.Basic)
	return ok && b.Info()&types.IsString != 0
}

// appendBytesLoop recognises the byte-by-byte copy of a string
//
//	b := []byte{}            // or nil, or make([]byte, 0, n)
//	for i := 0; i < len(s); i++ {
//		b = append(b, s[i])
//	}
//
// (nothing else in the loop): afterwards b holds the bytes of s, like []byte(s).
func (e *Eval) appendBytesLoop(fr *frame, h *ssa.BasicBlock, body map[*ssa.BasicBlock]bool, in State, done map[*ssa.BasicBlock]bool) bool {
	if len(h.Succs) != 2 || len(e.activeLoops) > 0 || len(body) != 2 {
		return false
	}
	ifi, ok := h.Instrs[len(h.Instrs)-1].(*ssa.If)
	if !ok {
		return false
	}
	cont, exit := h.Succs[0], h.Succs[1]
	if !body[cont] || body[exit] {
		return false
	}
	cmp, ok := ifi.Cond.(*ssa.BinOp)
	if !ok || cmp.Op != token.LSS || cmp.Block() != h {
		return false
	}
	iphi, ok := cmp.X.(*ssa.Phi)
	if !ok || iphi.Block() != h {
		return false
	}
	ln, ok := cmp.Y.(*ssa.Call)
	if !ok || calleeName(ln) != "len" || len(ln.Call.Args) != 1 {
		return false
	}
	src := ln.Call.Args[0]
	if !isStringType(src.Type()) || body[srcBlock(src)] && srcBlock(src) != nil && srcBlock(src) != h {
		return false
	}
	// header: the two φs, (len), the comparison, the branch
	var acc *ssa.Phi
	for _, ins := range h.Instrs {
		switch x := ins.(type) {
		case *ssa.Phi:
			if x == iphi {
				continue
			}
			if acc != nil {
				return false
			}
			acc = x
		case *ssa.DebugRef, *ssa.If:
		case *ssa.BinOp:
			if x != cmp {
				return false
			}
		case *ssa.Call:
			if x != ln {
				return false
			}
		default:
			return false
		}
	}
	if acc == nil {
		return false
	}
	if st, ok := acc.Type().Underlying().(*types.Slice); !ok {
		return false
	} else if b, ok := st.Elem().Underlying().(*types.Basic); !ok || b.Kind() != types.Uint8 {
		return false
	}
	// body (one block): s[i], the variadic array, append(acc, …), i+1, jump
	var app *ssa.Call
	var inc *ssa.BinOp
	var lk ssa.Value // s[i]
	var arr *ssa.Alloc
	for _, ins := range cont.Instrs {
		switch x := ins.(type) {
		case *ssa.DebugRef, *ssa.Jump, *ssa.IndexAddr, *ssa.Slice, *ssa.Store:
		case *ssa.Lookup:
			if lk != nil || x.X != src || x.Index != ssa.Value(iphi) || x.CommaOk {
				return false
			}
			lk = x
		case *ssa.Index:
			if lk != nil || x.X != src || x.Index != ssa.Value(iphi) {
				return false
			}
			lk = x
		case *ssa.Alloc:
			if arr != nil {
				return false
			}
			arr = x
		case *ssa.BinOp:
			if inc != nil || x.Op != token.ADD || x.X != ssa.Value(iphi) {
				return false
			}
			if one, ok := intConst(x.Y); !ok || one != 1 {
				return false
			}
			inc = x
		case *ssa.Call:
			if calleeName(x) == "len" && len(x.Call.Args) == 1 && x.Call.Args[0] == src {
				continue
			}
			if app != nil || calleeName(x) != "append" || len(x.Call.Args) != 2 || x.Call.Args[0] != ssa.Value(acc) {
				return false
			}
			app = x
		default:
			return false
		}
	}
	if app == nil || inc == nil || lk == nil || arr == nil {
		return false
	}
	sl, ok := app.Call.Args[1].(*ssa.Slice)
	if !ok || sl.X != ssa.Value(arr) {
		return false
	}
	if at, ok := arr.Type().Underlying().(*types.Pointer).Elem().Underlying().(*types.Array); !ok || at.Len() != 1 {
		return false
	}
	nStores := 0
	for _, ref := range *arr.Referrers() {
		switch x := ref.(type) {
		case *ssa.IndexAddr:
			for _, r2 := range *x.Referrers() {
				st, ok := r2.(*ssa.Store)
				if !ok || st.Val != lk {
					return false
				}
				nStores++
			}
		case *ssa.Slice:
			if x != sl {
				return false
			}
		case *ssa.DebugRef:
		default:
			return false
		}
	}
	if nStores != 1 {
		return false
	}
	// φ edges: i from 0, then i+1; acc from an empty slice, then the append
	for i, p := range h.Preds {
		if body[p] {
			if iphi.Edges[i] != ssa.Value(inc) || acc.Edges[i] != ssa.Value(app) {
				return false
			}
			continue
		}
		if c, ok := intConst(iphi.Edges[i]); !ok || c != 0 {
			return false
		}
		switch v := e.val(fr, acc.Edges[i]).(type) {
		case NilV:
		case BytesV:
			cur := e.resolveBytes(v, in)
			if !cur.LenKnown || !cur.Len.Const() || cur.Len.A != 0 {
				return false
			}
		default:
			return false
		}
	}
	// nothing defined in the loop is used after it, except the accumulator
	for b := range body {
		for _, ins := range b.Instrs {
			v, ok := ins.(ssa.Value)
			if !ok || v == ssa.Value(acc) || v.Referrers() == nil {
				continue
			}
			for _, ref := range *v.Referrers() {
				if _, dbg := ref.(*ssa.DebugRef); dbg {
					continue
				}
				if !body[ref.Block()] {
					return false
				}
			}
		}
	}
	sv, ok := e.val(fr, src).(StrV)
	if !ok {
		return false
	}
	for b := range body {
		done[b] = true
	}
	o := e.newObj(okBuf, app, "bytes of a string copied one by one")
	res := BytesV{Src: "conv(" + sv.String() + ")", Str: sv}
	st := in.clone()
	st[o] = BufC{res}
	res.Obj = o
	fr.env[acc] = res
	fr.env[iphi] = e.lenOf(fr, sv, st)
	e.event("P5", Discharged, ifi, "loop in %s copies a string byte by byte: a counter running to its length", fr.fn.Name())
	e.event("P2", Discharged, lk.(ssa.Instruction), "string index below its length (loop test)")
	e.Loops = append(e.Loops, LoopInfo{Fn: fr.fn, Header: h, T: -1, IV: "bytes of a string"})
	e.setEdgeRaw(fr, h, exit, st)
	fr.afterLp[exit] = true
	return true
}

// srcBlock: the block that defines v (nil for parameters, constants, globals).
func srcBlock(v ssa.Value) *ssa.BasicBlock {
	if in, ok := v.(ssa.Instruction); ok {
		return in.Block()
	}
	return nil
}

// quoteItemsLoop recognises, in the generator, the loop that writes one quoted word per line
// into a bytes.Buffer:
//
//	for _, w := range words {
//		if w == "" { continue }          // optional
//		buf.WriteString(strconv.Quote(w))
//		buf.WriteString(",\n")
//	}
//
// words is the result of the tokeniser (strings.Split); the pieces written for an item are,
// white space aside, strconv.Quote of the item followed by a comma.  The buffer then holds an
// ItemsV piece (bufferRendered turns the whole into the equivalent template).
func (e *Eval) quoteItemsLoop(fr *frame, h *ssa.BasicBlock, body map[*ssa.BasicBlock]bool, in State, done map[*ssa.BasicBlock]bool) bool {
	if len(h.Succs) != 2 || len(e.activeLoops) > 0 || e.P == nil || e.P.Gen == nil {
		return false
	}
	if fn := h.Parent(); fn.Pkg != e.P.Gen && (fn.Parent() == nil || fn.Parent().Pkg != e.P.Gen) {
		return false
	}
	ifi, ok := h.Instrs[len(h.Instrs)-1].(*ssa.If)
	if !ok {
		return false
	}
	cont, exit := h.Succs[0], h.Succs[1]
	if !body[cont] || body[exit] {
		return false
	}
	// header: idx φ (from -1), idx+1, idx+1 < len(words)
	var iphi *ssa.Phi
	var inc *ssa.BinOp
	for _, ins := range h.Instrs {
		switch x := ins.(type) {
		case *ssa.Phi:
			if iphi != nil {
				return false
			}
			iphi = x
		case *ssa.BinOp:
			if x.Op == token.ADD {
				inc = x
			}
		case *ssa.DebugRef, *ssa.If, *ssa.Call:
		default:
			return false
		}
	}
	cmp, ok := ifi.Cond.(*ssa.BinOp)
	if !ok || cmp.Op != token.LSS || iphi == nil || inc == nil || cmp.X != ssa.Value(inc) || inc.X != ssa.Value(iphi) {
		return false
	}
	if k, ok := intConst(inc.Y); !ok || k != 1 {
		return false
	}
	for i, p := range h.Preds {
		if body[p] {
			if iphi.Edges[i] != ssa.Value(inc) {
				return false
			}
		} else if k, ok := intConst(iphi.Edges[i]); !ok || k != -1 {
			return false
		}
	}
	ln, ok := cmp.Y.(*ssa.Call)
	if !ok || !isBuiltinCall(ln, "len") {
		return false
	}
	words := ln.Call.Args[0]
	toks, ok := e.val(fr, words).(*TokensV)
	if !ok || toks == nil || toks.Fn != "strings.Split" {
		return false
	}
	// body
	var word ssa.Value
	var empty *ssa.BinOp
	var bufV ssa.Value
	var buf ResV
	type piece struct {
		quote bool
		text  string
		blk   *ssa.BasicBlock
	}
	var pieces []piece
	quotes := map[ssa.Value]bool{}
	for _, b := range fr.fn.Blocks { // in block order
		if !body[b] || b == h {
			continue
		}
		for _, ins := range b.Instrs {
			switch x := ins.(type) {
			case *ssa.DebugRef, *ssa.Jump, *ssa.If:
			case *ssa.IndexAddr:
				if x.X != words || x.Index != ssa.Value(inc) {
					return false
				}
			case *ssa.UnOp:
				ia, ok := x.X.(*ssa.IndexAddr)
				if !ok || x.Op != token.MUL || ia.X != words || word != nil {
					return false
				}
				word = x
			case *ssa.BinOp:
				if empty != nil || (x.Op != token.EQL && x.Op != token.NEQ) {
					return false
				}
				empty = x
			case *ssa.Call:
				switch calleeName(x) {
				case "strconv.Quote":
					if word == nil || x.Call.Args[0] != word {
						return false
					}
					quotes[x] = true
				case "(*bytes.Buffer).WriteString":
					if bufV == nil {
						bufV = x.Call.Args[0]
						rv, ok := e.val(fr, bufV).(ResV)
						if !ok || rv.Kind != "bytes.Buffer" || rv.O == nil {
							return false
						}
						buf = rv
					} else if x.Call.Args[0] != bufV {
						return false
					}
					if quotes[x.Call.Args[1]] {
						pieces = append(pieces, piece{quote: true, blk: b})
					} else if s, isC := strConst(x.Call.Args[1]); isC {
						pieces = append(pieces, piece{text: s, blk: b})
					} else {
						return false
					}
					if refs := x.Referrers(); refs != nil {
						for _, r := range *refs {
							if _, dbg := r.(*ssa.DebugRef); !dbg {
								return false // the result of the write is looked at: not this plain form
							}
						}
					}
				case "(*bytes.Buffer).WriteByte", "(*bytes.Buffer).WriteRune":
					if bufV == nil || x.Call.Args[0] != bufV {
						return false
					}
					k, isC := intConst(x.Call.Args[1])
					if !isC || k < 0 || k > 0x7f {
						return false
					}
					pieces = append(pieces, piece{text: string(rune(k)), blk: b})
				default:
					return false
				}
			default:
				return false
			}
		}
	}
	if word == nil || bufV == nil || len(pieces) < 2 {
		return false
	}
	// white space aside: the quoted word, then a comma
	text := ""
	nq := 0
	for _, pc := range pieces {
		if pc.quote {
			nq++
			text += "Q"
		} else {
			text += pc.text
		}
	}
	if nq != 1 || squeeze(text) != "Q," {
		return false
	}
	// the loop is left at its header only (no break, no return from inside)
	for b := range body {
		if b == h {
			continue
		}
		for _, sc := range b.Succs {
			if !body[sc] {
				return false
			}
		}
	}
	// the optional filter: the writes happen exactly where the word is not empty
	skip := false
	nIf := 0
	for b := range body {
		if b == h {
			continue
		}
		if _, isIf := b.Instrs[len(b.Instrs)-1].(*ssa.If); isIf {
			nIf++
		}
	}
	if empty != nil {
		other := empty.Y
		if other == word {
			other = empty.X
		} else if empty.X != word {
			return false
		}
		if s, isC := strConst(other); !isC || s != "" {
			return false
		}
		var br *ssa.If
		for _, ref := range *empty.Referrers() {
			if i, ok := ref.(*ssa.If); ok {
				br = i
			} else if _, dbg := ref.(*ssa.DebugRef); !dbg {
				return false
			}
		}
		if br == nil || nIf != 1 {
			return false
		}
		nonEmpty, isEmpty := br.Block().Succs[0], br.Block().Succs[1]
		if empty.Op == token.EQL {
			nonEmpty, isEmpty = isEmpty, nonEmpty
		}
		if len(nonEmpty.Preds) != 1 {
			return false
		}
		for _, pc := range pieces {
			if !nonEmpty.Dominates(pc.blk) {
				return false
			}
		}
		_ = isEmpty
		skip = true
	} else if nIf != 0 {
		return false
	}
	// nothing defined in the loop is used after it
	for b := range body {
		for _, ins := range b.Instrs {
			v, ok := ins.(ssa.Value)
			if !ok || v.Referrers() == nil {
				continue
			}
			for _, ref := range *v.Referrers() {
				if _, dbg := ref.(*ssa.DebugRef); dbg {
					continue
				}
				if !body[ref.Block()] {
					return false
				}
			}
		}
	}
	// the buffer so far: pieces only
	c, _ := in[buf.O].(CellC)
	var parts []AV
	switch v := c.V.(type) {
	case BufPartsV:
		parts = append(parts, v.Parts...)
	case StrV:
		if v.Kind != skConst || v.S != "" {
			return false
		}
	default:
		return false
	}
	for b := range body {
		done[b] = true
	}
	st := in.clone()
	st[buf.O] = CellC{BufPartsV{Parts: append(parts, ItemsV{Toks: toks, SkipEmpty: skip, Site: ifi})}}
	e.event("P5", Discharged, ifi, "loop in %s writes one quoted word per element of the token slice: it ends with the slice", fr.fn.Name())
	e.Loops = append(e.Loops, LoopInfo{Fn: fr.fn, Header: h, T: -1, IV: "quoted items"})
	e.setEdgeRaw(fr, h, exit, st)
	fr.afterLp[exit] = true
	return true
}

// filterNonEmptyLoop recognises, in the generator,
//
//	for _, line := range lines { if line != "" { words = append(words, line) } }
//
// with lines the result of the tokeniser (strings.Split) and words empty before the loop: words
// is then the non-empty tokens, in order (TokensV.NonEmpty).
func (e *Eval) filterNonEmptyLoop(fr *frame, h *ssa.BasicBlock, body map[*ssa.BasicBlock]bool, in State, done map[*ssa.BasicBlock]bool) bool {
	if len(h.Succs) != 2 || len(e.activeLoops) > 0 || e.P == nil || e.P.Gen == nil {
		return false
	}
	if fn := h.Parent(); fn.Pkg != e.P.Gen && (fn.Parent() == nil || fn.Parent().Pkg != e.P.Gen) {
		return false
	}
	ifi, ok := h.Instrs[len(h.Instrs)-1].(*ssa.If)
	if !ok {
		return false
	}
	cont, exit := h.Succs[0], h.Succs[1]
	if !body[cont] || body[exit] {
		return false
	}
	var iphi, acc *ssa.Phi
	var inc *ssa.BinOp
	for _, ins := range h.Instrs {
		switch x := ins.(type) {
		case *ssa.Phi:
			if isStringSlice(x.Type()) {
				if acc != nil {
					return false
				}
				acc = x
			} else {
				if iphi != nil {
					return false
				}
				iphi = x
			}
		case *ssa.BinOp:
			if x.Op == token.ADD {
				inc = x
			}
		case *ssa.DebugRef, *ssa.If, *ssa.Call:
		default:
			return false
		}
	}
	cmp, ok := ifi.Cond.(*ssa.BinOp)
	if !ok || cmp.Op != token.LSS || iphi == nil || acc == nil || inc == nil || cmp.X != ssa.Value(inc) || inc.X != ssa.Value(iphi) {
		return false
	}
	if k, ok := intConst(inc.Y); !ok || k != 1 {
		return false
	}
	for i, p := range h.Preds {
		if body[p] {
			if iphi.Edges[i] != ssa.Value(inc) {
				return false
			}
		} else if k, ok := intConst(iphi.Edges[i]); !ok || k != -1 {
			return false
		}
	}
	ln, ok := cmp.Y.(*ssa.Call)
	if !ok || !isBuiltinCall(ln, "len") {
		return false
	}
	lines := ln.Call.Args[0]
	toks, ok := e.val(fr, lines).(*TokensV)
	if !ok || toks == nil || toks.Fn != "strings.Split" || toks.NonEmpty {
		return false
	}
	var word ssa.Value
	var test *ssa.BinOp
	var app *ssa.Call
	var arr *ssa.Alloc
	for b := range body {
		if b == h {
			continue
		}
		for _, ins := range b.Instrs {
			switch x := ins.(type) {
			case *ssa.DebugRef, *ssa.Jump, *ssa.If, *ssa.Phi, *ssa.Slice, *ssa.Store:
			case *ssa.IndexAddr:
				if x.X == lines && x.Index != ssa.Value(inc) {
					return false
				}
			case *ssa.UnOp:
				if ia, ok := x.X.(*ssa.IndexAddr); ok && x.Op == token.MUL && ia.X == lines {
					if word != nil {
						return false
					}
					word = x
				} else {
					return false
				}
			case *ssa.BinOp:
				if test != nil || (x.Op != token.EQL && x.Op != token.NEQ) {
					return false
				}
				test = x
			case *ssa.Alloc:
				if arr != nil {
					return false
				}
				arr = x
			case *ssa.Call:
				if !isBuiltinCall(x, "append") || app != nil {
					return false
				}
				app = x
			default:
				return false
			}
		}
	}
	if word == nil || test == nil || app == nil || arr == nil || len(app.Call.Args) != 2 || app.Call.Args[0] != ssa.Value(acc) {
		return false
	}
	// append(acc, word): the variadic array holds the word alone
	sl, ok := app.Call.Args[1].(*ssa.Slice)
	if !ok || sl.X != ssa.Value(arr) {
		return false
	}
	if at, ok := arr.Type().Underlying().(*types.Pointer).Elem().Underlying().(*types.Array); !ok || at.Len() != 1 {
		return false
	}
	nStores := 0
	for _, ref := range *arr.Referrers() {
		switch x := ref.(type) {
		case *ssa.IndexAddr:
			for _, r2 := range *x.Referrers() {
				st, ok := r2.(*ssa.Store)
				if !ok || st.Val != word {
					return false
				}
				nStores++
			}
		case *ssa.Slice:
			if x != sl {
				return false
			}
		case *ssa.DebugRef:
		default:
			return false
		}
	}
	if nStores != 1 {
		return false
	}
	// the test: word != "" guards exactly the append
	other := test.Y
	if other == word {
		other = test.X
	} else if test.X != word {
		return false
	}
	if s, isC := strConst(other); !isC || s != "" {
		return false
	}
	var br *ssa.If
	nIf := 0
	for b := range body {
		if b == h {
			continue
		}
		if i, isIf := b.Instrs[len(b.Instrs)-1].(*ssa.If); isIf {
			nIf++
			if i.Cond == ssa.Value(test) {
				br = i
			}
		}
	}
	if br == nil || nIf != 1 {
		return false
	}
	// the loop is left at its header only (an empty line skipped with `break` ends the list there)
	for b := range body {
		if b == h {
			continue
		}
		for _, sc := range b.Succs {
			if !body[sc] {
				return false
			}
		}
	}
	nonEmpty := br.Block().Succs[0]
	if test.Op == token.EQL {
		nonEmpty = br.Block().Succs[1]
	}
	if len(nonEmpty.Preds) != 1 || !nonEmpty.Dominates(app.Block()) {
		return false
	}
	// the accumulator: empty before the loop; round the loop either the append or itself
	for i, edge := range acc.Edges {
		if !body[h.Preds[i]] {
			switch v := e.val(fr, edge).(type) {
			case NilV:
			case SliceV:
				ac, ok := in[v.O].(*ArrC)
				if !ok || ac.Top != "" {
					return false
				}
				if n, ok := ac.N.Const(); !ok || n != 0 {
					return false
				}
			default:
				return false
			}
			continue
		}
		if edge == ssa.Value(app) || edge == ssa.Value(acc) {
			continue
		}
		phi, ok := edge.(*ssa.Phi)
		if !ok {
			return false
		}
		for _, pe := range phi.Edges {
			if pe != ssa.Value(app) && pe != ssa.Value(acc) {
				return false
			}
		}
	}
	// nothing defined in the loop is used after it, except the accumulator
	for b := range body {
		for _, ins := range b.Instrs {
			v, ok := ins.(ssa.Value)
			if !ok || v == ssa.Value(acc) || v.Referrers() == nil {
				continue
			}
			for _, ref := range *v.Referrers() {
				if _, dbg := ref.(*ssa.DebugRef); dbg {
					continue
				}
				if !body[ref.Block()] {
					return false
				}
			}
		}
	}
	for b := range body {
		done[b] = true
	}
	nt := *toks
	nt.NonEmpty = true
	nt.N = RangeInt(0, 1<<31)
	fr.env[acc] = &nt
	e.event("P5", Discharged, ifi, "loop in %s keeps the non-empty elements of the token slice: it ends with the slice", fr.fn.Name())
	e.Loops = append(e.Loops, LoopInfo{Fn: fr.fn, Header: h, T: -1, IV: "non-empty tokens"})
	e.setEdgeRaw(fr, h, exit, in.clone())
	fr.afterLp[exit] = true
	return true
}
