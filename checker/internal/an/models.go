package an

import (
	"fmt"
	"go/token"
	"go/types"
	"math"
	"math/big"
	"strings"

	"golang.org/x/text/unicode/norm"
	"golang.org/x/tools/go/ssa"
)

// IndV is an integer that is 1 when C holds and 0 when it does not (the results of
// crypto/subtle.ConstantTimeCompare / ConstantTimeByteEq / ConstantTimeEq).
type IndV struct{ C *Cond }

func (c IndV) String() string { return fmt.Sprintf("ind(%v)", BoolV{C: c.C}) }

// LimbsV is the slice (*big.Int).Bits() returns: it shares the memory of that big.Int; what
// it holds is not modelled (reads are unknown), a write through it makes the integer unknown
// and nothing else.
type LimbsV struct{ Of *Obj }

func (l LimbsV) String() string { return fmt.Sprintf("limbs of big.Int obj%d", l.Of.ID) }

// CmpV is the result of (*big.Int).Cmp.
type CmpV struct{ A, B BigC }

func (c CmpV) String() string { return fmt.Sprintf("Cmp(%v,%v)", c.A, c.B) }

// readOnly lists functions outside the module that neither retain nor modify the
// memory reachable from their arguments (one-line reasons in DESIGN.md §5 F4).
var readOnly = map[string]bool{
	"crypto/sha256.Sum256":           true,
	"crypto/sha256.Sum224":           true,
	"crypto/sha512.Sum512":           true,
	"(*math/big.Int).SetBytes":       true, // copies the bytes into its own words
	"bytes.Equal":                    true,
	"bytes.Compare":                  true,
	"encoding/hex.EncodeToString":    true,
	"encoding/hex.Encode":            false, // writes dst
	"len":                            true,
	"cap":                            true,
	"fmt.Errorf":                     true,
	"fmt.Sprintf":                    true,
	"fmt.Sprint":                     true,
	"errors.New":                     true,
	"strings.Join":                   true,
	"strings.Split":                  true,
	"strings.SplitN":                 true,
	"strings.Fields":                 true,
	"strings.Contains":               true,
	"strings.ReplaceAll":             true,
	"strings.ToLower":                true,
	"strings.TrimSpace":              true,
	"strconv.FormatInt":              true,
	"strconv.Itoa":                   true,
	"golang.org/x/crypto/pbkdf2.Key": true, // reads password and salt, returns a fresh slice
}

// isReadOnly: the function neither modifies nor retains memory reachable from its arguments.
func isReadOnly(name string) bool {
	if readOnly[name] {
		return true
	}
	for _, pfx := range []string{"strings.", "unicode.", "unicode/utf8.", "strconv.", "errors.", "math.", "math/bits.", "slices.Contains", "slices.Index", "slices.Equal", "slices.BinarySearch",
		"sort.SearchStrings", "sort.SearchInts", "sort.StringsAreSorted", "sort.IntsAreSorted", "sort.IsSorted", "bytes.Equal", "bytes.Compare", "bytes.Contains", "bytes.Index", "bytes.HasPrefix", "bytes.HasSuffix",
		"fmt.Sprint", "fmt.Errorf", "fmt.Fprint", "fmt.Print", "encoding/hex.EncodeToString", "(golang.org/x/text/unicode/norm.Form)."} {
		if strings.HasPrefix(name, pfx) {
			return true
		}
	}
	return false
}

func (e *Eval) call(fr *frame, x *ssa.Call, st State) AV {
	cc := x.Common()
	args := make([]AV, len(cc.Args))
	for i, a := range cc.Args {
		args[i] = e.val(fr, a)
	}
	if cc.IsInvoke() {
		return e.invoke(fr, x, e.val(fr, cc.Value), cc.Method.Name(), args, st)
	}
	if b, ok := cc.Value.(*ssa.Builtin); ok {
		return e.builtin(fr, x, b.Name(), args, st)
	}
	callee := cc.StaticCallee()
	var bindings []AV
	if callee == nil {
		if fv, ok := e.val(fr, cc.Value).(FuncV); ok {
			callee, bindings = fv.Fn, fv.Bindings
		}
	} else if mc, ok := cc.Value.(*ssa.MakeClosure); ok {
		for _, b := range mc.Bindings {
			bindings = append(bindings, e.val(fr, b))
		}
	}
	if callee == nil {
		e.record(fr, x, "dynamic", nil, args, nil, st)
		for _, a := range args {
			e.escape(fr, st, a, "dynamic call")
		}
		e.event("", Undecided, x, "call through a function value that is not resolved")
		return e.topOf(x.Type(), "dynamic call")
	}
	if callee.Name() == "init" && callee.Synthetic != "" && len(args) == 0 {
		return TupleV{} // another package's initialiser: its globals are read from the syntax tree
	}
	if callee.Pkg == nil && callee.Parent() == nil && len(callee.Blocks) > 0 && (strings.HasPrefix(callee.Synthetic, "bound method wrapper") || strings.HasPrefix(callee.Synthetic, "thunk for")) && fr.depth < maxDepth-1 {
		// a method value (`f := norm.NFKD.String`): the wrapper only calls the method
		res, out := e.evalFunc(callee, args, bindings, st, fr.depth+1, false)
		for k := range st {
			delete(st, k)
		}
		for k, v := range out {
			st[k] = v
		}
		if len(res) == 1 {
			return res[0]
		}
		return TupleV(res)
	}
	if callee.Pkg != nil && e.P.InModule(callee.Pkg) && len(args) == 1 && e.P.nfkdHelper(callee) {
		// norm.NFKD.String with the copy skipped for normalised text (nfkdHelper)
		res := nfkdOf(args[0])
		e.record(fr, x, "(golang.org/x/text/unicode/norm.Form).String", nil, []AV{CInt(int64(norm.NFKD)), args[0]}, res, st)
		return res
	}
	if callee.Pkg != nil && e.P.InModule(callee.Pkg) && len(args) == 1 {
		if sep, ok := e.P.byteSplitter(callee); ok {
			// a hand-written strings.Split(s, sep) (matched whole, see byteSplitter)
			t := &TokensV{Fn: "strings.Split", In: args[0], Sep: CStr(sep), Site: x, N: RangeInt(1, 1<<31)}
			if e.Ctx != nil && e.Ctx.TokCount != nil {
				t.N = CInt(*e.Ctx.TokCount)
			} else if e.Ctx != nil && e.Ctx.SizeRange != nil && e.Ctx.SizeKind == "N" {
				t.N = RangeInt(e.Ctx.SizeRange[0], e.Ctx.SizeRange[1])
			}
			e.record(fr, x, "strings.Split", nil, []AV{args[0], CStr(sep)}, t, st)
			return t
		}
	}
	if callee.Pkg != nil && e.P.InModule(callee.Pkg) || (callee.Parent() != nil && callee.Parent().Pkg != nil && e.P.InModule(callee.Parent().Pkg)) {
		if len(callee.Blocks) > 0 && e.Ctx != nil && e.Ctx.Modular[callee] {
			// an entry point that is analysed on its own for every argument class: its behaviour
			// is not re-derived here, its results are simply unknown
			e.record(fr, x, "modular:"+fnKey(callee), nil, args, nil, st)
			for _, a := range args {
				e.escape(fr, st, a, "passed to "+callee.Name())
			}
			sig := callee.Signature.Results()
			if sig.Len() == 0 {
				return TupleV{}
			}
			if sig.Len() == 1 {
				return e.topOf(sig.At(0).Type(), "result of "+callee.Name())
			}
			out := make(TupleV, sig.Len())
			for i := range out {
				out[i] = e.topOf(sig.At(i).Type(), "result of "+callee.Name())
			}
			return out
		}
		if len(callee.Blocks) > 0 {
			nLoops := len(e.Loops)
			e.sites = append(e.sites, x)
			// a call made from the body of a loop that is being summarised: what the callee
			// cannot compute on values that depend on the iteration is that loop's imprecision
			saveOuter := e.outerLoop
			if fr.loop != nil {
				e.outerLoop = fr.loop
			}
			res, out := e.evalFunc(callee, args, bindings, st, fr.depth+1, false)
			e.outerLoop = saveOuter
			e.sites = e.sites[:len(e.sites)-1]
			if len(e.Loops) > nLoops {
				// the callee ran a loop to completion: what follows the call is "after the loop"
				fr.afterLp[x.Block()] = true
			}
			if gr, gs, ok := e.guardedResult(x, callee, e.lastRets); ok {
				res, out = gr, gs
			} else {
				e.callWorlds(fr, x, e.lastRets, out)
			}
			// the callee worked on the same state map semantics: copy back
			for k := range st {
				delete(st, k)
			}
			for k, v := range out {
				st[k] = v
			}
			if e.stackHasLoop() {
				// objects the callee mutated are tracked through setContent already
			}
			sig := callee.Signature.Results()
			if sig.Len() == 1 && len(res) == 1 {
				return res[0]
			}
			if sig.Len() == 0 {
				return TupleV{}
			}
			return TupleV(res)
		}
	}
	return e.model(fr, x, callee, args, st)
}

// callWorlds keeps the returns of a module helper apart when they differ in what they give
// back (`return -1` on a miss, `return idx` on a hit): a later test of the result against a
// constant selects the returns it agrees with, and with them the state they left (worldSet).
func (e *Eval) callWorlds(fr *frame, x *ssa.Call, rets []retRec, out State) {
	delete(fr.worlds, x)
	if len(rets) < 2 || len(rets) > 8 {
		return
	}
	var exts []*ssa.Extract
	if refs := x.Referrers(); refs != nil {
		for _, r := range *refs {
			if ex, ok := r.(*ssa.Extract); ok {
				exts = append(exts, ex)
			}
		}
	}
	ws := &worldSet{site: x, joined: map[*Obj]string{}}
	differ := false
	for _, r := range rets {
		w := map[ssa.Value]AV{}
		switch {
		case len(r.vals) == 1:
			w[x] = r.vals[0]
		default:
			for _, ex := range exts {
				if ex.Index < len(r.vals) {
					w[ex] = r.vals[ex.Index]
				}
			}
		}
		if len(w) == 0 {
			return
		}
		if len(ws.alts) > 0 {
			for v, a := range w {
				if fmt.Sprint(ws.alts[0][v]) != fmt.Sprint(a) {
					differ = true
				}
			}
		}
		ws.alts = append(ws.alts, w)
		ws.states = append(ws.states, r.st)
	}
	if !differ {
		return
	}
	for o, c := range out {
		if c != nil {
			ws.joined[o] = c.String()
		}
	}
	if fr.worlds == nil {
		fr.worlds = map[any]*worldSet{}
	}
	fr.worlds[x] = ws
}

func (e *Eval) stackHasLoop() bool { return len(e.activeLoops) > 0 }

func (e *Eval) record(fr *frame, x ssa.Instruction, callee string, recv AV, args []AV, res AV, st State) {
	// bytes of a pooled buffer handed to a call: they must have been overwritten since the buffer
	// came out of the pool, else the result depends on what an earlier call left there
	if callee != "len" && callee != "cap" {
		for i, a := range args {
			b, ok := a.(BytesV)
			if !ok {
				continue
			}
			if (callee == "copy" && i == 0) || ((callee == "io.ReadFull" || callee == "io.ReadAtLeast") && i == 1) || (strings.HasSuffix(callee, ".FillBytes") && i == 1) {
				continue // the destination of a write, not something read
			}
			origin := b.Obj
			if origin == nil {
				origin = b.WinOf
			}
			rb := e.resolveBytes(b, st)
			stale := false
			if rb.HasVal {
				for _, f := range rb.Val {
					if strings.HasPrefix(f.Sym, "stale") {
						stale = true
					}
				}
			} else if origin != nil && e.poolBuf[origin] {
				stale = true // content unknown: cannot show that the stale bytes are gone
			}
			if stale {
				e.event("E1", Violated, x, "%s is given bytes of a pooled buffer that are not shown to have been overwritten since it came out of the pool: they may be whatever an earlier call left there", callee)
			}
		}
	}
	// a window into a buffer is recorded with what it holds now, at the call
	for i, a := range args {
		if b, ok := a.(BytesV); ok && b.Obj == nil && b.WinOf != nil && b.WinConst {
			if i >= 0 {
				cp := append([]AV{}, args...)
				for j, aj := range cp {
					if bj, ok := aj.(BytesV); ok && bj.Obj == nil && bj.WinOf != nil && bj.WinConst {
						cp[j] = e.resolveBytes(bj, st)
					}
				}
				args = cp
			}
			break
		}
	}
	e.Calls = append(e.Calls, CallRec{Callee: callee, Instr: x, Fn: fr.fn, Recv: recv, Args: args, Res: res, InLoop: len(e.activeLoops) > 0, State: st.clone()})
}

// resolveBytes gives the current content of a byte-slice value (looking through buffer objects).
// writeWindow replaces the content of the constant window b by the n = b.WinN byte big-endian
// value src (ok == false: src is not known); false if the buffer could not be updated exactly
// (it is then unknown).
func (e *Eval) writeWindow(fr *frame, st State, b BytesV, src Layout, ok bool, why string) bool {
	if b.WinOf == nil {
		return false
	}
	if bc, isBuf := st[b.WinOf].(BufC); isBuf && ok && b.WinConst {
		cur := bc.B
		if cur.LenKnown && cur.Len.Const() && cur.HasVal && !cur.Min && cur.Pending == nil {
			if l, okw := WriteBytes(cur.Val, cur.Len.A, b.WinOff, b.WinN, src); okw {
				n := cur
				n.Val, n.Src, n.Str, n.CopyOf = l, why, nil, nil
				e.setContent(fr, st, b.WinOf, BufC{n})
				return true
			}
		}
	}
	if bc, isBuf := st[b.WinOf].(BufC); isBuf && bc.B.LenKnown {
		// the length of the buffer does not change
		e.setContent(fr, st, b.WinOf, BufC{BytesV{LenKnown: true, Len: bc.B.Len, Src: "⊤: " + why + " into a sub-slice"}})
		return false
	}
	e.setContent(fr, st, b.WinOf, topContent(b.WinOf, why+" into a sub-slice"))
	return false
}

// constIntMember evaluates slices.Contains(s, v) / slices.Index(s, v) for a slice whose elements
// are known integer constants: exactly when v is a constant, and for a range when every
// value of the range gives the same answer (Contains only).
func (e *Eval) constIntMember(s, v AV, st State, index bool) (AV, bool) {
	var elems []AV
	switch sv := s.(type) {
	case SliceV:
		vc, ok := st[sv.O].(VecC)
		if !ok || vc.Top != "" {
			return nil, false
		}
		elems = vc.Elems
	case VecV:
		elems = sv.Elems
	default:
		return nil, false
	}
	vals := make([]int64, len(elems))
	for i, el := range elems {
		iv, ok := el.(IntV)
		c, okc := iv.Const()
		if !ok || !okc {
			return nil, false
		}
		vals[i] = c
	}
	iv, ok := v.(IntV)
	if !ok {
		return nil, false
	}
	if c, ok := iv.Const(); ok {
		for i, x := range vals {
			if x == c {
				if index {
					return CInt(int64(i)), true
				}
				return KBool(true), true
			}
		}
		if index {
			return CInt(-1), true
		}
		return KBool(false), true
	}
	if lo, hi, ok := iv.Bounds(0); ok && !index {
		any := false
		for _, x := range vals {
			if x >= lo && x <= hi {
				any = true
			}
		}
		if !any {
			return KBool(false), true
		}
	}
	return nil, false
}

// bytesEqCond is the condition "x and y are equal byte slices": a comparison of two bit
// layouts when both contents are known with the same constant length; nil when the lengths
// are known to differ (never equal); an opaque condition otherwise.
func (e *Eval) bytesEqCond(x, y AV, st State) *Cond {
	bx, okx := x.(BytesV)
	by, oky := y.(BytesV)
	opaque := &Cond{Kind: "other", Desc: "equality of " + shortAV(x) + " and " + shortAV(y)}
	if !okx || !oky {
		return opaque
	}
	bx, by = e.resolveBytes(bx, st), e.resolveBytes(by, st)
	if bx.LenKnown && by.LenKnown && bx.Len.Const() && by.Len.Const() && !bx.Min && !by.Min {
		if bx.Len.A != by.Len.A {
			return nil
		}
		if bx.HasVal && by.HasVal {
			return &Cond{Kind: "intcmp", Op: token.EQL, A: IntV{Kind: ikBits, Bits: bx.Val}, B: IntV{Kind: ikBits, Bits: by.Val}}
		}
	}
	return opaque
}

func (e *Eval) resolveBytes(b BytesV, st State) BytesV {
	if b.Obj == nil && b.WinOf != nil && b.WinConst {
		r := BytesV{LenKnown: true, Len: K(b.WinN), WinOf: b.WinOf, WinConst: true, WinOff: b.WinOff, WinN: b.WinN, Src: "⊤: window into a buffer whose content is not known"}
		if bc, ok := st[b.WinOf].(BufC); ok {
			cur := bc.B
			if cur.LenKnown && cur.Len.Const() && cur.HasVal && !cur.Min && cur.Pending == nil && b.WinOff >= 0 && b.WinOff+b.WinN <= cur.Len.A {
				if v, ok := cur.Val.Slice(8*(cur.Len.A-b.WinOff-b.WinN), 8*b.WinN); ok {
					r.HasVal, r.Val, r.Src = true, v, cur.Src
				}
			}
		}
		return r
	}
	if b.Obj != nil {
		if bc, ok := st[b.Obj].(BufC); ok {
			r := bc.B
			r.Obj = b.Obj
			if r.Pending != nil {
				// not (yet) known to be on the path where the filling call succeeded
				r.HasVal, r.Val = false, nil
				r.Src = "⊤: valid only if the call that fills it succeeded (" + r.Src + ")"
			}
			return r
		}
	}
	return b
}

func (e *Eval) builtin(fr *frame, x *ssa.Call, name string, args []AV, st State) AV {
	switch name {
	case "len", "cap":
		if len(args) == 1 {
			e.record(fr, x, name, nil, args, nil, st)
			return e.lenOf(fr, args[0], st)
		}
	case "copy":
		e.record(fr, x, name, nil, args, nil, st)
		// what copy returns: min(len(dst), len(src)), when both are known before the copy
		copied := IntV(RangeInt(0, 1<<31))
		{
			dl, sl := e.lenOf(fr, args[0], st), e.lenOf(fr, args[1], st)
			if a, ok := dl.Const(); ok {
				if b, ok := sl.Const(); ok {
					if b < a {
						a = b
					}
					copied = CInt(a)
				}
			}
		}
		if d, ok := args[0].(BytesV); ok {
			if d.Param != nil {
				e.event("F4", Violated, x, "copy into caller-owned slice %s", d.Param.Name())
			}
			if d.Obj != nil {
				src, _ := args[1].(BytesV)
				if sv, isStr := args[1].(StrV); isStr && sv.Kind == skConst {
					// copy(dst, "constant text"): the bytes of that text
					src = BytesV{Src: "conv", Str: sv, LenKnown: true, Len: K(int64(len(sv.S)))}
				}
				src = e.resolveBytes(src, st)
				cur := e.resolveBytes(d, st)
				if cur.LenKnown && src.LenKnown && cur.Len == src.Len && d.LenKnown && d.Len == cur.Len {
					n := src
					n.Obj, n.Param = nil, nil
					e.setContent(fr, st, d.Obj, BufC{n})
				} else if cur.LenKnown && src.LenKnown && cur.Len.Const() && src.Len.Const() && src.Len.A <= cur.Len.A && cur.HasVal && src.HasVal && !cur.Min && !src.Min && cur.Pending == nil && src.Pending == nil && fr.loop == nil {
					// a shorter source: the first len(src) bytes are replaced
					if l, ok := WriteBytes(cur.Val, cur.Len.A, 0, src.Len.A, src.Val); ok {
						n := cur
						n.Obj, n.Param, n.Str = nil, nil, nil
						n.Val = l
						n.Src = "copy into the front"
						e.setContent(fr, st, d.Obj, BufC{n})
					} else {
						e.setContent(fr, st, d.Obj, BufC{BytesV{LenKnown: cur.LenKnown, Len: cur.Len, Src: "⊤: partial copy"}})
					}
				} else {
					e.setContent(fr, st, d.Obj, BufC{BytesV{LenKnown: cur.LenKnown, Len: cur.Len, Src: "⊤: partial copy"}})
				}
			}
			if d.WinOf != nil {
				// copy(buf[n-len(b):], b) with b = Min(v) into a fresh zero buffer of n bytes: Fixed(v, n)
				done := false
				if bc, ok := st[d.WinOf].(BufC); ok && d.WinLo != nil && d.WinLo.Kind == ikMinLen {
					src, _ := args[1].(BytesV)
					src = e.resolveBytes(src, st)
					cur := bc.B
					z := BytesV{HasVal: cur.HasVal && len(cur.Val.Norm()) == 0 && cur.Src == "zero", Val: Layout{}, LenMin: d.WinLo.ML}
					if cur.LenKnown && cur.Len.Const() && d.WinLo.ML.Const == cur.Len.A {
						if fixed, ok := leftPad(z, src); ok {
							fixed.Src = "left-padded big.Int.Bytes"
							e.setContent(fr, st, d.WinOf, BufC{fixed})
							done = true
						}
					}
				}
				if !done && d.WinConst {
					// copy(buf[a:b], src): min(b-a, len(src)) bytes replaced from offset a on
					src, _ := args[1].(BytesV)
					src = e.resolveBytes(src, st)
					if src.LenKnown && src.Len.Const() && src.HasVal && !src.Min && src.Pending == nil && fr.loop == nil {
						n := src.Len.A
						val := src.Val
						okv := true
						if n > d.WinN {
							// only the first WinN bytes of the source fit
							val, okv = src.Val.Slice(8*(n-d.WinN), 8*d.WinN)
							n = d.WinN
						}
						if okv {
							w := d
							w.WinN = n
							e.writeWindow(fr, st, w, val, true, "copy")
							done = true
						}
					}
					if !done {
						e.writeWindow(fr, st, d, nil, false, "copy")
						done = true
					}
				}
				if !done {
					e.setContent(fr, st, d.WinOf, topContent(d.WinOf, "copy into a sub-slice"))
				}
			}
			if d.Obj == nil && d.WinOf == nil && d.Param == nil {
				e.clobber(fr, st, "copy into a slice that is not resolved", okBuf, okCell)
			}
		} else {
			e.escape(fr, st, args[0], "copy destination")
			e.clobber(fr, st, "copy into a slice that is not resolved", okBuf, okCell)
		}
		return copied
	case "append":
		e.record(fr, x, name, nil, args, nil, st)
		if _, isNil := args[0].(NilV); isNil && len(args) == 2 {
			// append([]byte(nil), b...): a private copy of b in a buffer of its own
			if src, ok := args[1].(BytesV); ok {
				return e.cloneBytes(fr, x, src, st)
			}
		}
		if d, ok := args[0].(BytesV); ok {
			if d.Param != nil {
				e.event("F4", Violated, x, "append to caller-owned slice %s may write into its spare capacity", d.Param.Name())
			}
			// bytes of strings: append([]byte(a), b...) is the bytes of a+b
			strOf := func(v AV) (StrV, bool) {
				switch y := v.(type) {
				case StrV:
					return y, true
				case BytesV:
					yy := e.resolveBytes(y, st)
					if yy.Str != nil {
						if sv, ok := yy.Str.(StrV); ok {
							return sv, true
						}
					}
					if yy.LenKnown && yy.Len == K(0) {
						return CStr(""), true
					}
				}
				return StrV{}, false
			}
			if s0, ok0 := strOf(args[0]); ok0 {
				if s1, ok1 := strOf(args[1]); ok1 {
					var parts []AV
					for _, sv := range []StrV{s0, s1} {
						switch {
						case sv.Kind == skConst && sv.S == "":
						case sv.Kind == skConcat:
							parts = append(parts, sv.Parts...)
						default:
							parts = append(parts, sv)
						}
					}
					switch len(parts) {
					case 0:
						return BytesV{Src: "conv", Str: CStr(""), LenKnown: true, Len: K(0)}
					case 1:
						return BytesV{Src: "conv", Str: parts[0]}
					}
					return BytesV{Src: "conv", Str: StrV{Kind: skConcat, Parts: parts}}
				}
			}
			if y, ok := args[1].(BytesV); ok {
				if fixed, ok := leftPad(e.resolveBytes(d, st), e.resolveBytes(y, st)); ok {
					return fixed
				}
			}
			// concatenation of two byte strings with known content
			a0 := e.resolveBytes(d, st)
			var a1 BytesV
			switch y := args[1].(type) {
			case BytesV:
				a1 = e.resolveBytes(y, st)
			case NilV:
				a1 = BytesV{LenKnown: true, Len: K(0), HasVal: true}
			}
			if a0.LenKnown && a0.Len.Const() && a1.LenKnown && a1.Len.Const() && a0.HasVal && a1.HasVal && !a0.Min && !a1.Min {
				var out Layout
				out = append(out, a1.Val.Norm()...)
				if w, _ := a1.Val.DeclWidth(); w < 8*a1.Len.A {
					out = append(out, Field{W: K(8*a1.Len.A - w)})
				}
				out = append(out, a0.Val...)
				return BytesV{LenKnown: true, Len: K(a0.Len.A + a1.Len.A), HasVal: true, Val: out.Norm(), Src: "append"}
			}
			if a0.LenKnown && a1.LenKnown {
				return BytesV{LenKnown: true, Len: a0.Len.Add(a1.Len), Src: "⊤: append"}
			}
			return BytesV{Src: "⊤: append"}
		}
		if sv, ok := args[0].(SliceV); ok && fr.loop == nil && len(args) == 2 {
			// append to a local []string with known elements: a new slice value, one longer
			if ac, ok := st[sv.O].(*ArrC); ok && ac.Top == "" && ac.Alias == nil && len(ac.Stores) == 0 {
				if n, ok := ac.N.Const(); ok && n >= 0 && n < 4096 {
					var add []AV
					okAdd := false
					switch v := args[1].(type) {
					case SliceV:
						if vc, ok := st[v.O].(VecC); ok {
							add, okAdd = vc.Elems, true
						}
					case NilV:
						okAdd = true
					}
					if okAdd {
						elems := make([]AV, n, n+int64(len(add)))
						copy(elems, ac.Elems)
						for i := range elems {
							if elems[i] == nil {
								elems[i] = CStr("")
							}
						}
						elems = append(elems, add...)
						o := e.newObj(okArr, x, "append([]string)")
						e.setContentFresh(st, o, &ArrC{N: CInt(int64(len(elems))), Elems: elems, id: o.ID})
						return SliceV{O: o}
					}
				}
			}
		}
		if sv, ok := args[0].(SliceV); ok && fr.loop == nil && len(args) == 2 {
			// append to a slice of integers (or other plain values) with known elements, built
			// up from an empty slice of a local array or from nil: a new vector, longer
			if vc, ok := st[sv.O].(VecC); ok && sv.O.Grown && len(vc.Elems) < 4096 {
				if v, ok := args[1].(SliceV); ok {
					if add, ok := st[v.O].(VecC); ok {
						elems := append(append([]AV{}, vc.Elems...), add.Elems...)
						o := e.newObj(okVec, x, "append")
						o.Grown = true
						e.setContentFresh(st, o, VecC{Elems: elems})
						return SliceV{O: o}
					}
				}
			}
		}
		return e.topOf(x.Type(), "append")
	case "min", "max":
		// integer operands with known bounds
		lo, hi := int64(0), int64(0)
		okAll := len(args) > 0
		for i, a := range args {
			iv, ok := a.(IntV)
			l, h, okb := iv.Bounds(fr.T())
			if !ok || !okb {
				okAll = false
				break
			}
			if i == 0 {
				lo, hi = l, h
				continue
			}
			if name == "min" {
				lo, hi = minI(lo, l), minI(hi, h)
			} else {
				lo, hi = maxI(lo, l), maxI(hi, h)
			}
		}
		if okAll {
			if lo == hi {
				return CInt(lo)
			}
			return RangeInt(lo, hi)
		}
		return e.topOf(x.Type(), name)
	case "print", "println":
		return TupleV{}
	case "panic":
		e.event("P1", Violated, x, "reachable panic")
		return TupleV{}
	case "delete":
		return TupleV{}
	}
	return e.topOf(x.Type(), "builtin "+name)
}

func (e *Eval) invoke(fr *frame, x *ssa.Call, recv AV, method string, args []AV, st State) AV {
	if h, ok := recv.(HashV); ok {
		hc, _ := st[h.O].(HashC)
		switch method {
		case "Write":
			b, _ := args[0].(BytesV)
			b = e.resolveBytes(b, st)
			e.record(fr, x, "invoke:hash.Write", recv, []AV{b}, nil, st)
			if hc.Top == "" {
				ws := append([]BytesV{}, hc.Writes...)
				if k := len(ws); k > 0 {
					if fixed, ok := leftPad(ws[k-1], b); ok {
						ws = ws[:k-1]
						b = fixed
					}
				}
				n := HashC{Writes: append(ws, stripObj(b))}
				e.setContent(fr, st, h.O, n)
			}
			ln := IntV(RangeInt(0, 1<<31))
			if b.LenKnown {
				ln = LinInt(b.Len)
			}
			return TupleV{ln, ErrV{Kind: ekNil}}
		case "Sum":
			e.record(fr, x, "invoke:hash.Sum", recv, args, nil, st)
			isNil := false
			switch a := args[0].(type) {
			case NilV:
				isNil = true
			case BytesV:
				isNil = a.LenKnown && a.Len == K(0)
			}
			if hc.Top != "" || !isNil {
				return BytesV{Src: "⊤: digest of unknown input"}
			}
			// Sum(nil) allocates its result: a buffer of its own (it may be sliced, wiped, …)
			if d, ok := e.digest(h.O.Note, hc.Writes).(BytesV); ok {
				o := e.newObj(okBuf, x, "digest returned by Sum")
				e.setContentFresh(st, o, BufC{d})
				d.Obj = o
				return d
			}
			return e.digest(h.O.Note, hc.Writes)
		case "Reset":
			e.setContent(fr, st, h.O, HashC{})
			return TupleV{}
		case "Size":
			return CInt(32)
		case "BlockSize":
			return CInt(64)
		}
	}
	e.record(fr, x, "invoke:"+method, recv, args, nil, st)
	// io.Reader.Read on anything: partial fill
	if method == "Read" && len(args) == 1 {
		if b, ok := args[0].(BytesV); ok && b.Obj != nil {
			cur := e.resolveBytes(b, st)
			e.setContent(fr, st, b.Obj, BufC{BytesV{LenKnown: cur.LenKnown, Len: cur.Len, Src: "partial read(" + recv.String() + ")"}})
		}
		return TupleV{RangeInt(0, 1<<31), ErrV{Kind: ekFrom, From: "Read", Site: x}}
	}
	for _, a := range args {
		e.escape(fr, st, a, "interface method call "+method)
	}
	return e.topOf(x.Type(), "invoke "+method)
}

// cloneBytes: a fresh buffer object holding what src holds now (append([]byte(nil), src...),
// bytes.Clone, slices.Clone).
func (e *Eval) cloneBytes(fr *frame, x ssa.Instruction, src BytesV, st State) AV {
	n := stripObj(e.resolveBytes(src, st))
	n.Param = nil
	o := e.newObj(okBuf, x, "private copy")
	e.setContentFresh(st, o, BufC{n})
	r := n
	r.Obj = o
	return r
}

// bufferAppend adds one piece to what a bytes.Buffer of the generator holds.
func (e *Eval) bufferAppend(fr *frame, st State, o *Obj, piece AV) {
	c, _ := st[o].(CellC)
	var parts []AV
	switch v := c.V.(type) {
	case StrV:
		if v.Kind != skConst || v.S != "" {
			e.setContent(fr, st, o, CellC{CStr("other")})
			return
		}
	case BufPartsV:
		parts = append(parts, v.Parts...)
	default:
		e.setContent(fr, st, o, CellC{CStr("other")})
		return
	}
	e.setContent(fr, st, o, CellC{BufPartsV{Parts: append(parts, piece)}})
}

// bufferRendered: the pieces are constant text, the untouched variable-name parameter (once)
// and one loop of quoted items (once), in that order: the file a template
// `… var {{.Variable}} = []string{ {{range .WordList}}{{if .}}"{{.}}",{{end}}{{end}} }` renders
// (strconv.Quote in place of the bare quotes).  The equivalent template text is what W3 judges.
func bufferRendered(bp BufPartsV, site ssa.Instruction) *QuoteRender {
	qr := &QuoteRender{Site: site}
	var sb strings.Builder
	for _, p := range bp.Parts {
		switch v := p.(type) {
		case StrV:
			switch {
			case v.Kind == skConst:
				if strings.Contains(v.S, "{{") {
					return nil
				}
				sb.WriteString(v.S)
			case v.Kind == skRaw && qr.Var == nil && qr.Words == nil:
				qr.Var = v
				sb.WriteString("{{.Variable}}")
			default:
				return nil
			}
		case ItemsV:
			if qr.Words != nil || qr.Var == nil {
				return nil
			}
			qr.Words = v.Toks
			if v.SkipEmpty {
				sb.WriteString("{{range .WordList}}{{if .}}\"{{.}}\",\n{{end}}{{end}}")
			} else {
				sb.WriteString("{{range .WordList}}\"{{.}}\",\n{{end}}")
			}
		default:
			return nil
		}
	}
	if qr.Var == nil || qr.Words == nil {
		return nil
	}
	qr.Text = sb.String()
	return qr
}

// cursorOf: s is what is left of a sentence cut word by word — the whole input (cursor 0), a
// cursor, or a token (then k is its index): the virtual tokens and k.
func (e *Eval) cursorOf(s StrV) (*TokensV, int64, bool) {
	switch s.Kind {
	case skCursor, skTok:
		if s.Toks != nil {
			if k, ok := s.Idx.Const(); ok {
				return s.Toks, k, true
			}
		}
		return nil, 0, false
	}
	if t := e.walkToks[s.String()]; t != nil {
		return t, 0, true
	}
	return nil, 0, false
}

// nfkdOf: norm.NFKD.String of an abstract string.
func nfkdOf(arg AV) AV {
	if s, ok := arg.(StrV); ok && s.Kind == skConst {
		return CStr(norm.NFKD.String(s.S))
	}
	if s, ok := arg.(StrV); ok && s.Kind == skJoin {
		if sep, ok := s.Sep.(StrV); ok && sep.Kind == skConst && joinOfListWords(s.Arr) {
			// NFKD of a join of NFKD-stable words (T5w) with a separator made of starters:
			// the words are unchanged and only the separator is normalised
			n := s
			n.Sep = CStr(norm.NFKD.String(sep.S))
			return n
		}
	}
	return StrV{Kind: skNFKD, X: arg}
}

// nfkdHelper recognises a module function that is norm.NFKD.String with the copy skipped for
// text that is in that form already:
//
//	func nfkd(s string) string {
//		if norm.NFKD.IsNormalString(s) { return s }
//		return norm.NFKD.String(s)
//	}
//
// (either polarity).  IsNormalString(s) holds exactly when String(s) == s (x/text documents
// String as returning s itself then), so the function is norm.NFKD.String.
func (p *Program) nfkdHelper(fn *ssa.Function) bool {
	if fn == nil || len(fn.Blocks) == 0 || fn.Pkg == nil || !p.InModule(fn.Pkg) {
		return false
	}
	if p.nfkdFns == nil {
		p.nfkdFns = map[*ssa.Function]bool{}
	}
	if v, done := p.nfkdFns[fn]; done {
		return v
	}
	ok := matchNFKDHelper(fn)
	p.nfkdFns[fn] = ok
	return ok
}

func matchNFKDHelper(fn *ssa.Function) bool {
	sig := fn.Signature
	if sig.Recv() != nil || sig.Params().Len() != 1 || sig.Results().Len() != 1 || len(fn.FreeVars) != 0 || len(fn.Blocks) != 3 {
		return false
	}
	for _, t := range []types.Type{sig.Params().At(0).Type(), sig.Results().At(0).Type()} {
		if b, ok := t.Underlying().(*types.Basic); !ok || b.Kind() != types.String {
			return false
		}
	}
	s := ssa.Value(fn.Params[0])
	isForm := func(c *ssa.Call, method string) bool {
		callee := c.Call.StaticCallee()
		if callee == nil || callee.String() != "(golang.org/x/text/unicode/norm.Form)."+method || len(c.Call.Args) != 2 || c.Call.Args[1] != s {
			return false
		}
		f, ok := intConst(c.Call.Args[0])
		return ok && f == int64(norm.NFKD)
	}
	var test, conv *ssa.Call
	var branch *ssa.If
	var retS, retConv *ssa.Return
	for _, b := range fn.Blocks {
		for _, in := range b.Instrs {
			switch x := in.(type) {
			case *ssa.DebugRef, *ssa.UnOp:
				if u, ok := in.(*ssa.UnOp); ok && u.Op != token.NOT {
					return false
				}
			case *ssa.Call:
				switch {
				case isForm(x, "IsNormalString") && test == nil:
					test = x
				case isForm(x, "String") && conv == nil:
					conv = x
				default:
					return false
				}
			case *ssa.If:
				if branch != nil {
					return false
				}
				branch = x
			case *ssa.Return:
				if len(x.Results) != 1 {
					return false
				}
				switch {
				case x.Results[0] == s && retS == nil:
					retS = x
				case conv != nil && x.Results[0] == ssa.Value(conv) && retConv == nil:
					retConv = x
				default:
					return false
				}
			default:
				return false
			}
		}
	}
	if test == nil || conv == nil || branch == nil || retS == nil || retConv == nil || test.Block() != fn.Blocks[0] || branch.Block() != fn.Blocks[0] {
		return false
	}
	// the branch is on the test (possibly negated); `return s` sits on the side where it holds
	cond, hold := branch.Cond, true
	for {
		u, ok := cond.(*ssa.UnOp)
		if !ok || u.Op != token.NOT {
			break
		}
		hold, cond = !hold, u.X
	}
	if cond != ssa.Value(test) {
		return false
	}
	normal := fn.Blocks[0].Succs[0]
	if !hold {
		normal = fn.Blocks[0].Succs[1]
	}
	return retS.Block() == normal && retConv.Block() != normal && conv.Block() == retConv.Block()
}

func isASCII(s string) bool {
	for i := 0; i < len(s); i++ {
		if s[i] >= 0x80 {
			return false
		}
	}
	return true
}

func stripObj(b BytesV) BytesV {
	b.Obj, b.WinOf, b.WinLo, b.WinConst, b.WinOff, b.WinN = nil, nil, nil, false, 0, 0
	return b
}

// DigestInfo describes a digest symbol.
type DigestInfo struct {
	Alg    string
	Writes []BytesV
}

func (e *Eval) digest(alg string, writes []BytesV) AV {
	parts := make([]string, len(writes))
	for i, w := range writes {
		w.Param = nil
		parts[i] = w.String()
	}
	name := alg + "(" + strings.Join(parts, "‖") + ")"
	if e.Digests == nil {
		e.Digests = map[string]DigestInfo{}
	}
	e.Digests[name] = DigestInfo{Alg: alg, Writes: writes}
	return BytesV{LenKnown: true, Len: K(32), HasVal: true, Val: SymL(name, 256), Src: "digest"}
}

func (e *Eval) bigOf(v AV, st State) (BigC, *Obj, bool) {
	p, ok := v.(PtrV)
	if !ok {
		return BigTop("not a pointer: " + v.String()), nil, false
	}
	if p.O != nil {
		if c, ok := st[p.O].(BigC); ok {
			return c, p.O, true
		}
		if c, ok := e.G.Objs[p.O].(BigC); ok { // object created by a package initialiser
			return c, nil, true
		}
	}
	return BigTop("unknown big.Int"), nil, false
}

func (e *Eval) model(fr *frame, x *ssa.Call, callee *ssa.Function, args []AV, st State) AV {
	name := callee.String()
	var res AV
	defer func() { e.record(fr, x, name, nil, args, res, st) }()
	ret := func(v AV) AV { res = v; return v }

	if strings.HasPrefix(name, "(*math/big.Int).") {
		return ret(e.bigMethod(fr, x, callee.Name(), args, st))
	}
	if strings.HasPrefix(name, "slices.Contains[") || strings.HasPrefix(name, "slices.Index[") {
		// membership / position of an integer in a slice of known integer constants
		if v, ok := e.constIntMember(args[0], args[1], st, strings.HasPrefix(name, "slices.Index[")); ok {
			return ret(v)
		}
	}
	if strings.HasPrefix(name, "(*strings.Builder).") {
		return ret(e.sbMethod(fr, x, callee.Name(), args, st))
	}
	if strings.HasPrefix(name, "(*bytes.Buffer).") && len(args) > 0 {
		if p, ok := args[0].(PtrV); ok && p.O != nil && p.O.Kind == okSB {
			if callee.Name() == "Bytes" {
				if sv, ok := e.sbMethod(fr, x, "String", args, st).(StrV); ok {
					return ret(BytesV{Src: "conv", Str: sv})
				}
				return ret(BytesV{Src: "⊤: bytes of a buffer"})
			}
			return ret(e.sbMethod(fr, x, callee.Name(), args, st))
		}
	}
	switch name {
	case "math/big.NewInt":
		o := e.newObj(okBig, x, "big.NewInt")
		iv, _ := args[0].(IntV)
		switch {
		case iv.Kind == ikLin && iv.L.Const():
			e.setContentFresh(st, o, BigConst(big.NewInt(iv.L.A)))
		case iv.Kind == ikBits:
			e.setContentFresh(st, o, BigLayout(iv.Bits))
		default:
			e.setContentFresh(st, o, BigTop("NewInt of "+iv.String()))
		}
		return ret(PtrV{O: o})
	case "crypto/sha256.New":
		o := e.newObj(okHash, x, "SHA256")
		e.setContentFresh(st, o, HashC{})
		return ret(HashV{O: o})
	case "(encoding/binary.bigEndian).Uint64", "(encoding/binary.bigEndian).Uint32", "(encoding/binary.bigEndian).Uint16":
		// the first 8 / 4 / 2 bytes of the slice as one big-endian integer
		nb := map[string]int64{"Uint64": 8, "Uint32": 4, "Uint16": 2}[callee.Name()]
		if b, ok := args[len(args)-1].(BytesV); ok {
			src := e.resolveBytes(b, st)
			if src.LenKnown && src.Len.Const() && src.HasVal && !src.Min && src.Pending == nil {
				if src.Len.A < nb {
					e.event("P2", Violated, x, "%s of a %d-byte slice: panics", name, src.Len.A)
					return ret(TopInt("out of range"))
				}
				e.event("P2", Discharged, x, "%s of a %d-byte slice", name, src.Len.A)
				if v, ok := src.Val.Slice(8*(src.Len.A-nb), 8*nb); ok {
					return ret(BitsInt(v))
				}
			} else {
				e.event("P2", Undecided, x, "%s: the slice is not shown to have %d bytes", name, nb)
			}
		}
		return ret(e.topOf(x.Type(), name))
	case "crypto/subtle.ConstantTimeCompare", "bytes.Equal":
		// 1 / true iff the two slices have the same length and content
		c := e.bytesEqCond(args[0], args[1], st)
		if name == "bytes.Equal" {
			if c == nil {
				return ret(KBool(false))
			}
			return ret(BoolV{C: c})
		}
		if c == nil {
			return ret(CInt(0))
		}
		return ret(IndV{C: c})
	case "crypto/subtle.ConstantTimeByteEq", "crypto/subtle.ConstantTimeEq":
		ia, oka := args[0].(IntV)
		ib, okb := args[1].(IntV)
		if oka && okb {
			if ca, ok := ia.Const(); ok {
				if cb, ok := ib.Const(); ok {
					if ca == cb {
						return ret(CInt(1))
					}
					return ret(CInt(0))
				}
			}
			return ret(IndV{C: &Cond{Kind: "intcmp", Op: token.EQL, A: ia, B: ib}})
		}
		return ret(IndV{C: &Cond{Kind: "other", Desc: name + " of " + shortAV(args[0]) + ", " + shortAV(args[1])}})
	case "crypto/sha256.Sum256":
		b, _ := args[0].(BytesV)
		return ret(e.digest("SHA256", []BytesV{stripObj(e.resolveBytes(b, st))}))
	case "strings.Join":
		if sv, ok := args[0].(SliceV); ok {
			if ac, ok := st[sv.O].(*ArrC); ok {
				return ret(StrV{Kind: skJoin, Arr: ac, Sep: args[1]})
			}
		}
		return ret(TopStr("Join of " + shortAV(args[0])))
	case "strings.TrimRight", "strings.TrimLeft", "strings.Trim", "strings.TrimSuffix", "strings.TrimPrefix":
		// of constants: the constant result (a base URL with its trailing slash removed)
		if a0, ok := args[0].(StrV); ok && a0.Kind == skConst {
			if a1, ok := args[1].(StrV); ok && a1.Kind == skConst {
				switch name {
				case "strings.TrimRight":
					return ret(CStr(strings.TrimRight(a0.S, a1.S)))
				case "strings.TrimLeft":
					return ret(CStr(strings.TrimLeft(a0.S, a1.S)))
				case "strings.Trim":
					return ret(CStr(strings.Trim(a0.S, a1.S)))
				case "strings.TrimSuffix":
					return ret(CStr(strings.TrimSuffix(a0.S, a1.S)))
				case "strings.TrimPrefix":
					return ret(CStr(strings.TrimPrefix(a0.S, a1.S)))
				}
			}
		}
	case "strings.HasPrefix":
		// a text that begins with a constant (an URL built from a constant base)
		if pre, ok := args[1].(StrV); ok && pre.Kind == skConst {
			if sv, ok := args[0].(StrV); ok {
				head := ""
				switch {
				case sv.Kind == skConst:
					return ret(KBool(strings.HasPrefix(sv.S, pre.S)))
				case sv.Kind == skConcat && len(sv.Parts) > 0:
					if h, ok := sv.Parts[0].(StrV); ok && h.Kind == skConst {
						head = h.S
					}
				}
				if len(head) >= len(pre.S) {
					return ret(KBool(strings.HasPrefix(head, pre.S)))
				}
			}
		}
	case "strings.IndexByte", "strings.Index", "strings.IndexRune":
		// the next separator in what is left of a sentence that is cut word by word (walkCount)
		if sv, ok := args[0].(StrV); ok {
			sep := ""
			switch v := args[1].(type) {
			case StrV:
				if v.Kind == skConst {
					sep = v.S
				}
			case IntV:
				if c, ok := v.Const(); ok && c > 0 && c < 0x80 {
					sep = string(rune(c))
				}
			}
			if toks, k, ok := e.cursorOf(sv); ok && sep != "" {
				if ts, ok := toks.Sep.(StrV); ok && ts.Kind == skConst && ts.S == sep {
					if n, ok := toks.N.Const(); ok {
						if sv.Kind == skTok || k >= n-1 {
							return ret(CInt(-1)) // a token holds no separator; nor does what follows the last one
						}
						r := RangeInt(0, math.MaxInt32)
						r.Sep = &SepRef{Toks: toks, K: k}
						return ret(r)
					}
				}
			}
		}
	case "strings.Count":
		if e.P != nil && e.P.walkCount[x] && e.Ctx != nil && e.Ctx.TokCount != nil {
			// no tokeniser call: the sentence is cut word by word, this count plus one being the
			// number of words.  The tokens are those strings.Split would give (virtual call).
			t := &TokensV{Fn: "strings.Split", In: args[0], Sep: args[1], Site: x, N: CInt(*e.Ctx.TokCount)}
			if e.walkToks == nil {
				e.walkToks = map[string]*TokensV{}
			}
			e.walkToks[args[0].String()] = t
			e.record(fr, x, "strings.Split", nil, args, t, st)
			name = "strings.Count (as tokeniser)"
			return ret(CInt(*e.Ctx.TokCount - 1))
		}
		if e.P != nil && e.P.countOfTok[x] && e.Ctx != nil {
			// one less than the number of tokens the tokeniser call yields for the same operands
			if e.Ctx.TokCount != nil {
				return ret(CInt(*e.Ctx.TokCount - 1))
			}
			if e.Ctx.SizeRange != nil && e.Ctx.SizeKind == "N" {
				return ret(RangeInt(e.Ctx.SizeRange[0]-1, e.Ctx.SizeRange[1]-1))
			}
		}
		return ret(RangeInt(0, math.MaxInt32))
	case "strings.SplitN":
		// below its limit SplitN is Split (the limit against the size gate: G3 split-limit)
		if k, ok := args[2].(IntV); ok {
			if kc, isC := k.Const(); isC && kc > 0 && e.Ctx != nil {
				below := e.Ctx.TokCount != nil && *e.Ctx.TokCount < kc
				if e.Ctx.TokCount == nil && e.Ctx.SizeRange != nil && e.Ctx.SizeKind == "N" && e.Ctx.SizeRange[1] < kc {
					below = true
				}
				if below {
					name = "strings.Split"
					t := &TokensV{Fn: name, In: args[0], Site: x, Sep: args[1]}
					if e.Ctx.TokCount != nil {
						t.N = CInt(*e.Ctx.TokCount)
					} else {
						t.N = RangeInt(e.Ctx.SizeRange[0], e.Ctx.SizeRange[1])
					}
					return ret(t)
				}
			}
		}
		return ret(e.topOf(x.Type(), "strings.SplitN at or above its limit"))
	case "strings.Split", "strings.Fields":
		t := &TokensV{Fn: name, In: args[0], Site: x}
		if name == "strings.Split" {
			t.Sep = args[1]
			t.N = RangeInt(1, 1<<31)
		} else {
			t.N = RangeInt(0, 1<<31)
		}
		if e.Ctx != nil && e.Ctx.TokCount != nil {
			t.N = CInt(*e.Ctx.TokCount)
		} else if e.Ctx != nil && e.Ctx.SizeRange != nil && e.Ctx.SizeKind == "N" {
			t.N = RangeInt(e.Ctx.SizeRange[0], e.Ctx.SizeRange[1])
		}
		return ret(t)
	case "(golang.org/x/text/unicode/norm.Form).String":
		if f, ok := args[0].(IntV); ok {
			if c, ok := f.Const(); ok && c == int64(norm.NFKD) {
				return ret(nfkdOf(args[1]))
			}
		}
		return ret(TopStr("normalisation form other than NFKD of " + shortAV(args[1])))
	case "(golang.org/x/text/unicode/norm.Form).Bytes":
		if f, ok := args[0].(IntV); ok {
			if c, ok := f.Const(); ok && c == int64(norm.NFKD) {
				if b, ok := args[1].(BytesV); ok && b.Str != nil {
					inner := b.Str
					if sv, ok := inner.(StrV); ok && sv.Kind == skConst {
						return ret(BytesV{Src: "conv", Str: CStr(norm.NFKD.String(sv.S))})
					}
					return ret(BytesV{Src: "conv", Str: StrV{Kind: skNFKD, X: inner}})
				}
			}
		}
		return ret(BytesV{Src: "⊤: normalisation of " + shortAV(args[1])})
	case "(golang.org/x/text/unicode/norm.Form).AppendString", "(golang.org/x/text/unicode/norm.Form).Append":
		// f.Append(out, src...) = f(out ++ src); with an empty out that is f(src) in a fresh or reused buffer
		if f, ok := args[0].(IntV); ok {
			if c, ok := f.Const(); ok && c == int64(norm.NFKD) && len(args) == 3 {
				empty := false
				switch d := args[1].(type) {
				case NilV:
					empty = true
				case BytesV:
					dd := e.resolveBytes(d, st)
					empty = dd.LenKnown && dd.Len == K(0) && d.Param == nil
				}
				var inner AV
				switch sv := args[2].(type) {
				case StrV:
					inner = sv
				case BytesV:
					if sv.Str != nil {
						inner = sv.Str
					}
				}
				if empty && inner != nil {
					if sv, ok := inner.(StrV); ok && sv.Kind == skConst {
						return ret(BytesV{Src: "conv", Str: CStr(norm.NFKD.String(sv.S))})
					}
					return ret(BytesV{Src: "conv", Str: StrV{Kind: skNFKD, X: inner}})
				}
				// a destination that holds a constant ASCII text: ASCII characters are starters
				// and NFKD composes nothing, so NFKD(out ++ src) is out followed by NFKD(src)
				if d, ok := args[1].(BytesV); ok && inner != nil && d.Param == nil {
					dd := e.resolveBytes(d, st)
					if pre, ok := dd.Str.(StrV); ok && pre.Kind == skConst && isASCII(pre.S) {
						var tail AV = StrV{Kind: skNFKD, X: inner}
						if sv, ok := inner.(StrV); ok && sv.Kind == skConst {
							tail = CStr(norm.NFKD.String(sv.S))
						}
						return ret(BytesV{Src: "conv", Str: StrV{Kind: skConcat, Parts: []AV{pre, tail}}})
					}
				}
			}
		}
		if d, ok := args[1].(BytesV); ok {
			e.escape(fr, st, d, "norm.Append destination")
		}
		return ret(BytesV{Src: "⊤: normalisation appended to " + shortAV(args[1])})
	case "fmt.Sprintf":
		// the text with its arguments in place: constant pieces and the argument values
		if f, ok := args[0].(StrV); ok && f.Kind == skConst {
			var va []AV
			if len(args) > 1 {
				if sv, ok := args[1].(SliceV); ok {
					if vc, ok := st[sv.O].(VecC); ok {
						va = vc.Elems
					}
				}
			}
			if parts, ok := formatParts(f.S, va); ok {
				switch len(parts) {
				case 0:
					return ret(CStr(""))
				case 1:
					if sv, ok := parts[0].(StrV); ok {
						return ret(sv)
					}
				}
				return ret(StrV{Kind: skConcat, Parts: parts})
			}
		}
		return ret(TopStr("fmt.Sprintf"))
	case "errors.New":
		s, _ := args[0].(StrV)
		if s.Kind == skConcat {
			// a message built by concatenation: the constant pieces form the text, the others are its arguments
			ev := ErrV{Kind: ekFresh, Site: x}
			for _, p := range s.Parts {
				if ps, ok := p.(StrV); ok && ps.Kind == skConst {
					ev.Format += strings.ReplaceAll(ps.S, "%", "%%")
				} else {
					ev.Format += "%v"
					ev.Args = append(ev.Args, p)
				}
			}
			return ret(ev)
		}
		return ret(ErrV{Kind: ekFresh, Format: s.S, Site: x})
	case "fmt.Errorf":
		return ret(e.errorf(fr, x, args, st))
	case "strconv.FormatInt":
		if b, ok := args[1].(IntV); ok {
			if c, ok := b.Const(); ok && c == 10 {
				return ret(StrV{Kind: skDecimal, X: args[0]})
			}
		}
		return ret(TopStr("FormatInt with another base"))
	case "strconv.Itoa":
		return ret(StrV{Kind: skDecimal, X: args[0]})
	case "io.ReadFull", "io.ReadAtLeast":
		info := ReadInfo{Callee: name, Reader: args[0], Instr: x}
		if b, ok := args[1].(BytesV); ok && b.Obj != nil {
			cur := e.resolveBytes(b, st)
			full := name == "io.ReadFull"
			if !full && len(args) == 3 {
				if m, ok := args[2].(IntV); ok && m.Kind == ikLin && cur.LenKnown && m.L == cur.Len {
					full = true
				}
			}
			whole := b.LenKnown && cur.LenKnown && b.Len == cur.Len
			fresh := cur.Src == "zero" && b.Obj.Kind == okBuf
			info.Full, info.Whole, info.Fresh = full, whole, fresh
			n := BytesV{LenKnown: cur.LenKnown, Len: cur.Len, Src: "⊤: partially filled by " + name}
			if full && whole && cur.LenKnown && cur.Len.Const() {
				// the buffer holds exactly the bytes delivered — on the path where the error is nil
				n.Src = "read(" + args[0].String() + ")"
				n.HasVal, n.Val = true, SymL("E", 8*cur.Len.A)
				n.Pending = x
			}
			e.setContent(fr, st, b.Obj, BufC{n})
		} else if b, ok := args[1].(BytesV); ok && b.WinOf != nil && b.WinConst && st[b.WinOf] != nil {
			// the target is bytes [off, off+n) of a buffer (`var buf [32]byte; io.ReadFull(r, buf[:n])`)
			bc, _ := st[b.WinOf].(BufC)
			cur := bc.B
			full := name == "io.ReadFull"
			if !full && len(args) == 3 {
				if m, ok := args[2].(IntV); ok && m.Kind == ikLin && m.L == K(b.WinN) {
					full = true
				}
			}
			fresh := cur.Src == "zero" && b.WinOf.Kind == okBuf
			info.Full, info.Whole, info.Fresh = full, true, fresh
			done := false
			if full && cur.LenKnown && cur.Len.Const() && cur.HasVal && !cur.Min && cur.Pending == nil {
				if l, okw := WriteBytes(cur.Val, cur.Len.A, b.WinOff, b.WinN, SymL("E", 8*b.WinN)); okw {
					n := cur
					n.Val, n.Str, n.CopyOf = l, nil, nil
					n.Src = "read(" + args[0].String() + ")"
					n.Pending = x
					e.setContent(fr, st, b.WinOf, BufC{n})
					done = true
				}
			}
			if !done {
				e.writeWindow(fr, st, b, nil, false, "partially filled by "+name)
			}
		} else {
			e.escape(fr, st, args[1], name)
			if b, ok := args[1].(BytesV); !ok || (b.WinOf == nil && b.Param == nil) {
				e.clobber(fr, st, name+" into a slice that is not resolved", okBuf, okCell)
			}
		}
		e.Reads = append(e.Reads, info)
		// what the current path knows about this call's error: nothing yet (present on every
		// path from here on, so that a merge of tested and untested paths forgets it)
		if e.errObj == nil {
			e.errObj = map[ssa.Instruction]*Obj{}
		}
		if e.errObj[x] == nil {
			e.errObj[x] = e.newObj(okCell, x, "outcome of "+name)
		}
		e.setContentFresh(st, e.errObj[x], CellC{BoolV{}})
		return ret(TupleV{RangeInt(0, 1<<31), ErrV{Kind: ekFrom, From: name, Site: x}})
	case "golang.org/x/crypto/pbkdf2.Key":
		r := BytesV{Src: "pbkdf2.Key"}
		if n, ok := args[3].(IntV); ok && n.Kind == ikLin {
			r.LenKnown, r.Len = true, n.L
		}
		// a fresh slice: an object of its own, so that what is returned can be identified with it
		o := e.newObj(okBuf, x, "result of pbkdf2.Key")
		e.setContentFresh(st, o, BufC{r})
		r.Obj = o
		return ret(r)
	case "net/http.Get":
		return ret(TupleV{ResV{Kind: "http.Response", A: args[0], Site: x}, e.fallible(x, name, st)})
	case "flag.String":
		// a command-line option: the analysis judges the program as run with its defaults
		if d, ok := args[1].(StrV); ok && d.Kind == skConst {
			return ret(PtrV{Ext: d})
		}
	case "flag.Bool":
		if d, ok := args[1].(BoolV); ok && d.Known {
			return ret(PtrV{Ext: d})
		}
	case "flag.Int", "flag.Int64", "flag.Uint", "flag.Uint64", "flag.Duration":
		if d, ok := args[1].(IntV); ok {
			if _, isC := d.Const(); isC {
				return ret(PtrV{Ext: d})
			}
		}
	case "path/filepath.Join", "path.Join":
		// two clean components: dir + "/" + file
		if vs, ok := args[0].(SliceV); ok {
			if vc, ok := st[vs.O].(VecC); ok && len(vc.Elems) == 2 {
				d, okd := vc.Elems[0].(StrV)
				f, okf := vc.Elems[1].(StrV)
				if okd && okf && d.Kind == skConst && d.S != "" && !strings.HasSuffix(d.S, "/") && !strings.Contains(d.S, "..") && !strings.Contains(d.S, "//") && !strings.HasPrefix(d.S, "./") {
					return ret(StrV{Kind: skConcat, Parts: []AV{d, CStr("/"), f}})
				}
			}
		}
	case "net/http.NewRequestWithContext", "net/http.NewRequest":
		// a GET request for a URL (any other method is not a download: unknown)
		mi, ui := 0, 1
		if name == "net/http.NewRequestWithContext" {
			mi, ui = 1, 2
		}
		if m, ok := args[mi].(StrV); ok && m.Kind == skConst && (m.S == "GET" || m.S == "") {
			if _, isNil := args[ui+1].(NilV); isNil {
				// the cell remembers whether anything but the URL was touched (headers, body, …)
				o := e.newObj(okCell, x, "http.Request modified")
				e.setContentFresh(st, o, CellC{KBool(false)})
				return ret(TupleV{ResV{Kind: "http.Request", A: args[ui], O: o, Site: x}, e.fallible(x, name, st)})
			}
		}
		return ret(TupleV{e.topOf(callee.Signature.Results().At(0).Type(), "request"), e.fallible(x, name, st)})
	case "(*net/http.Client).Do":
		if rq, ok := args[1].(ResV); ok && rq.Kind == "http.Request" && rq.O != nil {
			// only a request that is exactly "GET url" is the download the rules know
			if c, ok := st[rq.O].(CellC); ok {
				if b, ok := c.V.(BoolV); ok && b.Known && !b.Val {
					return ret(TupleV{ResV{Kind: "http.Response", A: rq.A, Site: x}, e.fallible(x, name, st)})
				}
			}
		}
		return ret(TupleV{e.topOf(callee.Signature.Results().At(0).Type(), "response"), e.fallible(x, name, st)})
	case "(*net/http.Client).Get":
		// a client of the program's own (timeouts, transport): the same request for the same URL
		return ret(TupleV{ResV{Kind: "http.Response", A: args[1], Site: x}, e.fallible(x, name, st)})
	case "io.LimitReader":
		// io.LimitReader(resp.Body, n): at most the first n bytes of the download
		if rv, ok := args[0].(ResV); ok && rv.Kind == "http.Body" {
			if n, ok := args[1].(IntV); ok {
				if k, isC := n.Const(); isC && k > 0 {
					return ret(ResV{Kind: "http.BodyLimited", A: rv.A, Flags: CInt(k), Site: x})
				}
			}
		}
	case "io/ioutil.ReadAll", "io.ReadAll":
		if rv, ok := args[0].(ResV); ok && rv.Kind == "http.BodyLimited" {
			// the first n bytes of the download: all of it only where the program has seen that
			// fewer than n arrived (refineOnEdge, on a comparison of len of this very slice)
			k, _ := rv.Flags.(IntV).Const()
			b := BytesV{Src: fmt.Sprintf("⊤: at most the first %d bytes of the download (io.LimitReader): a longer list is cut short unless the length read is compared with the limit", k)}
			o := e.newObj(okBuf, x, "downloaded bytes, limited")
			e.setContentFresh(st, o, BufC{b})
			if e.limited == nil {
				e.limited = map[*Obj]limitedRead{}
			}
			e.limited[o] = limitedRead{N: k, URL: rv.A}
			b.Obj = o
			return ret(TupleV{b, e.fallible(x, name, st)})
		}
		if rv, ok := args[0].(ResV); ok && rv.Kind == "http.Body" {
			b := BytesV{Src: "download", Str: StrV{Kind: skSrc, S: "download", X: rv.A}}
			o := e.newObj(okBuf, x, "downloaded bytes")
			e.setContentFresh(st, o, BufC{b})
			b.Obj = o
			return ret(TupleV{b, e.fallible(x, name, st)})
		}
		return ret(TupleV{BytesV{Src: "⊤: ReadAll of " + shortAV(args[0])}, e.fallible(x, name, st)})
	case "os.OpenFile":
		return ret(TupleV{ResV{Kind: "os.File", A: args[0], Flags: args[1], Site: x}, e.fallible(x, name, st)})
	case "os.CreateTemp", "io/ioutil.TempFile":
		return ret(TupleV{ResV{Kind: "os.File", A: TempNameV{Site: x}, Temp: true, Site: x}, e.fallible(x, name, st)})
	case "(*os.File).Name":
		if f, ok := args[0].(ResV); ok && f.Kind == "os.File" {
			return ret(f.A)
		}
	case "os.Rename":
		return ret(e.fallible(x, name, st))
	case "os.Create":
		return ret(TupleV{ResV{Kind: "os.File", A: args[0], Site: x}, e.fallible(x, name, st)})
	case "bytes.NewReader", "strings.NewReader", "bytes.NewBuffer", "bytes.NewBufferString":
		// an in-memory reader over a known text
		switch a0 := args[0].(type) {
		case BytesV:
			if a0.Str != nil {
				return ret(ResV{Kind: "mem.Reader", A: a0.Str, Site: x})
			}
		case StrV:
			return ret(ResV{Kind: "mem.Reader", A: a0, Site: x})
		}
	case "bufio.NewScanner":
		if rv, ok := args[0].(ResV); ok && (rv.Kind == "mem.Reader" || rv.Kind == "http.Body") {
			var text AV = rv.A
			if rv.Kind == "http.Body" {
				text = StrV{Kind: skSrc, S: "download", X: rv.A}
			}
			o := e.newObj(okCell, x, "scanner splits lines and has not been read from")
			e.setContentFresh(st, o, CellC{KBool(true)})
			return ret(ResV{Kind: "bufio.Scanner", A: text, O: o, Site: x})
		}
	case "(*bufio.Scanner).Buffer":
		return ret(TupleV{})
	case "(*bufio.Scanner).Err":
		return ret(e.fallible(x, name, st))
	case "(*bufio.Scanner).Split", "(*bufio.Scanner).Scan", "(*bufio.Scanner).Text", "(*bufio.Scanner).Bytes":
		// outside the recognised loop: what the scanner yields from here on is not modelled
		if rv, ok := args[0].(ResV); ok && rv.O != nil {
			e.setContent(fr, st, rv.O, CellC{KBool(false)})
		}
	case "bufio.NewWriter", "bufio.NewWriterSize":
		o := e.newObj(okCell, x, "bufio.Writer has unflushed data")
		e.setContentFresh(st, o, CellC{KBool(false)})
		return ret(ResV{Kind: "bufio.Writer", A: args[0], O: o, Site: x})
	case "(*bufio.Writer).Write", "(*bufio.Writer).WriteString":
		// data waits in the writer until it is flushed
		if rv, ok := args[0].(ResV); ok && rv.O != nil {
			e.setContent(fr, st, rv.O, CellC{KBool(true)})
		}
		return ret(TupleV{RangeInt(0, math.MaxInt32), e.fallible(x, name, st)})
	case "(*bufio.Writer).Flush":
		if rv, ok := args[0].(ResV); ok && rv.O != nil {
			e.setContent(fr, st, rv.O, CellC{KBool(false)})
		}
		return ret(e.fallible(x, name, st))
	case "(*bytes.Buffer).WriteString", "(*bytes.Buffer).WriteByte", "(*bytes.Buffer).WriteRune", "(*bytes.Buffer).Write":
		// the generator writing a file by hand: the pieces are kept (bufferRendered)
		if rv, ok := args[0].(ResV); ok && rv.Kind == "bytes.Buffer" && rv.O != nil {
			var piece AV = TopStr("written to the buffer")
			switch v := args[1].(type) {
			case StrV:
				piece = v
			case IntV:
				if c, ok := v.Const(); ok && c >= 0 && c < 0x110000 && callee.Name() != "Write" {
					piece = CStr(string(rune(c)))
				}
			case BytesV:
				if sv, ok := e.resolveBytes(v, st).Str.(StrV); ok {
					piece = sv
				}
			}
			e.bufferAppend(fr, st, rv.O, piece)
			if callee.Name() == "WriteByte" {
				return ret(ErrV{Kind: ekNil})
			}
			return ret(TupleV{RangeInt(0, math.MaxInt32), ErrV{Kind: ekNil}})
		}
	case "fmt.Fprintf", "fmt.Fprint", "fmt.Fprintln", "io.WriteString":
		if rv, ok := args[0].(ResV); ok && rv.Kind == "bytes.Buffer" && rv.O != nil {
			var pieces []AV
			okP := false
			switch name {
			case "io.WriteString":
				if sv, ok := args[1].(StrV); ok {
					pieces, okP = []AV{sv}, true
				}
			case "fmt.Fprintf":
				if f, ok := args[1].(StrV); ok && f.Kind == skConst {
					var va []AV
					if len(args) > 2 {
						if sv, ok := args[2].(SliceV); ok {
							if vc, ok := st[sv.O].(VecC); ok {
								va = vc.Elems
							}
						}
					}
					pieces, okP = formatParts(f.S, va)
				}
			}
			if !okP {
				pieces = []AV{TopStr("formatted text")}
			}
			for _, pc := range pieces {
				e.bufferAppend(fr, st, rv.O, pc)
			}
			return ret(TupleV{RangeInt(0, math.MaxInt32), ErrV{Kind: ekNil}})
		}
	case "strconv.Quote":
		if sv, ok := args[0].(StrV); ok {
			return ret(StrV{Kind: skTop, S: "strconv.Quote", X: sv})
		}
	case "(*bytes.Buffer).Bytes", "(*bytes.Buffer).String":
		if rv, ok := args[0].(ResV); ok && rv.Kind == "bytes.Buffer" && rv.O != nil {
			if c, ok := st[rv.O].(CellC); ok {
				if r, ok := c.V.(RenderedV); ok {
					return ret(r)
				}
				if bp, ok := c.V.(BufPartsV); ok {
					if qr := bufferRendered(bp, x); qr != nil {
						e.QuoteRenders = append(e.QuoteRenders, QuoteRec{Render: qr, Buf: rv, State: st.clone()})
						return ret(RenderedV{Buf: rv.O, Exec: x, Quote: qr})
					}
				}
			}
		}
		return ret(e.topOf(x.Type(), "content of a buffer"))
	case "(*bytes.Buffer).Len", "(*bytes.Buffer).Cap":
		return ret(RangeInt(0, math.MaxInt32))
	case "os.WriteFile", "io/ioutil.WriteFile":
		return ret(e.fallible(x, name, st))
	case "(*os.File).Write":
		return ret(TupleV{RangeInt(0, math.MaxInt32), e.fallible(x, name, st)})
	case "go/format.Source":
		// gofmt of a rendered file: the same tokens, white space changed (trusted); fails if the
		// rendering is not valid Go
		if rv, ok := args[0].(RenderedV); ok {
			rv.Formatted = true
			return ret(TupleV{rv, e.fallible(x, name, st)})
		}
		return ret(TupleV{e.topOf(callee.Signature.Results().At(0).Type(), "formatted source"), e.fallible(x, name, st)})
	case "(*html/template.Template).Execute", "(*text/template.Template).Execute":
		if rv, ok := args[1].(ResV); ok && rv.Kind == "bytes.Buffer" && rv.O != nil {
			if c, ok := st[rv.O].(CellC); ok {
				if sv, ok := c.V.(StrV); ok && sv.Kind == skConst && sv.S == "" {
					e.setContent(fr, st, rv.O, CellC{RenderedV{Buf: rv.O, Exec: x}})
				} else {
					e.setContent(fr, st, rv.O, CellC{CStr("other")})
				}
			}
		} else if rv, ok := args[1].(ResV); ok && rv.O != nil {
			e.setContent(fr, st, rv.O, CellC{KBool(true)})
		}
		if len(args) > 2 {
			if pv, ok := args[2].(PtrV); ok && pv.O != nil {
				if vc, ok := st[pv.O].(VecC); ok {
					args = append(append([]AV{}, args[:2]...), VecV{append([]AV{}, vc.Elems...)})
				}
			}
		}
		return ret(e.fallible(x, name, st))
	case "(*sync.Pool).Get":
		// a typed free list (poolTypes): a *T whose content is whatever an earlier user left
		if pv, ok := args[0].(PtrV); ok && pv.G != nil && e.G != nil {
			if pt, ok := e.G.PoolElem[pv.G].(*types.Pointer); ok {
				if at, ok := pt.Elem().Underlying().(*types.Array); ok {
					if b, ok := at.Elem().Underlying().(*types.Basic); ok && b.Kind() == types.Uint8 {
						o := e.newObj(okCell, x, "byte array")
						// its bytes are a symbol of their own: whatever is read before it is overwritten
						// shows up as those bits in the layouts (and matches nothing the rules expect)
						e.setContentFresh(st, o, CellC{BytesV{LenKnown: true, Len: K(at.Len()), HasVal: true, Val: SymL(fmt.Sprintf("stale%d", o.ID), 8*at.Len()), Src: "a buffer from a sync.Pool (left by an earlier user)"}})
						if e.poolObj == nil {
							e.poolObj = map[*Obj]types.Type{}
						}
						e.poolObj[o] = pt
						return ret(PtrV{O: o})
					}
				}
			}
		}
	case "(*sync.Pool).Put":
		if pv, ok := args[0].(PtrV); ok && pv.G != nil && e.G != nil && e.G.PoolElem[pv.G] != nil {
			return ret(TupleV{}) // handed back; whoever gets it next knows nothing about its content
		}
	case "(*sync.Once).Do":
		if fv, ok := args[1].(FuncV); ok {
			for i, b := range fv.Bindings {
				// a captured variable the function only reads keeps its value; one it assigns,
				// or hands on, is unknown afterwards (the function may or may not have run here)
				if fv.Fn != nil && i < len(fv.Fn.FreeVars) && onlyLoaded(fv.Fn.FreeVars[i]) {
					continue
				}
				e.escape(fr, st, b, "captured by a Once function")
			}
		}
		return ret(TupleV{})
	}
	if strings.HasSuffix(name, ".init") && len(args) == 0 {
		return ret(TupleV{})
	}
	// library calls with an integer precondition whose violation panics
	if name == "strings.Repeat" || name == "bytes.Repeat" {
		if n, ok := args[1].(IntV); ok {
			lo, _, okb := n.Bounds(fr.T())
			switch {
			case !okb:
				e.event("P3", Undecided, x, "%s: count %v not shown to be non-negative (a negative count panics)", name, n)
			case lo < 0:
				e.event("P3", Violated, x, "%s: count can be negative (%v): panics", name, n)
			default:
				e.event("P3", Discharged, x, "%s: count >= %d", name, lo)
			}
		}
	}
	if !isReadOnly(name) {
		for _, a := range args {
			e.escape(fr, st, a, "passed to "+name)
			if rv, ok := a.(ResV); ok && rv.Kind == "bytes.Buffer" && rv.O != nil {
				e.setContent(fr, st, rv.O, CellC{CStr("other")})
			}
			if rv, ok := a.(ResV); ok && rv.Kind == "http.Request" && rv.O != nil {
				e.setContent(fr, st, rv.O, CellC{KBool(true)})
			}
		}
	}
	if name == "log.Fatal" || name == "log.Fatalf" || name == "log.Fatalln" || name == "os.Exit" || name == "log.Panic" || name == "log.Panicf" || name == "log.Panicln" {
		e.event("P1", Violated, x, "reachable call of %s", name)
	}
	if strings.Contains(callee.Name(), "Must") {
		e.event("P1", Violated, x, "reachable call of %s (panics on error)", name)
	}
	// an unmodelled external function whose last result is an error: that error comes from this call
	if sig := callee.Signature.Results(); sig.Len() > 0 && isErrorType(sig.At(sig.Len()-1).Type()) {
		if sig.Len() == 1 {
			return ret(e.fallible(x, name, st))
		}
		out := make(TupleV, sig.Len())
		for i := 0; i < sig.Len()-1; i++ {
			out[i] = e.topOf(sig.At(i).Type(), "call "+name)
		}
		out[sig.Len()-1] = e.fallible(x, name, st)
		return ret(out)
	}
	return ret(e.topOf(x.Type(), "call "+name))
}

// onlyLoaded: every use of the captured variable's cell is a load of its value.
func onlyLoaded(fv *ssa.FreeVar) bool {
	refs := fv.Referrers()
	if refs == nil {
		return true
	}
	for _, r := range *refs {
		switch x := r.(type) {
		case *ssa.DebugRef:
		case *ssa.UnOp:
			if x.Op != token.MUL {
				return false
			}
		default:
			return false
		}
	}
	return true
}

// fallible gives the error result of a call that can fail: unknown now, refined on the
// edges where it is compared with nil.
func (e *Eval) fallible(x ssa.Instruction, name string, st State) ErrV {
	if e.errObj == nil {
		e.errObj = map[ssa.Instruction]*Obj{}
	}
	if e.errObj[x] == nil {
		e.errObj[x] = e.newObj(okCell, x, "outcome of "+name)
	}
	e.setContentFresh(st, e.errObj[x], CellC{BoolV{}})
	return ErrV{Kind: ekFrom, From: name, Site: x}
}

func (e *Eval) errorf(fr *frame, x *ssa.Call, args []AV, st State) AV {
	f, _ := args[0].(StrV)
	var va []AV
	if len(args) > 1 {
		if sv, ok := args[1].(SliceV); ok {
			if vc, ok := st[sv.O].(VecC); ok {
				va = vc.Elems
			}
		}
	}
	if f.Kind != skConst {
		return ErrV{Kind: ekUnknown, NonNil: true, Site: x}
	}
	// walk the verbs
	argi := 0
	var wrapped *ErrV
	s := f.S
	for i := 0; i < len(s); i++ {
		if s[i] != '%' {
			continue
		}
		j := i + 1
		for j < len(s) && strings.ContainsRune("+-# 0123456789.[]*", rune(s[j])) {
			j++
		}
		if j >= len(s) {
			break
		}
		if s[j] == '%' {
			i = j
			continue
		}
		if s[j] == 'w' && argi < len(va) {
			if ev, ok := va[argi].(ErrV); ok && ev.Kind == ekSentinel {
				w := ev
				wrapped = &w
			}
		}
		argi++
		i = j
	}
	if wrapped != nil {
		return ErrV{Kind: ekWrap, G: wrapped.G, Format: f.S, Args: va, Site: x}
	}
	return ErrV{Kind: ekFresh, Format: f.S, Args: va, Site: x}
}

// formatParts splits a constant format into its literal pieces and the arguments its verbs
// consume, in order.  Only the plain verbs (%s %v %d %q %x with flags/width) are understood.
func formatParts(f string, va []AV) ([]AV, bool) {
	var parts []AV
	lit := ""
	flush := func() {
		if lit != "" {
			parts = append(parts, CStr(lit))
			lit = ""
		}
	}
	argi := 0
	for i := 0; i < len(f); i++ {
		if f[i] != '%' {
			lit += string(f[i])
			continue
		}
		j := i + 1
		for j < len(f) && strings.ContainsRune("+-# 0123456789.", rune(f[j])) {
			j++
		}
		if j >= len(f) {
			return nil, false
		}
		switch f[j] {
		case '%':
			lit += "%"
		case 's', 'v', 'd', 'q', 'x', 'X', 'w', 't', 'c':
			if argi >= len(va) || va[argi] == nil {
				return nil, false
			}
			flush()
			a := va[argi]
			if sv, ok := a.(StrV); ok && f[j] != 'q' && j == i+1 {
				parts = append(parts, sv)
			} else {
				parts = append(parts, StrV{Kind: skTop, S: fmt.Sprintf("%%%c of %v", f[j], a), X: a})
			}
			argi++
		default:
			return nil, false
		}
		i = j
	}
	flush()
	return parts, true
}

// bigMethod models the math/big methods the encoders use.  args[0] is the receiver.
func (e *Eval) bigMethod(fr *frame, x *ssa.Call, m string, args []AV, st State) AV {
	T := fr.T()
	set := func(z AV, c BigC) AV {
		if p, ok := z.(PtrV); ok && p.O != nil {
			if _, local := st[p.O]; local {
				e.setContent(fr, st, p.O, c)
				return z
			}
			e.event("E1", Violated, x, "math/big method %s writes a big.Int that is not local to the call", m)
			return z
		}
		if p, ok := z.(PtrV); ok && p.G != nil {
			e.event("E1", Violated, x, "math/big method %s writes package-level variable %s", m, p.G.Name())
			return z
		}
		// the receiver is not a pointer the analysis resolved: any tracked big.Int may be the target
		e.clobber(fr, st, "big.Int written through an unresolved pointer", okBig)
		return z
	}
	get := func(i int) BigC {
		if i >= len(args) {
			return BigTop("missing operand")
		}
		c, _, _ := e.bigOf(args[i], st)
		return c
	}
	divisor := func(d BigC) (int64, bool) {
		switch d.Kind {
		case bkConst:
			if d.C.Sign() == 0 {
				e.event("P3", Violated, x, "big.Int.%s: division by zero", m)
				return 0, false
			}
			e.event("P3", Discharged, x, "big.Int.%s: divisor %v", m, d.C)
			if d.C.IsInt64() {
				if k, ok := log2exact(d.C.Int64()); ok {
					return k, true
				}
			}
			return 0, false
		}
		e.event("P3", Undecided, x, "big.Int.%s: divisor %v not shown to be non-zero", m, d)
		return 0, false
	}
	switch m {
	case "SetBytes":
		b, _ := args[1].(BytesV)
		b = e.resolveBytes(b, st)
		if b.HasVal {
			return set(args[0], BigLayout(b.Val))
		}
		return set(args[0], BigTop("SetBytes of "+b.String()))
	case "SetInt64", "SetUint64":
		iv, _ := args[1].(IntV)
		if c, ok := iv.Const(); ok && c >= 0 {
			return set(args[0], BigConst(big.NewInt(c)))
		}
		if iv.Kind == ikBits {
			return set(args[0], BigLayout(iv.Bits))
		}
		return set(args[0], BigTop("Set of "+iv.String()))
	case "Set":
		return set(args[0], get(1))
	case "Lsh", "Rsh":
		xv := get(1)
		n, _ := args[2].(IntV)
		lo, hi, okb := n.Bounds(T)
		switch {
		case !okb:
			e.event("P3", Undecided, x, "big.Int.%s: shift count %v not bounded", m, n)
		case lo < 0 || hi > 1<<16:
			e.event("P3", Violated, x, "big.Int.%s: shift count %v outside [0,65536]", m, n)
		default:
			e.event("P3", Discharged, x, "big.Int.%s: shift count in [%d,%d]", m, lo, hi)
		}
		l, ok := xv.asLayout()
		if !ok || n.Kind != ikLin {
			return set(args[0], BigTop(m+" of "+xv.String()))
		}
		if m == "Lsh" {
			return set(args[0], BigLayout(l.Shl(n.L)))
		}
		if !n.L.Const() {
			// a window at an offset that moves with the loop counter: keep a reference to the
			// (loop-invariant) value and resolve the offset per position when the loop is summarised
			if !termMentionsX(l) && !l.DependsOnT() {
				if e.refs == nil {
					e.refs = map[string]Layout{}
				}
				name := fmt.Sprintf("R%d", len(e.refs)+1)
				for k, v := range e.refs {
					if v.Equal(l) {
						name = k
					}
				}
				e.refs[name] = l.Norm()
				return set(args[0], BigLayout(Layout{{W: K(INF), Sym: name, Lo: n.L}}))
			}
			return set(args[0], BigTop("Rsh by a count that varies"))
		}
		if r, ok := l.Shr(n.L.A); ok {
			return set(args[0], BigLayout(r))
		}
		return set(args[0], BigTop("Rsh"))
	case "Quo", "Div":
		xv, d := get(1), get(2)
		k, ok := divisor(d)
		if l, okl := xv.asLayout(); ok && okl {
			if r, ok := l.Shr(k); ok {
				return set(args[0], BigLayout(r))
			}
		}
		return set(args[0], BigTop(m+" by "+d.String()))
	case "Rem", "Mod":
		xv, d := get(1), get(2)
		k, ok := divisor(d)
		if l, okl := xv.asLayout(); ok && okl {
			if r, ok := l.Low(k); ok {
				return set(args[0], BigLayout(r))
			}
		}
		return set(args[0], BigTop(m+" by "+d.String()))
	case "QuoRem", "DivMod":
		xv := get(1)
		k, ok := divisor(get(2))
		if l, okl := xv.asLayout(); ok && okl && len(args) > 3 {
			q, okq := l.Shr(k)
			rm, okr := l.Low(k)
			if okq && okr {
				set(args[0], BigLayout(q))
				set(args[3], BigLayout(rm))
				return TupleV{args[0], args[3]}
			}
		}
		set(args[0], BigTop(m))
		if len(args) > 3 {
			set(args[3], BigTop(m))
		}
		return TupleV{args[0], TopV{m}}
	case "ModInverse", "Exp", "Sqrt", "ModSqrt", "GCD":
		return set(args[0], BigTop(m))
	case "And":
		xv, yv := get(1), get(2)
		for _, pair := range [][2]BigC{{xv, yv}, {yv, xv}} {
			if pair[1].Kind == bkConst && pair[1].C.IsInt64() {
				if k, ok := maskWidth(pair[1].C.Int64()); ok {
					if l, okl := pair[0].asLayout(); okl {
						if r, ok := l.Low(k); ok {
							return set(args[0], BigLayout(r))
						}
					}
				}
			}
		}
		return set(args[0], BigTop("And of "+xv.String()+" and "+yv.String()))
	case "Add", "Or", "Xor":
		xv, yv := get(1), get(2)
		lx, okx := xv.asLayout()
		ly, oky := yv.asLayout()
		if okx && oky {
			if r, ok := AddDisjoint(lx, ly); ok {
				return set(args[0], BigLayout(r))
			}
			if m == "Add" || m == "Or" {
				return set(args[0], BigC{Kind: bkSum, Base: lx.Norm(), Term: ly.Norm()})
			}
		}
		if xv.Kind == bkConst && yv.Kind == bkConst && m == "Add" {
			return set(args[0], BigConst(new(big.Int).Add(xv.C, yv.C)))
		}
		return set(args[0], BigTop(m+" of "+xv.String()+" and "+yv.String()))
	case "Mul":
		xv, yv := get(1), get(2)
		for _, pair := range [][2]BigC{{xv, yv}, {yv, xv}} {
			if pair[1].Kind == bkConst && pair[1].C.IsInt64() {
				if k, ok := log2exact(pair[1].C.Int64()); ok {
					if l, okl := pair[0].asLayout(); okl {
						return set(args[0], BigLayout(l.Shl(K(k))))
					}
				}
			}
		}
		return set(args[0], BigTop("Mul"))
	case "Sub", "Neg", "Not", "AndNot", "SetBit", "SetString", "Abs", "Rand", "Binomial", "MulRange", "SetBits":
		return set(args[0], BigTop(m))
	case "Int64", "Uint64":
		c := get(0)
		if c.Kind == bkConst && c.C.IsInt64() {
			return CInt(c.C.Int64())
		}
		if l, ok := c.asLayout(); ok {
			if w, ok := l.Width(); ok && w <= 63 {
				return BitsInt(l)
			}
		}
		return TopInt(m + " of " + c.String())
	case "Cmp", "CmpAbs":
		return CmpV{get(0), get(1)}
	case "Bytes":
		c := get(0)
		if l, ok := c.asLayout(); ok {
			return BytesV{Min: true, HasVal: true, Val: l, Src: "big.Int.Bytes", LenMin: &MinLen{Coef: 1, Sym: l.String(), Val: l}}
		}
		if c.Kind == bkConst {
			return BytesV{LenKnown: true, Len: K(int64(len(c.C.Bytes()))), Src: "bytes of constant"}
		}
		return BytesV{Min: true, Src: "⊤: Bytes of " + c.String()}
	case "FillBytes":
		c := get(0)
		b, _ := args[1].(BytesV)
		cur := e.resolveBytes(b, st)
		l, okl := c.asLayout()
		w, okw := int64(0), false
		if okl {
			w, okw = l.Width()
		}
		switch {
		case !cur.LenKnown || !cur.Len.Const() || !okw:
			e.event("P3", Undecided, x, "FillBytes: cannot show that the value (%v) fits the buffer (%v)", c, cur)
		case w > 8*cur.Len.A:
			e.event("P3", Violated, x, "FillBytes: a %d-bit value does not fit %d bytes (panics)", w, cur.Len.A)
		default:
			e.event("P3", Discharged, x, "FillBytes: %d bits into %d bytes", w, cur.Len.A)
		}
		if b.Obj != nil {
			n := BytesV{LenKnown: cur.LenKnown, Len: cur.Len, Src: "FillBytes"}
			whole := b.LenKnown && cur.LenKnown && b.Len == cur.Len
			if okl && whole {
				n.HasVal, n.Val = true, l
			} else {
				n.Src = "⊤: FillBytes"
			}
			e.setContent(fr, st, b.Obj, BufC{n})
		} else if b.Param != nil {
			e.event("F4", Violated, x, "FillBytes into caller-owned slice %s", b.Param.Name())
		}
		if b.Obj == nil && b.WinOf != nil {
			fits := okl && okw && cur.LenKnown && cur.Len.Const() && w <= 8*cur.Len.A
			e.writeWindow(fr, st, b, l, fits, "FillBytes")
		}
		if b.Obj == nil && b.WinOf == nil && b.Param == nil {
			e.clobber(fr, st, "FillBytes into a slice that is not resolved", okBuf, okCell)
		}
		return args[1]
	case "Bits":
		if p, ok := args[0].(PtrV); ok && p.O != nil && p.O.Kind == okBig {
			return LimbsV{Of: p.O}
		}
	case "BitLen":
		c := get(0)
		if c.Kind == bkConst {
			return CInt(int64(c.C.BitLen()))
		}
		if l, ok := c.asLayout(); ok {
			if w, ok := l.Width(); ok {
				return RangeInt(0, w) // the layout bounds the magnitude: at most w significant bits
			}
		}
		return RangeInt(0, math.MaxInt32)
	case "Sign", "IsInt64", "IsUint64", "Bit", "TrailingZeroBits", "ProbablyPrime":
		return e.topOf(x.Type(), m)
	case "String", "Text":
		return TopStr("big.Int." + m)
	}
	// unknown method: assume it may write its receiver
	set(args[0], BigTop("unmodelled method "+m))
	return e.topOf(x.Type(), "big.Int."+m)
}

var _ = types.Typ

// joinOfListWords: every element of the joined slice is an element of a package-level word list.
func joinOfListWords(a *ArrC) bool {
	if a == nil || a.Top != "" || len(a.Elems) == 0 {
		return false
	}
	for _, el := range a.Elems {
		s, ok := el.(StrV)
		if !ok || s.Kind != skElem || s.List == nil {
			return false
		}
	}
	return true
}

// sbMethod models strings.Builder.
func (e *Eval) sbMethod(fr *frame, x *ssa.Call, m string, args []AV, st State) AV {
	p, ok := args[0].(PtrV)
	if !ok || p.O == nil || p.O.Kind != okSB {
		return e.topOf(x.Type(), "strings.Builder."+m)
	}
	c, _ := st[p.O].(SBC)
	add := func(v AV) {
		if c.Top != "" {
			e.setContent(fr, st, p.O, c)
			return
		}
		e.setContent(fr, st, p.O, SBC{Parts: append(append([]SBPart{}, c.Parts...), SBPart{V: v})})
	}
	switch m {
	case "WriteString":
		add(args[1])
		return TupleV{RangeInt(0, 1<<31), ErrV{Kind: ekNil}}
	case "WriteByte", "WriteRune":
		if iv, ok := args[1].(IntV); ok {
			if cst, ok := iv.Const(); ok && cst >= 0 && cst < 0x110000 {
				add(CStr(string(rune(cst))))
				if m == "WriteByte" {
					return ErrV{Kind: ekNil}
				}
				return TupleV{RangeInt(0, 4), ErrV{Kind: ekNil}}
			}
		}
		add(TopStr("byte written to builder"))
		if m == "WriteByte" {
			return ErrV{Kind: ekNil}
		}
		return TupleV{RangeInt(0, 4), ErrV{Kind: ekNil}}
	case "Write":
		add(TopStr("bytes written to builder"))
		return TupleV{RangeInt(0, 1<<31), ErrV{Kind: ekNil}}
	case "Grow":
		return TupleV{}
	case "Reset":
		e.setContent(fr, st, p.O, SBC{})
		return TupleV{}
	case "Len", "Cap":
		return RangeInt(0, 1<<31)
	case "String":
		return sbString(c)
	}
	e.setContent(fr, st, p.O, SBC{Top: "unmodelled method " + m})
	return e.topOf(x.Type(), "strings.Builder."+m)
}

// sbString renders the builder content; word/separator alternations become a Join.
func sbString(c SBC) AV {
	if c.Top != "" {
		return TopStr("builder: " + c.Top)
	}
	var parts []AV
	for _, p := range c.Parts {
		if p.Cond != nil || p.X != "" {
			return TopStr("builder content with unresolved conditional parts")
		}
		parts = append(parts, p.V)
	}
	if len(parts) == 0 {
		return CStr("")
	}
	// w0 sep w1 sep ... w(n-1)
	if len(parts) >= 3 && len(parts)%2 == 1 {
		sep, okSep := parts[1].(StrV)
		good := okSep && sep.Kind == skConst
		var words []AV
		for i, p := range parts {
			if i%2 == 1 {
				if s, ok := p.(StrV); !ok || s.String() != sep.String() {
					good = false
				}
			} else {
				if s, ok := p.(StrV); !ok || s.Kind != skElem {
					good = false
				}
				words = append(words, p)
			}
		}
		if good {
			return StrV{Kind: skJoin, Arr: &ArrC{N: CInt(int64(len(words))), Elems: words}, Sep: sep}
		}
	}
	allConst := true
	var sb strings.Builder
	for _, p := range parts {
		if s, ok := p.(StrV); ok && s.Kind == skConst {
			sb.WriteString(s.S)
		} else {
			allConst = false
		}
	}
	if allConst {
		return CStr(sb.String())
	}
	return StrV{Kind: skConcat, Parts: parts}
}

// ReadInfo describes one evaluated call that fills a buffer from a reader.
type ReadInfo struct {
	Callee string
	Reader AV
	Instr  ssa.Instruction
	Full   bool // guarantees a completely filled buffer on success
	Whole  bool // the target is the whole buffer
	Fresh  bool // the buffer came straight from make([]byte, n)
}

// guardedResult keeps the correlation "other results are valid iff the error is nil" across a
// call of a module function returning (…, error): if its returns split into some with a nil
// error and some with a certainly non-nil error, the call behaves like a library call whose
// error decides which of the two states holds; buffers that differ between the two are marked
// as valid only on the nil path (resolved when the caller tests the error).
func (e *Eval) guardedResult(x *ssa.Call, callee *ssa.Function, rets []retRec) ([]AV, State, bool) {
	sig := callee.Signature.Results()
	if sig.Len() < 1 || !isErrorType(sig.At(sig.Len()-1).Type()) || len(rets) < 1 {
		return nil, nil, false
	}
	var okV, errV []AV
	var okS, errS State
	var split []retRec
	for _, r := range rets {
		if len(r.vals) != sig.Len() {
			return nil, nil, false
		}
		ev := asErr(r.vals[len(r.vals)-1])
		if ev.Kind == ekFrom && !ev.NonNil && ev.Site != nil && ev.Site != ssa.Instruction(x) {
			// `return f(...)` handing on f's error untested: this return stands for both outcomes of f
			okR := retRec{vals: append([]AV{}, r.vals...), st: r.st.clone()}
			okR.vals[len(okR.vals)-1] = ErrV{Kind: ekNil}
			e.applyOutcome(okR.st, ev.Site, true)
			erR := retRec{vals: append([]AV{}, r.vals...), st: r.st.clone()}
			nn := ev
			nn.NonNil = true
			erR.vals[len(erR.vals)-1] = nn
			e.applyOutcome(erR.st, ev.Site, false)
			split = append(split, okR, erR)
			continue
		}
		split = append(split, r)
	}
	for _, r := range split {
		ev := asErr(r.vals[len(r.vals)-1])
		switch {
		case ev.Kind == ekNil:
			if okV == nil {
				okV, okS = append([]AV{}, r.vals...), r.st.clone()
			} else {
				for i := range okV {
					okV[i] = joinAV(okV[i], r.vals[i])
				}
				okS = joinStates(okS, r.st)
			}
		case ev.Kind == ekFresh || ev.Kind == ekSentinel || ev.Kind == ekWrap || ev.NonNil:
			if errV == nil {
				errV, errS = append([]AV{}, r.vals...), r.st.clone()
			} else {
				for i := range errV {
					errV[i] = joinAV(errV[i], r.vals[i])
				}
				errS = joinStates(errS, r.st)
			}
		default:
			return nil, nil, false
		}
	}
	if okV == nil || errV == nil {
		return nil, nil, false
	}
	if e.errObj == nil {
		e.errObj = map[ssa.Instruction]*Obj{}
	}
	if e.errObj[x] == nil {
		e.errObj[x] = e.newObj(okCell, x, "outcome of "+callee.Name())
	}
	out := State{}
	for o, c := range okS {
		ec, inErr := errS[o]
		switch {
		case inErr && c.String() == ec.String():
			out[o] = c
		default:
			if bc, ok := c.(BufC); ok && bc.B.Pending == nil {
				b := bc.B
				b.Pending = x
				out[o] = BufC{b}
			} else if !inErr {
				out[o] = c // created on the success path only
			} else {
				// unknown until the caller tests the error: both contents are remembered and the
				// right one is put back on the edge where the outcome is known (refineOnEdge),
				// provided nothing touched the object in between
				tag := fmt.Sprintf("differs between the success and the failure return of call %p", x)
				ph := topContent(o, tag)
				out[o] = ph
				if true {
					if e.alts == nil {
						e.alts = map[ssa.Instruction]map[*Obj]altContent{}
					}
					if e.alts[x] == nil {
						e.alts[x] = map[*Obj]altContent{}
					}
					e.alts[x][o] = altContent{ok: c, err: ec, placeholder: ph.String()}
				}
			}
		}
	}
	isOutcome := map[*Obj]bool{}
	for _, o := range e.errObj {
		isOutcome[o] = true
	}
	for o, c := range errS {
		if _, ok := out[o]; !ok {
			if isOutcome[o] {
				// a call made on failing returns only (a cleanup): not made where this call succeeds
				tag := fmt.Sprintf("made on the failure returns of call %p only", x)
				ph := topContent(o, tag)
				out[o] = ph
				if e.alts == nil {
					e.alts = map[ssa.Instruction]map[*Obj]altContent{}
				}
				if e.alts[x] == nil {
					e.alts[x] = map[*Obj]altContent{}
				}
				e.alts[x][o] = altContent{ok: nil, err: c, placeholder: ph.String()}
				continue
			}
			out[o] = c
		}
	}
	out[e.errObj[x]] = CellC{BoolV{}}
	res := append([]AV{}, okV...)
	res[len(res)-1] = ErrV{Kind: ekFrom, From: fnKey(callee), Site: x}
	return res, out, true
}

// leftPad recognises zeros(n - |Min(v)|) followed by Min(v): together exactly the n-byte
// big-endian encoding of v (the pre-FillBytes idiom).  z is the zero prefix, m the minimal encoding.
func leftPad(z, m BytesV) (BytesV, bool) {
	if z.LenMin == nil || z.LenMin.Coef != -1 || !z.HasVal || len(z.Val.Norm()) != 0 {
		return BytesV{}, false
	}
	if !m.Min || m.LenMin == nil || m.LenMin.Coef != 1 || m.LenMin.Const != 0 || m.LenMin.Sym != z.LenMin.Sym || !m.HasVal {
		return BytesV{}, false
	}
	return BytesV{LenKnown: true, Len: K(z.LenMin.Const), HasVal: true, Val: m.Val, Src: "left-padded big.Int.Bytes"}, true
}
