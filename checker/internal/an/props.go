package an

// Property describes how one property of /verif/properties.jsonl is decided.
type Property struct {
	ID         string
	Title      string
	Level      string   // evidence level category
	Rules      []string // obligations of these rules decide the property
	Floors     map[string]int
	Explain    string
	Trusted    []string
	Assume     []string
	Exhaustive bool
}

var axSHA = "crypto/sha256 computes SHA-256 of exactly the bytes written and does not modify them"
var axBig = "math/big method semantics per the transfer table of DESIGN.md §4.3 (SetBytes, Lsh, Rsh, Quo/Rem by 2^k, And with 2^k-1, Add/Or of disjoint supports, Int64, Cmp, Bytes, FillBytes)"
var axJoin = "strings.Join / strings.Split / strings.Fields behave as documented"
var axNFKD = "golang.org/x/text norm.NFKD.String is a pure, idempotent function of its argument"
var axOnce = "(*sync.Once).Do runs its argument at most once and its return happens-after that run for every caller"
var axTool = "go/types, go/ssa, go/packages (x/tools v0.29.0) build a faithful SSA form of the source"
var axChecker = "the purpose-built analyser (bipcheck) implements the rules of DESIGN.md §5 as described; it is unverified"

// Properties is the table of claimed properties.
var Properties = []Property{
	{ID: "C01", Title: "Mnemonic encoding conforms to BIP39", Level: "proof",
		Rules:   []string{"ANCHOR", "G1a", "G4", "T1", "T2", "T2c", "T5w", "T5d", "T6", "L1", "E1enc"},
		Floors:  map[string]int{"T1.constants": 10, "T5.words": 20480, "T2.contexts": 50, "L1.contexts": 50, "G1.gate": 1},
		Explain: "Abstract interpretation of NewMnemonicByEntropy and NewMnemonic over a bit-layout domain: in each of the 5 sizes x 10 languages (both entry points) the value returned is strings.Join(a, sep) where a has 3*len/4 elements, each written exactly once, a[p] = list_K[S<11(W-1-p):+11>] with S = checksum bits (top ENT/32 bits of SHA-256(entropy)[0]) below the entropy bits, list_K the canonical list of language K (digest-checked literal, never written), sep U+3000 for Japanese and U+0020 otherwise. The entropy bits are a symbol, so the result holds for all 2^ENT inputs; the loop is summarised by recurrence R1 (X' = X >> 11), not unrolled.",
		Trusted: []string{axSHA, axBig, axJoin, axTool, axChecker, "BIP39 parameter table and the ten list digests held in the checker"}},
	{ID: "C02", Title: "Every valid mnemonic validates", Level: "proof",
		Rules:   []string{"ANCHOR", "L1", "L1n", "T6", "T6n", "T6v", "T5w", "T3", "T3e", "G1a", "G2a", "G3a", "L2w", "L2", "L3c", "L3x", "S2c", "S3", "T2", "T2n", "G4", "G4n", "E1enc", "E1val", "F1"},
		Floors:  map[string]int{"T3.maps": 10, "L2.contexts": 50, "L1.contexts": 50},
		Explain: "Composition of discharged premises: the encoder emits word p = list_K[S<11(W-1-p):+11>] (L1); the separator survives NFKD and is what the validator splits on, words are NFKD-stable and contain no separator (T5,T6); the lookup map is the inverse of the same list (T3); W is accepted (G3); the validator rebuilds acc = I[0]..I[W-1] MSB first, hashes exactly ENT/8 bytes Fixed(acc<CS:>, L) (L2w, L2) and returns nil on the equal edge of Cmp(SHA256(..)<top CS bits>, acc<0:CS>) (L3c, S2c: the completeness halves of L3 and S2 - a validator that accepts too much fails C03, not this property), which after the lookups is the only condition acceptance depends on, every failure exit there being its other edge (L3x); substituting I[p] := S<11(W-1-p):+11> makes both sides the same bits; IsMnemonicValid is CheckMnemonic == nil (S3).",
		Trusted: []string{axSHA, axBig, axJoin, axNFKD, axOnce, axTool, axChecker}},
	{ID: "C03", Title: "Validation never accepts an ill-formed or wrong-checksum mnemonic", Level: "proof",
		Rules:   []string{"ANCHOR", "F1", "G3", "T3", "T3c", "T5w", "T6v", "L2w", "L2", "L3", "S2s", "S3", "E1val"},
		Floors:  map[string]int{"T3.maps": 10, "L2.contexts": 50, "S2.exits": 100},
		Explain: "The accept condition is read off the dominators of the only `return nil`: count in {12,15,18,21,24} (exact accept set from the gate analysis), every token found in the map that is the inverse of the language's canonical list, and Cmp == 0 between the top CS bits of SHA-256 over exactly ENT/8 bytes of the recovered entropy and the low CS bits of the token integer. All strings are covered because tokens and lookup results are symbols.",
		Trusted: []string{axSHA, axBig, axJoin, axNFKD, axOnce, axTool, axChecker}},
	{ID: "C04", Title: "Seed derivation equals BIP39 PBKDF2-HMAC-SHA512", Level: "proof",
		Rules:   []string{"ANCHOR", "F2", "F2n", "F2r"},
		Floors:  map[string]int{},
		Explain: "MnemonicToSeed is one call pbkdf2.Key([]byte(NFKD(m)), []byte(NFKD(\"mnemonic\"+p)), 2048, 64, sha512.New) whose result is returned unchanged; neither argument is used in any other way (non-interference over the SSA def-use graph); no module function is reachable from it, so it neither validates nor touches package state. NFKD(\"mnemonic\"+p) = \"mnemonic\"+NFKD(p) because 'c' is a starter.",
		Trusted: []string{"golang.org/x/crypto/pbkdf2.Key is PBKDF2 and returns a fresh slice", axNFKD, axTool, axChecker}},
	{ID: "C05", Title: "The mnemonic is a lossless encoding", Level: "proof",
		Rules:   []string{"ANCHOR", "L1", "T5w", "T6", "T2", "G1a", "G4", "E1enc"},
		Floors:  map[string]int{"T5.words": 20480, "L1.contexts": 50},
		Explain: "L1 shows the W windows S<11(W-1-p):+11> partition the ENT+CS bits in position order, so every entropy bit occurs in exactly one emitted index; T5 shows index -> word is injective (2048 pairwise distinct words per list) and no word contains a separator, so the sentence determines the indices and hence the entropy.",
		Trusted: []string{axSHA, axBig, axJoin, axTool, axChecker}},
	{ID: "C06", Title: "NewMnemonic is fail-closed and uses exactly the source's bytes", Level: "proof",
		Rules:   []string{"ANCHOR", "F3", "F3c", "F3d", "F3e", "G2a", "G2s", "G2r", "G4n", "G4nx", "L1n", "T2n", "T2nc", "T6n", "E1enc", "E1src"},
		Floors:  map[string]int{"G2.gate": 1},
		Explain: "The source is read by io.ReadFull into a whole make([]byte, 4n/3) buffer; the read error is tested alone, the failure edge returns (\"\", non-nil), no other failure exit is reachable with an accepted count once the read succeeded (G2s), and the encoder is dominated by the success edge; between read and encoder nothing writes the buffer, and the encoder's inputs are exactly the bytes read (layout symbol E of the read). Fragmentation and failure points are quantified inside the io.ReadFull contract.",
		Trusted: []string{"io.ReadFull(r, b) returns nil iff it filled b completely, however r fragments its reads", axBig, axSHA, axTool, axChecker}},
	{ID: "C07", Title: "Default randomness is the OS CSPRNG", Level: "proof",
		Rules:   []string{"ANCHOR", "F3", "F3a", "F3b", "F3c", "F3d", "F3f", "E1src"},
		Floors:  map[string]int{},
		Explain: "The variable read by NewMnemonic is initialised to crypto/rand.Reader; the effect index over every non-test function in every analysed build configuration finds no other writer except explicit swaps (a function storing its own parameter, unreachable from init and from the API); its address never escapes; the encoder consumes exactly the bytes read from it.",
		Trusted: []string{axTool, axChecker}},
	{ID: "C08", Title: "The ten word lists are canonical and well-formed", Level: "proof", Exhaustive: true,
		Rules:   []string{"ANCHOR", "T5w", "T5d", "T2", "T2c", "T3", "T3e", "T3c", "T1", "E1lst", "W1"},
		Floors:  map[string]int{"T5.words": 20480, "T5.lists": 10, "T3.maps": 10, "T1.constants": 10, "T2.contexts": 50},
		Explain: "All 10 x 2048 words are read from the syntax tree as constants: non-empty, pairwise distinct, free of White_Space and controls, each equal to its own NFKD image, SHA-256 of the list equal to the frozen digest; each list variable is initialiser-only (never written after its declaration, not even from init()); the encoder selects list K for language K and the validator's map K is built as the inverse of that same variable.",
		Trusted: []string{"list digests frozen in the checker (English = published bip-0039/english.txt digest; the other nine = pinned commit)", axNFKD, axTool, axChecker}},
	{ID: "C09", Title: "Only the five sizes; sentinel errors otherwise", Level: "proof",
		Rules:   []string{"ANCHOR", "G1", "G1a", "G1e", "G2", "G2a", "G2s", "G2e", "G2r", "Gp", "S1", "G4", "G4x", "G4n", "G4nx", "T5w"},
		Floors:  map[string]int{"G1.gate": 1, "G2.gate": 1, "G1.accepted": 5, "G2.accepted": 5, "S1.sentinels": 3},
		Explain: "Exact reach-set analysis over the full int range: the success exits of NewMnemonicByEntropy / NewMnemonic are reached with exactly {16,20,24,28,32} / {12,15,18,21,24}; every other value reaches only exits returning (\"\", ErrEntropyLen / ErrWordLen); the source is read only with accepted counts; success returns a join of >= 12 non-empty words and nil.",
		Trusted: []string{axTool, axChecker}},
	{ID: "C10", Title: "Validation invariant under Unicode-equivalent spellings", Level: "proof",
		Rules:   []string{"ANCHOR", "F1", "T5w", "T6v", "S3", "E1val"},
		Floors:  map[string]int{"T5.words": 20480},
		Explain: "Non-interference: the only use of the raw argument of CheckMnemonic / IsMnemonicValid is as the operand of norm.NFKD.String, so the verdict depends on the input only through NFKD(input), and every package variable the validator evaluation reads or hands to a call is never written after initialisation (E1val), so it is a function of NFKD(input) alone; every list word is NFKD-stable so normalised input can match; the tokeniser splits on the NFKD image of both separators.",
		Trusted: []string{axNFKD, axTool, axChecker}},
	{ID: "C11", Title: "Seed invariant under Unicode-equivalent spellings", Level: "proof",
		Rules:   []string{"ANCHOR", "F2n"},
		Floors:  map[string]int{},
		Explain: "Non-interference for both parameters of MnemonicToSeed: each reaches only norm.NFKD (the passphrase after concatenation with a constant, which preserves the property), so equal NFKD forms give equal PBKDF2 inputs.",
		Trusted: []string{axNFKD, "pbkdf2.Key is a function of its arguments", axTool, axChecker}},
	{ID: "C12", Title: "Concurrent cold-start use is race-free and equals sequential use", Level: "proof",
		Rules:   []string{"ANCHOR", "E1", "T3", "E2", "F4", "F3a", "F3b"},
		Floors:  map[string]int{"E1.classified": 31, "E1.once-built": 10, "E1.guard": 10, "T3.maps": 10, "T3.guards": 10},
		Explain: "Guarded-by discipline over all package-level variables: each is initialiser-only (only its declaration writes it and nothing writes its referent), or a lookup map written only inside the one function its own sync.Once runs and read only after that Once's Do, or a sync.Once used only as a Do receiver, or the randomness source (initialised to crypto/rand.Reader, which is safe for concurrent use, and with no non-test writer). No go statement, channel, atomic, unsafe or reflect in the library. The discipline is schedule-independent, so it covers all interleavings.",
		Trusted: []string{axOnce, "sha256.New, big.Int locals, norm, pbkdf2 and crypto/rand.Reader are safe as used (library thread-safety)", axTool, axChecker}},
	{ID: "C13", Title: "No history dependence, no mutation", Level: "proof",
		Rules:   []string{"ANCHOR", "E1", "T3", "F4", "F2r", "E2"},
		Floors:  map[string]int{"E1.classified": 31, "E1.once-built": 10, "T3.maps": 10, "F4.params": 1},
		Explain: "The only retained state is the ten once-built maps, each a function of its own initialiser-only list and built by the one function its guard ever runs (no cross-language leakage in any order); the entropy slice and everything aliasing it is only read (hash.Write, big.Int.SetBytes, len); no exported function returns memory reached through a package-level variable; MnemonicToSeed returns the fresh slice of pbkdf2.Key.",
		Trusted: []string{axOnce, "read-only allow-list of library calls (DESIGN.md §5 F4)", axTool, axChecker}},
	{ID: "C14", Title: "No exported function panics or hangs", Level: "other",
		Rules:   []string{"ANCHOR", "P1", "P2", "P3", "P4", "P5"},
		Floors:  map[string]int{"P.exported": 6, "P.contexts": 100},
		Explain: "Every exported function and method of the root package is evaluated in all its contexts (accepted sizes, the rejected class, ten languages and the two intervals of other Language values): every index/slice is in bounds, every integer and big.Int divisor non-zero, every shift count and make size non-negative, FillBytes buffers wide enough, map updates on non-nil maps, every loop a range or a counter moving toward its bound, no panic/log.Fatal/os.Exit/unchecked type assertion, call graph acyclic. Necessary-and-here-sufficient conditions over module code; totality of library calls under these preconditions is assumed; memory/time on huge inputs is not decided.",
		Trusted: []string{"stdlib functions called by the package neither panic nor diverge when the checked preconditions hold", axTool, axChecker},
		Assume:  []string{"the receiver of an exported method with a pointer receiver is not nil (a nil receiver is not among the arguments the property ranges over)"}},
	{ID: "C15", Title: "Validation errors identify the kind of failure", Level: "proof",
		Rules:   []string{"ANCHOR", "S2a", "S2e", "S1", "G3", "G3a", "G3e", "L3", "L2w", "T3c"},
		Floors:  map[string]int{"S2.exits": 100, "S1.sentinels": 3},
		Explain: "Every exit of CheckMnemonic is classified by the branch edges dominating it: count-reject exits (reached only with counts outside the five) return ErrWordLen; exits on the miss edge of a lookup return a fresh non-nil error whose format consumes the token; after all lookups hit, the unequal edge of the checksum comparison returns ErrChecksumIncorrect and the equal edge is the only return nil; the hash is over exactly ENT/8 bytes so a correct checksum cannot be reported as incorrect.",
		Trusted: []string{"fmt.Errorf / errors.New never return nil", axTool, axChecker}},
	{ID: "C16", Title: "Each language has its own printable name", Level: "proof", Exhaustive: true,
		Rules:   []string{"ANCHOR", "T4", "T1", "E1str"},
		Floors:  map[string]int{"T4.contexts": 12, "T1.constants": 10},
		Explain: "Language.String is evaluated with the receiver equal to each declared constant (result must fold to the constant's identifier) and with the receiver ranging over each interval of other values (result must be \"Language(\"+decimal(receiver)+\")\" and every index/slice met must be in bounds): a complete partition of the int range.",
		Trusted: []string{"strconv.FormatInt(x,10) is the decimal rendering", axTool, axChecker}},
	{ID: "C17", Title: "The word-list generator reproduces its input", Level: "other",
		Rules:   []string{"ANCHOR", "W1", "W2", "W3", "T5d"},
		Floors:  map[string]int{"W1.entries": 10, "W3.nodes": 10},
		Explain: "Structural necessary conditions only: the stem->variable table agrees with the upstream stems, the committed files and the variables the library reads; main passes (stem, variable) in that order and stops on error; the words given to the template are strings.Split(string(ReadAll(Get(url/stem.txt).Body)), \"\\n\") with no call in between; the output is <dir>/<stem>.go opened with O_CREATE|O_TRUNC; every error is returned; the template tree is `package wordlist; var {{.Variable}} = []string{ {{range .WordList}}{{if .}}\"{{.}}\",{{end}}{{end}} }`. The rendered bytes, compilation of the output and HTTP failure modes are not decided.",
		Trusted: []string{"html/template renders text outside HTML contexts as modelled (changes only NUL \" & ' + < >)", "go/format.Source changes white space only", "bufio.Scanner with its default split function yields the pieces between line feeds (a trailing CR dropped), without an empty last piece, and reports an early end through Err", "os.Rename replaces the target by the renamed file; os.WriteFile creates or truncates", "a command-line option is judged at its default value", axTool, axChecker}},
}

func PropertyByID(id string) *Property {
	for i := range Properties {
		if Properties[i].ID == id {
			return &Properties[i]
		}
	}
	return nil
}
