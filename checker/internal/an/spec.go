package an

// The BIP39 specification tables.  They live in the checker, not in /repo.

// SpecLang is one supported language of BIP39.
type SpecLang struct {
	Name   string // identifier of the Language constant
	Stem   string // upstream file stem in bitcoin/bips bip-0039/<stem>.txt
	Digest string // SHA-256 of the upstream file: the 2048 words each followed by "\n"
	Sep    string // separator the encoder must use
}

// The digests were computed from the word lists of the pinned commit.  The English one is
// the published digest of bip-0039/english.txt; no independent copy of the other nine
// exists in the sandbox, so for them "canonical" means "identical to the pinned commit".
var SpecLangs = []SpecLang{
	{"ChineseSimplified", "chinese_simplified", "5c5942792bd8340cb8b27cd592f1015edf56a8c5b26276ee18a482428e7c5726", " "},
	{"ChineseTraditional", "chinese_traditional", "417b26b3d8500a4ae3d59717d7011952db6fc2fb84b807f3f94ac734e89c1b5f", " "},
	{"English", "english", "2f5eed53a4727b4bf8880d8f3f199efc90e58503646d9ff8eff3a2ed3b24dbda", " "},
	{"French", "french", "ebc3959ab7801a1df6bac4fa7d970652f1df76b683cd2f4003c941c63d517e59", " "},
	{"Italian", "italian", "d392c49fdb700a24cd1fceb237c1f65dcc128f6b34a8aacb58b59384b5c648c2", " "},
	{"Japanese", "japanese", "2eed0aef492291e061633d7ad8117f1a2b03eb80a29d0e4e3117ac2528d05ffd", "　"},
	{"Korean", "korean", "9e95f86c167de88f450f0aaf89e87f6624a57f973c67b516e338e8e8b8897f60", " "},
	{"Spanish", "spanish", "46846a5a0139d1e3cb77293e521c2865f7bcdb82c44e8d0a06a2cd0ecba48c0b", " "},
	{"Czech", "czech", "7e80e161c3e93d9554c2efb78d4e3cebf8fc727e9c52e03b83b94406bdcc95fc", " "},
	{"Portuguese", "portuguese", "2685e9c194c82ae67e10ba59d9ea5345a23dc093e92276fc5361f6667d79cd3f", " "},
}

func specByName(name string) *SpecLang {
	for i := range SpecLangs {
		if SpecLangs[i].Name == name {
			return &SpecLangs[i]
		}
	}
	return nil
}

func specByDigest(d string) *SpecLang {
	for i := range SpecLangs {
		if SpecLangs[i].Digest == d {
			return &SpecLangs[i]
		}
	}
	return nil
}

func specByStem(stem string) *SpecLang {
	for i := range SpecLangs {
		if SpecLangs[i].Stem == stem {
			return &SpecLangs[i]
		}
	}
	return nil
}

// SpecSizes is the BIP39 parameter table: entropy bytes, checksum bits, words.
type SpecSize struct{ L, CS, W int64 }

var SpecSizes = []SpecSize{{16, 4, 12}, {20, 5, 15}, {24, 6, 18}, {28, 7, 21}, {32, 8, 24}}

func specEntLens() []int64 {
	var o []int64
	for _, s := range SpecSizes {
		o = append(o, s.L)
	}
	return o
}
func specWordCounts() []int64 {
	var o []int64
	for _, s := range SpecSizes {
		o = append(o, s.W)
	}
	return o
}
func specSizeByL(l int64) *SpecSize {
	for i := range SpecSizes {
		if SpecSizes[i].L == l {
			return &SpecSizes[i]
		}
	}
	return nil
}
func specSizeByW(w int64) *SpecSize {
	for i := range SpecSizes {
		if SpecSizes[i].W == w {
			return &SpecSizes[i]
		}
	}
	return nil
}
