package an

import (
	"strings"

	"golang.org/x/tools/go/ssa"
)

// Instrumentation that cannot influence a result: execution-trace regions and tasks, profiler
// labels, and the empty contexts they are given.  A call of one of these (or of a module
// function that does nothing else) is skipped where a rule lists "what else is called".

// inertName: a function of the standard library that only talks to the tracer or profiler.
func inertName(name string) bool {
	switch name {
	case "context.Background", "context.TODO",
		"runtime/pprof.Labels", "runtime/pprof.WithLabels", "runtime/pprof.SetGoroutineLabels", "runtime/pprof.Label":
		return true
	}
	for _, pfx := range []string{"runtime/trace.StartRegion", "runtime/trace.NewTask", "runtime/trace.Log", "runtime/trace.Logf", "runtime/trace.IsEnabled",
		"(*runtime/trace.Region).", "(*runtime/trace.Task)."} {
		if strings.HasPrefix(name, pfx) {
			return true
		}
	}
	return false
}

// inertFn: a module function that only makes inert calls, builds strings and hands back what
// those calls returned (`func traceBuild(name string) func() { return trace.StartRegion(ctx,
// "x."+name).End }`): no package state, no stores, no other calls.
func (a *Analysis) inertFn(f *ssa.Function) bool {
	if f == nil || len(f.Blocks) == 0 {
		return false
	}
	if a.inertFns == nil {
		a.inertFns = map[*ssa.Function]bool{}
	}
	if v, done := a.inertFns[f]; done {
		return v
	}
	a.inertFns[f] = false // recursion guard
	ok := !a.touchesPackageState(f)
	n := 0
	for _, b := range f.Blocks {
		for _, in := range b.Instrs {
			if !ok {
				break
			}
			switch x := in.(type) {
			case *ssa.DebugRef, *ssa.BinOp, *ssa.Phi, *ssa.Return, *ssa.Jump, *ssa.If, *ssa.Convert, *ssa.ChangeType, *ssa.MakeInterface, *ssa.Extract, *ssa.RunDefers:
			case *ssa.MakeClosure:
				// a method value of what an inert call returned (`region.End`)
				fn, isFn := x.Fn.(*ssa.Function)
				if !isFn || !strings.HasSuffix(fn.Name(), "$bound") || !inertName(strings.TrimSuffix(fn.String(), "$bound")) {
					ok = false
				}
			case ssa.CallInstruction:
				n++
				if !a.inertCall(x) {
					ok = false
				}
			default:
				ok = false
			}
		}
	}
	ok = ok && n > 0
	a.inertFns[f] = ok
	return ok
}

// inertCall: c calls an inert library function, an inert module function, or the function
// value such a call returned (`defer traceBuild("x")()`).
func (a *Analysis) inertCall(c ssa.CallInstruction) bool {
	cc := c.Common()
	if cc.IsInvoke() {
		return false
	}
	if f := cc.StaticCallee(); f != nil {
		if inertName(f.String()) {
			return true
		}
		if strings.HasSuffix(f.Name(), "$bound") && inertName(strings.TrimSuffix(f.String(), "$bound")) {
			return true
		}
		return f.Pkg != nil && a.P.InModule(f.Pkg) && a.inertFn(f)
	}
	if inner, ok := cc.Value.(*ssa.Call); ok && len(cc.Args) == 0 {
		return a.inertCall(inner)
	}
	return false
}
