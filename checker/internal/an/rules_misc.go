package an

import (
	"fmt"
	"go/token"
	"go/types"
	"math"
	"sort"
	"strings"

	"golang.org/x/tools/go/ssa"
)

// ruleT4: Language.String() in every language class.
func (a *Analysis) ruleT4() {
	r := a.R
	fn := a.Str
	if fn == nil {
		return
	}
	fk := fnKey(fn)
	n := 0
	names := map[string]string{}
	for _, lc := range a.langCtxs() {
		lc := lc
		ctx := &Ctx{Name: "lang=" + lc.Name, Lang: &lc.V}
		e := a.eval(fn, ctx)
		n++
		exits := topExits(e, fn)
		key := fk + "/name/" + lc.Name
		pos := a.P.Pos(fn.Pos())
		// bounds problems met on the way belong to this obligation too
		bad := false
		for _, ev := range e.Events {
			if ev.Status != Discharged && ev.Rule != "" {
				r.Add("T4", key, a.P.InstrPos(ev.Instr), "", ev.Status, "Language(%s).String(): %s", lc.Name, ev.Msg)
				bad = true
			}
		}
		if len(exits) == 0 {
			if !bad {
				r.Unk("T4", key, pos, "", "no feasible return for %s", lc.Name)
			}
			continue
		}
		for _, x := range exits {
			xp := a.P.InstrPos(x.Ret)
			s, _ := x.Vals[0].(StrV)
			if lc.Const != nil {
				if s.Kind == skConst && s.S == lc.Name {
					if prev, dup := names[s.S]; dup && prev != lc.Name {
						r.Bad("T4", key, xp, "", "%s and %s print the same name", prev, lc.Name)
					}
					names[s.S] = lc.Name
					r.OK("T4", key, xp, "", "%s.String() = %q", lc.Name, s.S)
				} else {
					r.Bad("T4", key, xp, "", "%s.String() returns %v, not its declared identifier %q", lc.Name, x.Vals[0], lc.Name)
				}
				continue
			}
			// other values: "Language(" + decimal(receiver) + ")"
			ok := s.Kind == skConcat && len(s.Parts) == 3
			if ok {
				p0, _ := s.Parts[0].(StrV)
				p1, _ := s.Parts[1].(StrV)
				p2, _ := s.Parts[2].(StrV)
				ok = p0.Kind == skConst && p0.S == "Language(" && p2.Kind == skConst && p2.S == ")" && p1.Kind == skDecimal && p1.X != nil && p1.X.String() == lc.V.String()
			}
			if ok {
				r.OK("T4", key, xp, "", "values in %s print as \"Language(N)\"", lc.Name)
			} else {
				r.Bad("T4", key, xp, "", "for values in %s String() returns %v, not \"Language(\"+decimal+\")\"", lc.Name, x.Vals[0])
			}
		}
	}
	r.Counts["T4.contexts"] = n
}

// ---------------------------------------------------------------- P rules

// entryContexts enumerates the contexts under which an exported function is evaluated.
func (a *Analysis) entryContexts(fn *ssa.Function) []*Ctx {
	var out []*Ctx
	lcs := a.langCtxs()
	withSizes := func(kind string, g *GateInfo) {
		if g == nil {
			out = append(out, &Ctx{Name: "any"})
			return
		}
		if _, ok := g.Extra.Enumerate(64); !ok {
			a.R.Unk("P1", fnKey(fn)+"/contexts", a.P.Pos(fn.Pos()), "", "more than 64 sizes outside the BIP39 table get past the gate of %s (%v): they cannot be enumerated as contexts", fnKey(fn), g.Extra)
		}
		for _, lc := range lcs {
			for _, s := range g.passed() {
				s := s
				out = append(out, a.sizeCtx(kind, &s, g, lc))
			}
			out = append(out, a.rejectCtxs(kind, g, lc)...)
		}
	}
	switch {
	case a.isAnchor(fn, a.NME):
		withSizes("L", a.Gate1)
	case a.isAnchor(fn, a.NM):
		withSizes("W", a.Gate2)
	case a.isAnchor(fn, a.CM):
		withSizes("N", a.Gate3)
	case fn == a.IMV:
		// the gate lives in CheckMnemonic, which is inlined: same contexts
		withSizes("N", a.Gate3)
	case a.Gate1 != nil && a.Gate1.Res != nil && fn == a.Gate1.Res.Fn:
		// the method the entry point forwards to holds the gate: the same contexts
		withSizes("L", a.Gate1)
	case a.Gate2 != nil && a.Gate2.Res != nil && fn == a.Gate2.Res.Fn:
		withSizes("W", a.Gate2)
	case fn == a.Str:
		for _, lc := range lcs {
			lc := lc
			out = append(out, &Ctx{Name: "lang=" + lc.Name, Lang: &lc.V})
		}
	default:
		// other exported functions: language classes if they take a Language, else one context.
		// Calls of the size-gated entry points are not entered: those are proved panic-free for
		// every argument in their own contexts, which is all a caller needs.
		defer func() {
			mod := map[*ssa.Function]bool{}
			for _, body := range []*ssa.Function{a.NME, a.NM, a.CM} {
				for _, f := range a.API[body] {
					// the exported entry points only: an unexported body they forward to, called
					// by another exported function for its results, is entered
					if f.Object() != nil && f.Object().Exported() {
						mod[f] = true
					}
				}
			}
			if a.IMV != nil {
				mod[a.IMV] = true
			}
			for _, c := range out {
				c.Modular = mod
			}
		}()
		takesLang := false
		for _, p := range fn.Params {
			if a.isLang(p.Type()) {
				takesLang = true
			}
		}
		var base []*Ctx
		if takesLang {
			for _, lc := range lcs {
				lc := lc
				base = append(base, &Ctx{Name: "lang=" + lc.Name, Lang: &lc.V})
			}
		} else {
			base = append(base, &Ctx{Name: "any"})
		}
		// a function with one []byte parameter that compares its length with constants (a size
		// gate of its own, `len(b) < 16 || len(b) > 32 || len(b)%4 != 0`): one context per length
		// between the smallest and the largest of those constants and one for each side of them —
		// a partition of all lengths, on which the comparisons are decided
		cuts := lenCuts(fn)
		if len(cuts) == 0 || cuts[len(cuts)-1]-cuts[0] > 64 {
			if kind, g := a.sharedGate(fn); g != nil {
				keep := strings.HasSuffix(kind, "!") // the classes' unreachable blocks apply
				kind = strings.TrimSuffix(kind, "!")
				withSizes(kind, g)
				// a small class of rejected sizes ({13,14}) is taken apart: outside the function
				// that holds the gate nothing marks the blocks its members cannot reach, and
				// `n%3 != 0` is not decided on an interval
				var split []*Ctx
				for _, c := range out {
					if kind != "N" && !keep {
						// the function holding that gate is not reached: nothing its classes mark
						// unreachable is evaluated, and nothing should be skipped on their word
						c.Infeasible = nil
					}
					if c.SizeRange == nil || c.SizeRange[1]-c.SizeRange[0] > 8 || c.SizeRange[1]-c.SizeRange[0] < 1 {
						split = append(split, c)
						continue
					}
					for v := c.SizeRange[0]; v <= c.SizeRange[1]; v++ {
						v := v
						d := *c
						d.SizeRange = nil
						d.Name = fmt.Sprintf("%s=%d(rejected),%s", kind, v, c.Name[strings.LastIndex(c.Name, "lang="):])
						switch kind {
						case "W":
							d.WordCount = &v
						case "L":
							d.EntLen = &v
						case "N":
							d.TokCount = &v
						}
						split = append(split, &d)
					}
				}
				out = split
				break
			}
			out = append(out, base...)
			break
		}
		lo, hi := cuts[0], cuts[len(cuts)-1]
		for _, b := range base {
			pre := ""
			if b.Name != "any" {
				pre = b.Name + ","
			}
			if lo > 0 {
				out = append(out, &Ctx{Name: fmt.Sprintf("%slen∈[0..%d]", pre, lo-1), Lang: b.Lang, SizeKind: "L", SizeRange: &[2]int64{0, lo - 1}})
			}
			for k := lo; k <= hi; k++ {
				k := k
				out = append(out, &Ctx{Name: fmt.Sprintf("%slen=%d", pre, k), Lang: b.Lang, EntLen: &k})
			}
			out = append(out, &Ctx{Name: fmt.Sprintf("%slen∈[%d..]", pre, hi+1), Lang: b.Lang, SizeKind: "L", SizeRange: &[2]int64{hi + 1, math.MaxInt32}})
		}
	}
	return out
}

// sharedGate: the gate whose size classes partition the arguments of an exported function that
// is not one of the entry points.  The classes of a gate (each accepted size, each interval of
// rejected ones) cover every value of its subject, so evaluating a function once per class
// covers every argument — provided the context binds the very quantity the function's own code
// depends on, and the blocks a class marks unreachable (in the function holding the gate) are
// reached with that quantity as the gate's subject or not at all:
//   - the number of tokens, when the only tokeniser call the function reaches (other than
//     through the entry points, which are not entered) is the one Gate3 is about;
//   - the value of its only integer parameter / the length of its only []byte parameter, when
//     the function holding that gate is not reached (other than through the entry points).
func (a *Analysis) sharedGate(fn *ssa.Function) (string, *GateInfo) {
	stop := map[*ssa.Function]bool{}
	for _, body := range []*ssa.Function{a.NME, a.NM, a.CM} {
		for _, f := range a.API[body] {
			if f.Object() != nil && f.Object().Exported() {
				stop[f] = true
			}
		}
	}
	if a.IMV != nil {
		stop[a.IMV] = true
	}
	seen := map[*ssa.Function]bool{}
	var walk func(f *ssa.Function)
	walk = func(f *ssa.Function) {
		if f == nil || seen[f] || len(f.Blocks) == 0 || (stop[f] && f != fn) {
			return
		}
		seen[f] = true
		for _, c := range callsIn(f) {
			if g := c.Common().StaticCallee(); g != nil && a.isModuleFunc(g) {
				walk(g)
			}
		}
		for _, af := range f.AnonFuncs {
			walk(af)
		}
	}
	walk(fn)
	toks, own := 0, false
	for f := range seen {
		for _, c := range callsIn(f) {
			cc, isCall := c.(*ssa.Call)
			if !isCall {
				continue
			}
			isTok := false
			switch calleeName(c) {
			case "strings.Split", "strings.Fields", "strings.SplitN", "strings.FieldsFunc", "strings.SplitAfter", "strings.SplitAfterN", "bytes.Split", "bytes.Fields":
				isTok = true
			default:
				if _, isSplit := a.P.byteSplitter(cc.Call.StaticCallee()); isSplit {
					isTok = true
				}
				if a.P.walkCount[cc] {
					isTok = true
				}
			}
			if isTok {
				toks++
				if cc == a.TokCall {
					own = true
				}
			}
		}
	}
	if toks == 1 && own && a.Gate3 != nil && a.Gate3.Res != nil {
		return "N", a.Gate3
	}
	if toks > 0 {
		return "", nil
	}
	nInt, nBytes := 0, 0
	for _, p := range fn.Params {
		switch u := p.Type().Underlying().(type) {
		case *types.Basic:
			if u.Info()&types.IsInteger != 0 && !a.isLang(p.Type()) {
				nInt++
			}
		case *types.Slice:
			if b, ok := u.Elem().Underlying().(*types.Basic); ok && b.Kind() == types.Uint8 {
				nBytes++
			}
		}
	}
	// handsOwn: the function holding the gate is reached, but only by calls made in fn itself
	// that pass fn's own parameter p as the gate's subject (`NewMnemonicFromReader(r, n, l)`
	// calling the body `newMnemonic(r, n, l)` that NewMnemonic forwards to): the classes then
	// describe that very parameter, unreachable blocks included
	handsOwn := func(gfn *ssa.Function, gp *ssa.Parameter, isSubj func(*ssa.Parameter) bool) bool {
		if gp == nil {
			return false
		}
		var own *ssa.Parameter
		for _, p := range fn.Params {
			if isSubj(p) {
				own = p
			}
		}
		idx := -1
		for i, p := range gfn.Params {
			if p == gp {
				idx = i
			}
		}
		if own == nil || idx < 0 {
			return false
		}
		n := 0
		for f := range seen {
			for _, c := range callsIn(f) {
				if c.Common().StaticCallee() != gfn {
					continue
				}
				if f != fn || len(c.Common().Args) != len(gfn.Params) || c.Common().Args[idx] != ssa.Value(own) {
					return false
				}
				n++
			}
			if f != fn {
				for _, b := range f.Blocks {
					for _, in := range b.Instrs {
						// the gate function used as a value somewhere: not followed
						for _, op := range in.Operands(nil) {
							if *op == ssa.Value(gfn) {
								if c, ok := in.(ssa.CallInstruction); !ok || c.Common().Value != ssa.Value(gfn) {
									return false
								}
							}
						}
					}
				}
			}
		}
		return n > 0
	}
	isInt := func(p *ssa.Parameter) bool {
		u, ok := p.Type().Underlying().(*types.Basic)
		return ok && u.Info()&types.IsInteger != 0 && !a.isLang(p.Type())
	}
	isBytes := func(p *ssa.Parameter) bool {
		sl, ok := p.Type().Underlying().(*types.Slice)
		if !ok {
			return false
		}
		b, ok := sl.Elem().Underlying().(*types.Basic)
		return ok && b.Kind() == types.Uint8
	}
	if nInt == 1 && nBytes == 0 && a.Gate2 != nil && a.Gate2.Res != nil {
		if !seen[a.Gate2.Res.Fn] {
			return "W", a.Gate2
		}
		if handsOwn(a.Gate2.Res.Fn, a.Gate2Param, isInt) {
			return "W!", a.Gate2
		}
	}
	if nBytes == 1 && nInt == 0 && a.Gate1 != nil && a.Gate1.Res != nil {
		if !seen[a.Gate1.Res.Fn] {
			return "L", a.Gate1
		}
		if handsOwn(a.Gate1.Res.Fn, a.Gate1Param, isBytes) {
			return "L!", a.Gate1
		}
	}
	return "", nil
}

// lenCuts returns, sorted, the non-negative constants the length of fn's only []byte
// parameter is compared with in fn itself (nil if there is no such parameter or comparison).
func lenCuts(fn *ssa.Function) []int64 {
	var bp *ssa.Parameter
	for _, p := range fn.Params {
		if sl, ok := p.Type().Underlying().(*types.Slice); ok {
			if b, ok := sl.Elem().Underlying().(*types.Basic); ok && b.Kind() == types.Uint8 {
				if bp != nil {
					return nil
				}
				bp = p
			}
		}
	}
	if bp == nil {
		return nil
	}
	seen := map[int64]bool{}
	for _, b := range fn.Blocks {
		for _, in := range b.Instrs {
			bo, ok := in.(*ssa.BinOp)
			if !ok {
				continue
			}
			switch bo.Op {
			case token.LSS, token.LEQ, token.GTR, token.GEQ, token.EQL, token.NEQ:
			default:
				continue
			}
			for _, pr := range [][2]ssa.Value{{bo.X, bo.Y}, {bo.Y, bo.X}} {
				if lenOperand(pr[0]) != ssa.Value(bp) {
					continue
				}
				if c, ok := intConst(pr[1]); ok && c >= 0 && c < math.MaxInt32 {
					seen[c] = true
				}
			}
		}
	}
	var out []int64
	for c := range seen {
		out = append(out, c)
	}
	sort.Slice(out, func(i, j int) bool { return out[i] < out[j] })
	return out
}

// valueRulesOf names the value-based rules that rest on the evaluation with this cache key.
func (a *Analysis) valueRulesOf(key string) []string {
	switch {
	case hasKey(key, a.API[a.NME]...):
		return []string{"L1"}
	case hasKey(key, a.API[a.NM]...):
		return []string{"L1n", "F3c"}
	case hasKey(key, a.API[a.CM]...), hasKey(key, a.IMV):
		return []string{"L2", "L2w"}
	case hasKey(key, a.API[a.MTS]...):
		return []string{"F2"}
	}
	return nil
}

// ruleP: no panic, no out-of-range, no division by zero, no bad shift/conversion/make,
// no nil-map write, every loop terminates — in every context of every exported function.
func (a *Analysis) ruleP() {
	r := a.R
	counts := map[string]int{}
	seenInstr := map[string]map[ssa.Instruction]bool{}
	note := func(rule string, in ssa.Instruction) {
		if seenInstr[rule] == nil {
			seenInstr[rule] = map[ssa.Instruction]bool{}
		}
		if in != nil && !seenInstr[rule][in] {
			seenInstr[rule][in] = true
			counts[rule]++
		}
	}
	gp := false
	collect := func(e *Eval, ctxName string) {
		for _, ev := range e.Events {
			switch ev.Rule {
			case "P1", "P2", "P3", "P4", "P5", "X":
				note(ev.Rule, ev.Instr)
				pos := "-"
				key := "analyser"
				if ev.Instr != nil {
					pos = a.P.InstrPos(ev.Instr)
					key = instrKey(ev.Instr)
				}
				rule := ev.Rule
				if rule == "X" {
					rule = "P1"
				}
				r.Add(rule, key, pos, ctxName, ev.Status, "%s", ev.Msg)
				if gp && ev.Status != Discharged {
					// a constructor that may panic does not "return the sentinel" / "succeed" for that size
					r.Add("Gp", key, pos, ctxName, ev.Status, "%s", ev.Msg)
				}
			}
		}
	}
	nctx := 0
	for _, fn := range a.Exported {
		gp = a.isAnchor(fn, a.NME) || a.isAnchor(fn, a.NM)
		for _, ctx := range a.entryContexts(fn) {
			e := a.eval(fn, ctx)
			nctx++
			collect(e, fnKey(fn)+"("+ctx.Name+")")
		}
		if gp {
			r.OK("Gp", fnKey(fn)+"/returns", a.P.Pos(fn.Pos()), "", "no panic or unbounded operation found in any size or language context of %s (it returns for every argument)", fnKey(fn))
		}
		gp = false
		r.OK("P1", fnKey(fn)+"/covered", a.P.Pos(fn.Pos()), "", "exported %s evaluated in %d contexts", fnKey(fn), len(a.entryContexts(fn)))
	}
	// the once-run builders are reachable too (through sync.Once.Do, which the evaluator does not enter)
	var builders []*ssa.Function
	for _, d := range a.onceDoCalls() {
		if d.Fn != nil {
			dup := false
			for _, b := range builders {
				if b == d.Fn {
					dup = true
				}
			}
			if !dup {
				builders = append(builders, d.Fn)
			}
		}
	}
	sort.Slice(builders, func(i, j int) bool { return fnKey(builders[i]) < fnKey(builders[j]) })
	for _, b := range builders {
		e := NewEval(a.P, a.G, &Ctx{Name: "builder"})
		e.builderMode = true
		e.Run(b)
		a.Contexts++
		nctx++
		collect(e, fnKey(b))
	}
	// initialisers run before any exported call
	for _, ev := range a.G.InitEvents {
		if ev.Status != Discharged && strings.HasPrefix(ev.Rule, "P") {
			r.Add(ev.Rule, instrKey(ev.Instr), a.P.InstrPos(ev.Instr), "init", ev.Status, "%s", ev.Msg)
		}
	}
	for k, v := range counts {
		r.Counts["P."+k+".sites"] = v
	}
	r.Counts["P.contexts"] = nctx
	r.Counts["P.exported"] = len(a.Exported)
	// F4 / E1 findings the evaluator met on the way
	for key, e := range a.evals {
		for _, ev := range e.Events {
			if ev.Rule == "U" && ev.Instr != nil {
				// the evaluation lost track of a write: what the value-based rules concluded from
				// it is not reliable
				for _, rule := range a.valueRulesOf(key) {
					r.Add(rule, "eval/"+instrKey(ev.Instr), a.P.InstrPos(ev.Instr), e.Ctx.Name, Undecided, "%s", ev.Msg)
				}
				continue
			}
			if ev.Instr != nil && a.SwapStores[ev.Instr] {
				continue // an explicit swap of the randomness source, classified by F3b
			}
			if (ev.Rule == "F4" || ev.Rule == "E1" || ev.Rule == "E2") && ev.Status != Discharged && ev.Instr != nil {
				r.Add(ev.Rule, "eval/"+instrKey(ev.Instr), a.P.InstrPos(ev.Instr), e.Ctx.Name, ev.Status, "%s", ev.Msg)
			}
		}
	}
}

var _ = fmt.Sprint
