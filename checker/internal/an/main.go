package an

import (
	"encoding/json"
	"flag"
	"fmt"
	"os"
	"path/filepath"
	"runtime"
	"sort"
	"strconv"
	"strings"
	"sync"
	"time"
)

// Finding is an entry of /verif/known_findings.json.
type Finding struct {
	Status    string `json:"status"` // "known" or "fixed"
	Property  string `json:"property"`
	Rule      string `json:"rule"`
	Construct string `json:"construct"`
	What      string `json:"what"`
	Commit    string `json:"commit,omitempty"`
}

type replayFile struct {
	Property  string     `json:"property"`
	Kind      string     `json:"kind"` // violated | undecided
	Config    string     `json:"config"`
	Tags      []string   `json:"tags"`
	GOOS      string     `json:"goos"`
	GOARCH    string     `json:"goarch"`
	Repo      string     `json:"repo"`
	Obl       Obligation `json:"obligation"`
	Diagnosis string     `json:"diagnosis"`
}

func configsFor(tier string) []Config {
	cs := []Config{{GOOS: "linux", GOARCH: "amd64"}, {GOOS: "linux", GOARCH: "amd64", Tags: []string{"verif"}}}
	if tier == "thorough" {
		for _, t := range [][2]string{{"linux", "386"}, {"darwin", "arm64"}, {"windows", "amd64"}} {
			cs = append(cs, Config{GOOS: t[0], GOARCH: t[1]}, Config{GOOS: t[0], GOARCH: t[1], Tags: []string{"verif"}})
		}
	}
	return cs
}

type configRun struct {
	Cfg  Config
	An   *Analysis
	Err  error
	Secs float64
}

func runConfigs(repo string, cfgs []Config) []*configRun {
	out := make([]*configRun, len(cfgs))
	var wg sync.WaitGroup
	sem := make(chan struct{}, 4)
	for i, c := range cfgs {
		wg.Add(1)
		go func(i int, c Config) {
			defer wg.Done()
			sem <- struct{}{}
			defer func() { <-sem }()
			t0 := time.Now()
			cr := &configRun{Cfg: c}
			func() {
				defer func() {
					if r := recover(); r != nil {
						cr.Err = fmt.Errorf("analyser panic: %v", r)
					}
				}()
				p, err := Load(repo, c)
				if err != nil {
					cr.Err = err
					return
				}
				a := NewAnalysis(p)
				a.RunAll()
				cr.An = a
			}()
			cr.Secs = time.Since(t0).Seconds()
			out[i] = cr
		}(i, c)
	}
	wg.Wait()
	return out
}

// Main is the entry point of the bipcheck command.
func Main(args []string) int {
	fs := flag.NewFlagSet("bipcheck", flag.ContinueOnError)
	repo := fs.String("repo", "/repo", "repository to analyse")
	prop := fs.String("property", "", "property id (C01..C17) or 'all'")
	tier := fs.String("tier", "quick", "quick | thorough")
	outDir := fs.String("out", "/verif/evidence", "evidence directory ('' = do not write)")
	known := fs.String("known", "/verif/known_findings.json", "known-findings file")
	replay := fs.String("replay", "", "replay file to re-run")
	debug := fs.String("debug", "", "debug: dump evaluation of the named function")
	list := fs.Bool("list", false, "with -property: list every obligation")
	if err := fs.Parse(args); err != nil {
		return 2
	}
	if *debug != "" {
		return debugDump(*repo, *debug)
	}
	if *replay != "" {
		return doReplay(*replay)
	}
	if *prop == "" {
		fmt.Println("usage: bipcheck -property <id>|all [-tier quick|thorough] [-repo dir] | -replay file")
		return 2
	}
	if t := os.Getenv("VERIF_TIER"); t != "" && !flagSet(fs, "tier") {
		*tier = t
	}
	if *tier != "quick" && *tier != "thorough" {
		fmt.Println("tier must be quick or thorough")
		return 2
	}
	seed := int64(0)
	if s := os.Getenv("VERIF_SEED"); s != "" {
		seed, _ = strconv.ParseInt(s, 10, 64)
	}
	var props []*Property
	if *prop == "all" {
		for i := range Properties {
			props = append(props, &Properties[i])
		}
	} else {
		for _, id := range strings.Split(*prop, ",") {
			p := PropertyByID(id)
			if p == nil {
				fmt.Printf("unknown property %s\n", id)
				return 2
			}
			props = append(props, p)
		}
	}
	t0 := time.Now()
	runs := runConfigs(*repo, configsFor(*tier))
	// a source file excluded by build constraints from every configuration so far: add
	// configurations until it is covered (a static tool sees only what was parsed)
	extra := []Config{{GOOS: "darwin", GOARCH: "arm64"}, {GOOS: "windows", GOARCH: "amd64"}, {GOOS: "linux", GOARCH: "386"}, {GOOS: "linux", GOARCH: "arm64"}, {GOOS: "freebsd", GOARCH: "amd64"}, {GOOS: "js", GOARCH: "wasm"}}
	for _, c := range extra {
		if len(neverAnalysed(runs)) == 0 {
			break
		}
		have := false
		for _, cr := range runs {
			if cr.Cfg.GOOS == c.GOOS && cr.Cfg.GOARCH == c.GOARCH {
				have = true
			}
		}
		if have {
			continue
		}
		before := len(neverAnalysed(runs))
		more := runConfigs(*repo, []Config{c, {GOOS: c.GOOS, GOARCH: c.GOARCH, Tags: []string{"verif"}}})
		if len(neverAnalysed(append(append([]*configRun{}, runs...), more...))) < before {
			runs = append(runs, more...)
		}
	}
	findings := loadFindings(*known)
	rc := 0
	for _, p := range props {
		if decide(p, runs, findings, *tier, seed, *repo, *outDir, time.Since(t0).Seconds(), *list) != 0 {
			rc = 1
		}
	}
	return rc
}

// neverAnalysed lists the non-test source files that no loaded configuration includes.
func neverAnalysed(runs []*configRun) []string {
	count := map[string]int{}
	n := 0
	for _, cr := range runs {
		if cr.Err != nil || cr.An == nil {
			continue
		}
		n++
		for _, u := range cr.An.P.Unanalysed {
			count[u]++
		}
	}
	var out []string
	for u, c := range count {
		if c == n {
			out = append(out, u)
		}
	}
	sort.Strings(out)
	return out
}

func flagSet(fs *flag.FlagSet, name string) bool {
	set := false
	fs.Visit(func(f *flag.Flag) {
		if f.Name == name {
			set = true
		}
	})
	return set
}

func loadFindings(path string) []Finding {
	b, err := os.ReadFile(path)
	if err != nil {
		return nil
	}
	var f struct {
		Findings []Finding `json:"findings"`
	}
	if json.Unmarshal(b, &f) != nil {
		return nil
	}
	return f.Findings
}

// decide evaluates one property over all configuration runs; prints verdict lines; writes evidence.
func decide(p *Property, runs []*configRun, findings []Finding, tier string, seed int64, repo, outDir string, wall float64, list bool) int {
	ruleSet := map[string]bool{}
	for _, r := range p.Rules {
		ruleSet[r] = true
	}
	var all []Obligation
	counts := map[string]int{}
	var cfgNames []string
	var unanalysed []string
	pkgs, files, funcs, blocks, instrs, contexts := 0, 0, 0, 0, 0, 0
	for _, cr := range runs {
		cfgNames = append(cfgNames, cr.Cfg.String())
		if cr.Err != nil {
			all = append(all, Obligation{Rule: "LOAD", Key: "load/" + cr.Cfg.String(), Pos: "-", Outcome: Undecided, Detail: cr.Err.Error(), Config: cr.Cfg.String()})
			continue
		}
		a := cr.An
		pkgs += len(a.P.Pkgs)
		files += len(a.P.Files)
		funcs += a.P.NumFuncs
		blocks += a.P.NumBlocks
		instrs += a.P.NumInstrs
		contexts += a.Contexts
		n := 0
		for _, o := range a.R.Obls {
			if ruleSet[o.Rule] {
				o.Config = cr.Cfg.String()
				all = append(all, o)
				n++
			}
		}
		// floors
		for k, min := range p.Floors {
			got := a.R.Counts[k]
			if got < min {
				all = append(all, Obligation{Rule: "FLOOR", Key: "floor/" + k, Pos: "-", Outcome: Undecided, Config: cr.Cfg.String(),
					Detail: fmt.Sprintf("rule instance count %s = %d is below the floor %d confirmed by hand: the rule would pass vacuously", k, got, min)})
			} else {
				all = append(all, Obligation{Rule: "FLOOR", Key: "floor/" + k, Pos: "-", Outcome: Discharged, Config: cr.Cfg.String(), Detail: fmt.Sprintf("%s = %d ≥ %d", k, got, min)})
			}
			if counts[k] == 0 || got < counts[k] {
				counts[k] = got
			}
		}
		for k, v := range a.R.Counts {
			if _, isFloor := p.Floors[k]; isFloor {
				continue
			}
			prefix := strings.Split(k, ".")[0]
			for r := range ruleSet {
				if strings.HasPrefix(r, prefix) {
					if cur, ok := counts[k]; !ok || v < cur {
						counts[k] = v
					}
					break
				}
			}
		}
		if n == 0 {
			all = append(all, Obligation{Rule: "FLOOR", Key: "floor/obligations", Pos: "-", Outcome: Undecided, Config: cr.Cfg.String(), Detail: "no obligation was generated for this property"})
		}
	}
	// a file no configuration includes fails every check
	{
		seenNB := map[string]bool{}
		for _, cr := range runs {
			if cr.Err != nil || cr.An == nil {
				continue
			}
			for _, u := range cr.An.P.NeverBuilt {
				if !seenNB[u] {
					seenNB[u] = true
					all = append(all, Obligation{Rule: "LOAD", Key: "never-built/" + u, Pos: u, Outcome: Discharged, Config: "all", Detail: "excluded on every platform by a Go release constraint that the installed toolchain (" + runtime.Version() + ") does not meet: no build made here compiles this file"})
				}
			}
		}
	}
	for _, u := range neverAnalysed(runs) {
		all = append(all, Obligation{Rule: "LOAD", Key: "unanalysed/" + u, Pos: u, Outcome: Undecided, Config: "all", Detail: "source file is not part of any analysed build configuration"})
	}
	// merge identical obligations across configurations
	type mk struct {
		rule, key, detail, pos string
		out                    Outcome
	}
	merged := map[mk]*Obligation{}
	var order []mk
	cfgOf := map[mk][]string{}
	ctxOf := map[mk][]string{}
	for _, o := range all {
		k := mk{o.Rule, o.Key, o.Detail, o.Pos, o.Outcome}
		if _, ok := merged[k]; !ok {
			oc := o
			merged[k] = &oc
			order = append(order, k)
		}
		if !contains(cfgOf[k], o.Config) {
			cfgOf[k] = append(cfgOf[k], o.Config)
		}
		if o.Ctx != "" && !contains(ctxOf[k], o.Ctx) {
			ctxOf[k] = append(ctxOf[k], o.Ctx)
		}
	}
	var obls []Obligation
	for _, k := range order {
		o := *merged[k]
		if len(cfgOf[k]) == len(runs) {
			o.Config = "all"
		} else {
			o.Config = strings.Join(cfgOf[k], " | ")
		}
		c := ctxOf[k]
		if len(c) > 5 {
			o.Ctx = fmt.Sprintf("%s … (%d contexts)", strings.Join(c[:3], "; "), len(c))
		} else {
			o.Ctx = strings.Join(c, "; ")
		}
		obls = append(obls, o)
	}
	unanalysed = neverAnalysed(runs)
	SortObligations(obls)
	total, discharged := len(obls), 0
	var failing []Obligation
	for _, o := range obls {
		if o.Outcome == Discharged {
			discharged++
		} else {
			failing = append(failing, o)
		}
	}
	// known findings
	var violations []Obligation
	knownHit := 0
	for _, o := range failing {
		matched := false
		for _, f := range findings {
			if f.Status == "known" && f.Property == p.ID && f.Rule == o.Rule && f.Construct == o.Key {
				fmt.Printf("KNOWN-FINDING: property=%s %s\n", p.ID, f.What)
				matched = true
				knownHit++
				break
			}
		}
		if !matched {
			violations = append(violations, o)
		}
	}
	if list {
		for _, o := range obls {
			fmt.Printf("  [%s] %-4s %-55s %s %s\n      %s\n", o.Outcome, o.Rule, o.Key, o.Pos, o.Ctx, o.Detail)
		}
	}
	// replay files + VIOLATION lines
	rc := 0
	if outDir != "" {
		os.MkdirAll(filepath.Join(outDir, "replay"), 0o755)
		old, _ := filepath.Glob(filepath.Join(outDir, "replay", p.ID+"-*.json"))
		for _, f := range old {
			os.Remove(f)
		}
	}
	for i, o := range violations {
		rc = 1
		path := filepath.Join(outDir, "replay", fmt.Sprintf("%s-%d.json", p.ID, i+1))
		if outDir == "" {
			path = "-"
		} else {
			cfg := configsFor(tier)[0]
			for _, cr := range runs {
				if strings.HasPrefix(o.Config, cr.Cfg.String()) {
					cfg = cr.Cfg
				}
			}
			rf := replayFile{Property: p.ID, Kind: string(o.Outcome), Config: o.Config, Tags: cfg.Tags, GOOS: cfg.GOOS, GOARCH: cfg.GOARCH, Repo: repo, Obl: o,
				Diagnosis: fmt.Sprintf("rule %s on %s at %s: %s", o.Rule, o.Key, o.Pos, o.Detail)}
			b, _ := json.MarshalIndent(rf, "", " ")
			os.WriteFile(path, b, 0o644)
		}
		fmt.Printf("VIOLATION property=%s replay=%s\n", p.ID, path)
		fmt.Printf("  %s [%s] %s at %s (%s) %s\n    %s\n", o.Outcome, o.Rule, o.Key, o.Pos, o.Config, o.Ctx, o.Detail)
	}
	status := "HELD"
	if rc != 0 {
		status = "VIOLATED"
	}
	fmt.Printf("%s %s (%s): %d obligations, %d discharged, %d failing (%d known) over %d configurations [%s]\n", p.ID, status, tier, total, discharged, len(failing), knownHit, len(runs), strings.Join(p.Rules, " "))

	if outDir != "" {
		writeEvidence(p, tier, seed, outDir, obls, total, discharged, len(violations), knownHit, counts, cfgNames, unanalysed, wall,
			map[string]int{"packages": pkgs, "files": files, "functions": funcs, "blocks": blocks, "instructions": instrs, "contexts": contexts})
	}
	return rc
}

func contains(s []string, x string) bool {
	for _, y := range s {
		if y == x {
			return true
		}
	}
	return false
}

func writeEvidence(p *Property, tier string, seed int64, outDir string, obls []Obligation, total, discharged, violations, known int, counts map[string]int, cfgs, unanalysed []string, wall float64, analysed map[string]int) {
	// samples: every failing obligation, plus up to 40 discharged ones spread over the rules
	var samples []Obligation
	perRule := map[string]int{}
	for _, o := range obls {
		if o.Outcome != Discharged {
			samples = append(samples, o)
			continue
		}
		if perRule[o.Rule] < 6 {
			perRule[o.Rule]++
			samples = append(samples, o)
		}
	}
	ruleCounts := map[string]int{}
	for _, o := range obls {
		ruleCounts[o.Rule]++
	}
	level := p.Level
	cov := map[string]any{
		"obligations":            total,
		"discharged":             discharged,
		"checker_cmd":            fmt.Sprintf("/verif/bin/bipcheck -property %s -tier %s", p.ID, tier),
		"trusted_base":           p.Trusted,
		"explanation":            p.Explain,
		"samples":                samples,
		"rule":                   "one obligation per (rule, construct, outcome, detail); identical obligations from different contexts/configurations are merged and their contexts listed",
		"rules":                  p.Rules,
		"obligations_by_rule":    ruleCounts,
		"instance_counts":        counts,
		"configurations":         cfgs,
		"analysed":               analysed,
		"unanalysed_files":       unanalysed,
		"known_findings_matched": known,
		"technique":              "static analysis: go/packages + go/types + go/ssa; gate reach sets (exact integer sets), abstract interpretation with loop summarisation over a bit-layout domain, effect index, dominance/def-use rules; nothing is executed",
	}
	if p.Exhaustive {
		cov["exhaustive"] = true
	}
	ev := map[string]any{
		"property_id": p.ID,
		"tier":        tier,
		"seed":        seed,
		"level":       level,
		"coverage":    cov,
		"assumptions": append(append([]string{}, p.Trusted...), p.Assume...),
		"wall_s":      wall,
		"violations":  violations,
	}
	b, _ := json.MarshalIndent(ev, "", " ")
	os.MkdirAll(outDir, 0o755)
	os.WriteFile(filepath.Join(outDir, p.ID+".json"), b, 0o644)
}

func doReplay(path string) int {
	b, err := os.ReadFile(path)
	if err != nil {
		fmt.Println(err)
		return 2
	}
	var rf replayFile
	if err := json.Unmarshal(b, &rf); err != nil {
		fmt.Println(err)
		return 2
	}
	fmt.Printf("replaying %s: property %s, rule %s, construct %s\nrecorded: %s\n", path, rf.Property, rf.Obl.Rule, rf.Obl.Key, rf.Diagnosis)
	cfg := Config{GOOS: rf.GOOS, GOARCH: rf.GOARCH, Tags: rf.Tags}
	if cfg.GOOS == "" {
		cfg = Config{GOOS: "linux", GOARCH: "amd64"}
	}
	runs := runConfigs(rf.Repo, []Config{cfg})
	if runs[0].Err != nil {
		fmt.Println("load:", runs[0].Err)
		return 1
	}
	found := 0
	var hits []Obligation
	for _, o := range runs[0].An.R.Obls {
		if o.Rule == rf.Obl.Rule && o.Key == rf.Obl.Key {
			hits = append(hits, o)
		}
	}
	sort.SliceStable(hits, func(i, j int) bool { return hits[i].Outcome > hits[j].Outcome })
	for _, o := range Collapse(hits) {
		fmt.Printf("now: [%s] %s %s at %s %s\n     %s\n", o.Outcome, o.Rule, o.Key, o.Pos, o.Ctx, o.Detail)
		if o.Outcome != Discharged {
			found++
		}
	}
	if found > 0 {
		fmt.Printf("VIOLATION property=%s replay=%s\n", rf.Property, path)
		return 1
	}
	fmt.Println("the obligation is discharged on the current tree")
	return 0
}
