package an

import (
	"flag"
	"fmt"
)

// Main is the entry point of the bipcheck command.
func Main(args []string) int {
	fs := flag.NewFlagSet("bipcheck", flag.ContinueOnError)
	repo := fs.String("repo", "/repo", "repository to analyse")
	debug := fs.String("debug", "", "debug: dump evaluation of the named function")
	if err := fs.Parse(args); err != nil {
		return 2
	}
	if *debug != "" {
		return debugDump(*repo, *debug)
	}
	fmt.Println("usage: bipcheck -property <id> -tier quick|thorough")
	return 2
}
