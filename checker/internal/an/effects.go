package an

import (
	"fmt"
	"go/token"
	"go/types"
	"sort"
	"strings"

	"golang.org/x/tools/go/ssa"
)

// Write is one instruction that writes a package-level variable of the module or the
// memory it refers to.
type Write struct {
	G        ssa.Value // *ssa.Global, or *ssa.Parameter for caller-owned memory
	Instr    ssa.Instruction
	Fn       *ssa.Function
	Kind     string // "store" (the variable itself) or "referent" (memory reached through it)
	How      string
	Test     bool // the writer lives in a _test.go file
	Synth    bool // the writer is the synthetic package initialiser (variable declarations)
	UserInit bool // the writer is a user-written init() function
}

// Effects is the E-index: who writes what.
type Effects struct {
	P       *Program
	Writes  map[ssa.Value][]Write
	Loads   map[*ssa.Global][]*ssa.UnOp           // every load of the variable
	AddrUse map[*ssa.Global][]ssa.Instruction     // uses of the variable's address other than load/store
	Invokes map[*ssa.Global][]ssa.CallInstruction // interface method calls on the value the variable holds (also through parameters it is passed as)
	Returns map[ssa.Value][]*ssa.Function         // functions that return memory reached through the variable
	Escapes map[ssa.Value][]string                // referent handed to code that is not modelled
	sites   map[*ssa.Function][]ssa.CallInstruction
	Funcs   int
}

// big.Int methods that do not write their receiver
var bigReadOnly = map[string]bool{
	"Int64": true, "Uint64": true, "IsInt64": true, "IsUint64": true, "Cmp": true, "CmpAbs": true, "Bytes": true,
	"FillBytes": true, "BitLen": true, "Sign": true, "Bit": true, "Bits": true, "String": true, "Text": true,
	"Append": true, "Format": true, "TrailingZeroBits": true, "ProbablyPrime": true, "MarshalText": true,
	"MarshalJSON": true, "GobEncode": true, "Float64": true,
}

func mutableType(t types.Type) bool {
	switch u := t.Underlying().(type) {
	case *types.Pointer, *types.Slice, *types.Map, *types.Chan, *types.Signature, *types.Interface:
		return true
	case *types.Struct:
		for i := 0; i < u.NumFields(); i++ {
			if mutableType(u.Field(i).Type()) {
				return true
			}
		}
	case *types.Array:
		return mutableType(u.Elem())
	}
	return false
}

// BuildEffects scans every function of the module (tests included, flagged).
func BuildEffects(p *Program) *Effects {
	ef := &Effects{P: p, Writes: map[ssa.Value][]Write{}, Loads: map[*ssa.Global][]*ssa.UnOp{}, AddrUse: map[*ssa.Global][]ssa.Instruction{},
		Returns: map[ssa.Value][]*ssa.Function{}, Escapes: map[ssa.Value][]string{}}
	fns := p.ModuleFuncs(true)
	ef.Funcs = len(fns)
	inMod := func(g *ssa.Global) bool { return g.Pkg != nil && p.InModule(g.Pkg) && g.Name() != "init$guard" }
	addWrite := func(g ssa.Value, in ssa.Instruction, kind, how string) {
		fn := in.Parent()
		root := fn
		for root.Parent() != nil {
			root = root.Parent()
		}
		w := Write{G: g, Instr: in, Fn: fn, Kind: kind, How: how, Test: p.IsTestFunc(fn)}
		if root.Synthetic != "" && root.Name() == "init" {
			w.Synth = true
		}
		if strings.HasPrefix(root.Name(), "init#") {
			w.UserInit = true
		}
		ef.Writes[g] = append(ef.Writes[g], w)
	}
	// pass 1: direct uses of the global's address
	for _, fn := range fns {
		for _, b := range fn.Blocks {
			for _, in := range b.Instrs {
				for _, op := range in.Operands(nil) {
					g, ok := (*op).(*ssa.Global)
					if !ok || !inMod(g) {
						continue
					}
					switch x := in.(type) {
					case *ssa.UnOp:
						if x.Op == token.MUL {
							ef.Loads[g] = append(ef.Loads[g], x)
							continue
						}
					case *ssa.Store:
						if x.Addr == ssa.Value(g) {
							addWrite(g, in, "store", "assignment")
							continue
						}
					case *ssa.IndexAddr, *ssa.FieldAddr:
						// pointer into the variable's own storage (arrays, structs): follow it
						ef.followPtr(g, in.(ssa.Value), addWrite, 0)
						continue
					case *ssa.DebugRef:
						continue
					}
					ef.AddrUse[g] = append(ef.AddrUse[g], in)
				}
			}
		}
	}
	// pass 2: memory reached through loaded values
	for g, loads := range ef.Loads {
		seen := map[ssa.Value]bool{}
		for _, ld := range loads {
			switch ld.Type().Underlying().(type) {
			case *types.Interface:
				// what an interface value refers to is reached only through its own methods: not
				// memory this module can write — but the calls of those methods are recorded,
				// wherever the value is handed (E1: a stateful object shared by all callers)
				ef.followIface(g, ld, map[ssa.Value]bool{}, 0)
				continue
			case *types.Signature:
				continue
			}
			if mutableType(ld.Type()) {
				ef.follow(g, ld, seen, addWrite, 0)
			}
		}
	}
	for g := range ef.Writes {
		ws := ef.Writes[g]
		sort.SliceStable(ws, func(i, j int) bool { return p.InstrPos(ws[i].Instr) < p.InstrPos(ws[j].Instr) })
	}
	return ef
}

// followIface records the interface method calls made on the value v that global g holds,
// following v into the module functions it is passed to and through φ-nodes, conversions
// and local variables.
func (ef *Effects) followIface(g *ssa.Global, v ssa.Value, seen map[ssa.Value]bool, depth int) {
	if seen[v] || depth > 8 || v.Referrers() == nil {
		return
	}
	seen[v] = true
	for _, r := range *v.Referrers() {
		switch x := r.(type) {
		case *ssa.Phi, *ssa.ChangeInterface, *ssa.MakeInterface, *ssa.ChangeType:
			ef.followIface(g, r.(ssa.Value), seen, depth+1)
		case *ssa.TypeAssert:
			if _, isIface := x.AssertedType.Underlying().(*types.Interface); isIface {
				ef.followIface(g, x, seen, depth+1)
			}
		case *ssa.Extract:
			ef.followIface(g, x, seen, depth+1)
		case *ssa.Store:
			if al, ok := x.Addr.(*ssa.Alloc); ok && x.Val == v {
				for _, ar := range *al.Referrers() {
					if ld, ok := ar.(*ssa.UnOp); ok && ld.Op == token.MUL {
						ef.followIface(g, ld, seen, depth+1)
					}
				}
			}
		case ssa.CallInstruction:
			cc := x.Common()
			if cc.IsInvoke() {
				if cc.Value == v {
					if ef.Invokes == nil {
						ef.Invokes = map[*ssa.Global][]ssa.CallInstruction{}
					}
					ef.Invokes[g] = append(ef.Invokes[g], x)
				}
				continue
			}
			callee := cc.StaticCallee()
			if callee == nil || len(callee.Blocks) == 0 {
				continue
			}
			pk := callee.Pkg
			if pk == nil && callee.Parent() != nil {
				pk = callee.Parent().Pkg
			}
			if pk == nil || !ef.P.InModule(pk) {
				continue
			}
			for i, arg := range cc.Args {
				if arg == v && i < len(callee.Params) {
					ef.followIface(g, callee.Params[i], seen, depth+1)
				}
			}
		}
	}
}

// followPtr: ptr points into the storage of g (element/field address).
func (ef *Effects) followPtr(g *ssa.Global, ptr ssa.Value, addWrite func(ssa.Value, ssa.Instruction, string, string), depth int) {
	if depth > 6 {
		return
	}
	for _, r := range *ptr.Referrers() {
		switch x := r.(type) {
		case *ssa.Store:
			if x.Addr == ptr {
				addWrite(g, x, "store", "element assignment")
			}
		case *ssa.UnOp:
			// load of an element
			if x.Op == token.MUL && mutableType(x.Type()) {
				ef.follow(g, x, map[ssa.Value]bool{}, addWrite, depth+1)
			}
		case *ssa.IndexAddr, *ssa.FieldAddr:
			ef.followPtr(g, r.(ssa.Value), addWrite, depth+1)
		case *ssa.DebugRef:
		default:
			ef.AddrUse[g] = append(ef.AddrUse[g], r)
		}
	}
}

// follow: v aliases memory reached through g.
func (ef *Effects) follow(g ssa.Value, v ssa.Value, seen map[ssa.Value]bool, addWrite func(ssa.Value, ssa.Instruction, string, string), depth int) {
	if seen[v] || depth > 12 {
		return
	}
	seen[v] = true
	p := ef.P
	refs := v.Referrers()
	if refs == nil {
		return
	}
	for _, r := range *refs {
		if r.Parent() != nil && p.IsTestFunc(r.Parent()) {
			if _, isParam := g.(*ssa.Parameter); isParam {
				continue
			}
			// test code: only its writes matter (they are flagged as test writers), not where it keeps aliases
			switch x := r.(type) {
			case *ssa.MapUpdate:
				if x.Map == v {
					addWrite(g, x, "referent", "map entry assignment")
				}
			case *ssa.IndexAddr:
				if x.X == v {
					for _, rr := range *x.Referrers() {
						if st, ok := rr.(*ssa.Store); ok && st.Addr == ssa.Value(x) {
							addWrite(g, st, "referent", "element assignment")
						}
					}
				}
			}
			continue
		}
		switch x := r.(type) {
		case *ssa.DebugRef:
		case *ssa.Phi, *ssa.ChangeType, *ssa.Convert, *ssa.MakeInterface, *ssa.ChangeInterface, *ssa.TypeAssert:
			if mutableType(r.(ssa.Value).Type()) {
				ef.follow(g, r.(ssa.Value), seen, addWrite, depth+1)
			}
		case *ssa.Slice:
			if x.X == v {
				ef.follow(g, x, seen, addWrite, depth+1)
			}
		case *ssa.IndexAddr:
			if x.X == v {
				ef.followElemPtr(g, x, seen, addWrite, depth+1)
			}
		case *ssa.FieldAddr:
			if x.X == v {
				ef.followElemPtr(g, x, seen, addWrite, depth+1)
			}
		case *ssa.Index, *ssa.Lookup, *ssa.Field:
			if val := r.(ssa.Value); mutableType(val.Type()) {
				ef.follow(g, val, seen, addWrite, depth+1)
			}
		case *ssa.Range, *ssa.BinOp, *ssa.If:
		case *ssa.UnOp:
			if x.Op == token.MUL && mutableType(x.Type()) { // load through a pointer held in the global
				ef.follow(g, x, seen, addWrite, depth+1)
			}
		case *ssa.Extract:
			if mutableType(x.Type()) {
				ef.follow(g, x, seen, addWrite, depth+1)
			}
		case *ssa.MapUpdate:
			if x.Map == v {
				addWrite(g, x, "referent", "map entry assignment")
			} else {
				ef.Escapes[g] = append(ef.Escapes[g], "stored into another map at "+p.InstrPos(x))
			}
		case *ssa.Store:
			if x.Addr == v {
				addWrite(g, x, "referent", "store through pointer")
				continue
			}
			// the alias is stored somewhere: local cell -> follow its loads; anything else escapes
			if a, ok := x.Addr.(*ssa.Alloc); ok {
				if _, isStruct := x.Val.Type().Underlying().(*types.Struct); isStruct {
					// a struct value holding the alias copied into a local: fields are read back from it
					ef.followCell(g, a, seen, addWrite, depth+1)
					continue
				}
				// the store is overwritten, further down the entry block, by another store to the
				// same cell (`buf = append([]byte(nil), buf...)` on a parameter that a closure
				// captures): the entry block runs once, so only what sits between the two sees it
				kill := overwrittenInEntry(x, a)
				for _, ar := range *a.Referrers() {
					if kill != nil && afterInEntry(ar, kill) {
						continue
					}
					if ld, ok := ar.(*ssa.UnOp); ok && ld.Op == token.MUL {
						ef.follow(g, ld, seen, addWrite, depth+1)
					}
					if mc, ok := ar.(*ssa.MakeClosure); ok {
						ef.followClosure(g, mc, a, seen, addWrite, depth+1)
					}
				}
				continue
			}
			if fa, ok := x.Addr.(*ssa.FieldAddr); ok {
				if ia, ok := fa.X.(*ssa.IndexAddr); ok {
					if g2, ok := ia.X.(*ssa.Global); ok && p.InModule(g2.Pkg) {
						// a field of an element of a package-level table of structs (per-language
						// descriptors): what is later loaded from that table may alias g
						ef.followTable(g, g2, seen, addWrite, depth+1)
						continue
					}
				}
				if a, ok := fa.X.(*ssa.Alloc); ok {
					// a field of a local struct (an `encoder{words: list, …}` carried between helper
					// steps): whatever is read back out of that struct may alias g
					ef.followCell(g, a, seen, addWrite, depth+1)
					continue
				}
			}
			if ia, ok := x.Addr.(*ssa.IndexAddr); ok {
				if g2, ok := ia.X.(*ssa.Global); ok && p.InModule(g2.Pkg) {
					// stored into a package-level table (e.g. an array of word lists): what is later
					// loaded from that table aliases g; follow the table's element loads
					ef.followTable(g, g2, seen, addWrite, depth+1)
					continue
				}
				if a, ok := ia.X.(*ssa.Alloc); ok {
					// element of a local array (the variadic argument array): follow the array's slices
					for _, ar := range *a.Referrers() {
						if sl, ok := ar.(*ssa.Slice); ok {
							ef.follow(g, sl, seen, addWrite, depth+1)
						}
					}
					continue
				}
			}
			if g2, ok := x.Addr.(*ssa.Global); ok {
				ef.Escapes[g] = append(ef.Escapes[g], fmt.Sprintf("aliased by package-level variable %s at %s", g2.Name(), p.InstrPos(x)))
				continue
			}
			ef.Escapes[g] = append(ef.Escapes[g], "stored to memory at "+p.InstrPos(x))
		case *ssa.MakeClosure:
			ef.followClosure(g, x, v, seen, addWrite, depth+1)
		case *ssa.Return:
			fn := x.Parent()
			ef.Returns[g] = append(ef.Returns[g], fn)
			// flow to the static call sites of fn inside the module
			idx := -1
			for i, res := range x.Results {
				if res == v {
					idx = i
				}
			}
			for _, site := range ef.callSites(fn) {
				val := site.Value()
				if val == nil {
					continue
				}
				if len(x.Results) == 1 {
					ef.follow(g, val, seen, addWrite, depth+1)
				} else {
					for _, er := range *val.Referrers() {
						if ex, ok := er.(*ssa.Extract); ok && ex.Index == idx {
							ef.follow(g, ex, seen, addWrite, depth+1)
						}
					}
				}
			}
		case ssa.CallInstruction:
			ef.followCall(g, x, v, seen, addWrite, depth+1)
		case *ssa.Send:
			ef.Escapes[g] = append(ef.Escapes[g], "sent on a channel at "+p.InstrPos(x))
		default:
			ef.Escapes[g] = append(ef.Escapes[g], fmt.Sprintf("used by %T at %s", r, p.InstrPos(r)))
		}
	}
}

// overwrittenInEntry: st stores into the local cell a in the entry block of its function, and a
// later instruction of that block stores into a again; that later store (nil otherwise).  The
// cell's address must go nowhere but to loads, stores and closures.
func overwrittenInEntry(st *ssa.Store, a *ssa.Alloc) *ssa.Store {
	fn := st.Parent()
	if fn == nil || len(fn.Blocks) == 0 || st.Block() != fn.Blocks[0] || len(fn.Blocks[0].Preds) != 0 {
		return nil
	}
	for _, r := range *a.Referrers() {
		switch x := r.(type) {
		case *ssa.Store:
			if x.Addr != ssa.Value(a) {
				return nil
			}
		case *ssa.UnOp, *ssa.MakeClosure, *ssa.DebugRef:
		default:
			return nil
		}
	}
	seen := false
	for _, in := range fn.Blocks[0].Instrs {
		if in == ssa.Instruction(st) {
			seen = true
			continue
		}
		if s2, ok := in.(*ssa.Store); ok && seen && s2.Addr == ssa.Value(a) {
			return s2
		}
	}
	return nil
}

// afterInEntry: instruction in runs only after the entry-block instruction kill has run (it
// follows it in the entry block, or lies in another block of the same function).
func afterInEntry(in ssa.Instruction, kill *ssa.Store) bool {
	if in.Parent() != kill.Parent() {
		return false
	}
	if in.Block() != kill.Block() {
		return true // every other block is entered from the entry block's end
	}
	after := false
	for _, x := range kill.Block().Instrs {
		if x == ssa.Instruction(kill) {
			after = true
			continue
		}
		if x == in {
			return after
		}
	}
	return false
}

func (ef *Effects) followElemPtr(g ssa.Value, ptr ssa.Value, seen map[ssa.Value]bool, addWrite func(ssa.Value, ssa.Instruction, string, string), depth int) {
	for _, r := range *ptr.Referrers() {
		switch x := r.(type) {
		case *ssa.Store:
			if x.Addr == ptr {
				addWrite(g, x, "referent", "element assignment")
			}
		case *ssa.UnOp:
			if x.Op == token.MUL && mutableType(x.Type()) {
				ef.follow(g, x, seen, addWrite, depth+1)
			}
		case *ssa.IndexAddr, *ssa.FieldAddr:
			ef.followElemPtr(g, r.(ssa.Value), seen, addWrite, depth+1)
		case *ssa.DebugRef:
		case ssa.CallInstruction:
			ef.Escapes[g] = append(ef.Escapes[g], "element address passed to a call at "+ef.P.InstrPos(r))
		default:
			ef.Escapes[g] = append(ef.Escapes[g], fmt.Sprintf("element address used by %T at %s", r, ef.P.InstrPos(r)))
		}
	}
}

func (ef *Effects) followClosure(g ssa.Value, mc *ssa.MakeClosure, bound ssa.Value, seen map[ssa.Value]bool, addWrite func(ssa.Value, ssa.Instruction, string, string), depth int) {
	fn, ok := mc.Fn.(*ssa.Function)
	if !ok {
		return
	}
	for i, b := range mc.Bindings {
		if b != bound || i >= len(fn.FreeVars) {
			continue
		}
		fv := fn.FreeVars[i]
		if _, isAlloc := bound.(*ssa.Alloc); isAlloc {
			// the closure captured the cell: its loads alias, its stores do not touch g
			for _, r := range *fv.Referrers() {
				if ld, ok := r.(*ssa.UnOp); ok && ld.Op == token.MUL {
					ef.follow(g, ld, seen, addWrite, depth+1)
				}
			}
			continue
		}
		ef.follow(g, fv, seen, addWrite, depth+1)
	}
}

func (ef *Effects) callSites(fn *ssa.Function) []ssa.CallInstruction {
	if ef.sites == nil {
		ef.sites = map[*ssa.Function][]ssa.CallInstruction{}
		for _, f := range ef.P.ModuleFuncs(true) {
			for _, b := range f.Blocks {
				for _, in := range b.Instrs {
					if c, ok := in.(ssa.CallInstruction); ok {
						if callee := c.Common().StaticCallee(); callee != nil {
							ef.sites[callee] = append(ef.sites[callee], c)
						}
					}
				}
			}
		}
	}
	return ef.sites[fn]
}

// ParamWrites follows a slice/pointer parameter the way globals are followed: every
// instruction that may write the caller's memory, and every escape.
func (ef *Effects) ParamWrites(p *ssa.Parameter) ([]Write, []string, []*ssa.Function) {
	var ws []Write
	add := func(g ssa.Value, in ssa.Instruction, kind, how string) {
		ws = append(ws, Write{G: g, Instr: in, Fn: in.Parent(), Kind: kind, How: how})
	}
	delete(ef.Escapes, p)
	delete(ef.Returns, p)
	ef.follow(p, p, map[ssa.Value]bool{}, add, 0)
	return ws, ef.Escapes[p], ef.Returns[p]
}

func (ef *Effects) followCall(g ssa.Value, c ssa.CallInstruction, v ssa.Value, seen map[ssa.Value]bool, addWrite func(ssa.Value, ssa.Instruction, string, string), depth int) {
	cc := c.Common()
	p := ef.P
	argIdx := -1
	for i, a := range cc.Args {
		if a == v {
			argIdx = i
		}
	}
	if cc.IsInvoke() {
		if cc.Value == v {
			// method call on an interface value held in the global (possibly handed down as a
			// parameter): recorded; E1 treats the object as shared state every call may change
			if gg, ok := g.(*ssa.Global); ok {
				if ef.Invokes == nil {
					ef.Invokes = map[*ssa.Global][]ssa.CallInstruction{}
				}
				ef.Invokes[gg] = append(ef.Invokes[gg], c)
			}
			return
		}
		if cc.Method.Name() == "Write" && len(cc.Args) == 1 {
			return // io.Writer contract: Write must not modify the slice data, even temporarily, nor retain it
		}
		ef.Escapes[g] = append(ef.Escapes[g], fmt.Sprintf("passed to interface method %s at %s", cc.Method.Name(), p.InstrPos(c)))
		return
	}
	if b, ok := cc.Value.(*ssa.Builtin); ok {
		switch b.Name() {
		case "len", "cap", "print", "println", "min", "max":
		case "copy":
			if argIdx == 0 {
				addWrite(g, c, "referent", "copy destination")
			}
		case "append":
			if argIdx == 0 {
				addWrite(g, c, "referent", "append (may write into spare capacity)")
			}
		case "delete", "clear":
			addWrite(g, c, "referent", b.Name())
		default:
			ef.Escapes[g] = append(ef.Escapes[g], "builtin "+b.Name()+" at "+p.InstrPos(c))
		}
		return
	}
	if cc.Value == v {
		return // calling a function value stored in the global
	}
	callee := cc.StaticCallee()
	if callee == nil {
		ef.Escapes[g] = append(ef.Escapes[g], "passed to a dynamic call at "+p.InstrPos(c))
		return
	}
	if argIdx < 0 {
		return
	}
	pk := callee.Pkg
	if pk == nil && callee.Parent() != nil {
		pk = callee.Parent().Pkg
	}
	if pk != nil && p.InModule(pk) && len(callee.Blocks) > 0 {
		if argIdx < len(callee.Params) {
			ef.follow(g, callee.Params[argIdx], seen, addWrite, depth+1)
		}
		return
	}
	name := callee.String()
	if name == "(golang.org/x/text/unicode/norm.Form).Append" || name == "(golang.org/x/text/unicode/norm.Form).AppendString" {
		// f.Append(dst, …) writes behind len(dst) when dst has spare capacity, like append
		if argIdx == 1 {
			addWrite(g, c, "referent", "destination of "+callee.Name()+" (may write into spare capacity)")
		}
		return
	}
	if strings.HasPrefix(name, "(*math/big.Int).") {
		m := callee.Name()
		switch {
		case argIdx == 0 && !bigReadOnly[m]:
			addWrite(g, c, "referent", "receiver of big.Int."+m)
		case (m == "QuoRem" || m == "DivMod") && argIdx == 3:
			addWrite(g, c, "referent", "remainder operand of big.Int."+m)
		}
		return
	}
	if name == "(*sync.Once).Do" {
		return
	}
	if isReadOnly(name) || strings.HasPrefix(name, "(*testing.") || strings.HasPrefix(name, "testing.") || name == "reflect.DeepEqual" {
		return
	}
	if name == "io.ReadFull" || name == "io.ReadAtLeast" {
		if argIdx == 0 {
			return // the reader's own state
		}
		addWrite(g, c, "referent", "filled by "+name)
		return
	}
	// unknown callee: it may write what it is given
	addWrite(g, c, "referent", "passed to "+name+", which may modify it")
}

// followCell: cell points to a local struct one of whose fields holds an alias of memory
// reached through g (field-insensitive: every mutable thing read out of the struct is followed).
func (ef *Effects) followCell(g ssa.Value, cell ssa.Value, seen map[ssa.Value]bool, addWrite func(ssa.Value, ssa.Instruction, string, string), depth int) {
	if seen[cell] || depth > 12 {
		return
	}
	seen[cell] = true
	p := ef.P
	refs := cell.Referrers()
	if refs == nil {
		return
	}
	for _, r := range *refs {
		switch x := r.(type) {
		case *ssa.DebugRef:
		case *ssa.FieldAddr:
			for _, rr := range *x.Referrers() {
				switch y := rr.(type) {
				case *ssa.UnOp:
					if y.Op == token.MUL && mutableType(y.Type()) {
						ef.follow(g, y, seen, addWrite, depth+1)
					}
				case *ssa.Store, *ssa.DebugRef:
				default:
					ef.Escapes[g] = append(ef.Escapes[g], fmt.Sprintf("address of a field of a struct holding it used by %T at %s", rr, p.InstrPos(rr)))
				}
			}
		case *ssa.UnOp:
			if x.Op == token.MUL {
				ef.follow(g, x, seen, addWrite, depth+1)
			}
		case *ssa.Store:
			if x.Addr != cell {
				ef.Escapes[g] = append(ef.Escapes[g], "pointer to a struct holding it stored at "+p.InstrPos(x))
			}
		case *ssa.MakeClosure:
			ef.followClosure(g, x, cell, seen, addWrite, depth+1)
		case ssa.CallInstruction:
			cc := x.Common()
			callee := cc.StaticCallee()
			handled := false
			if callee != nil && len(callee.Blocks) > 0 {
				pk := callee.Pkg
				if pk == nil && callee.Parent() != nil {
					pk = callee.Parent().Pkg
				}
				if pk != nil && p.InModule(pk) {
					for i, a := range cc.Args {
						if a == cell && i < len(callee.Params) {
							ef.followCell(g, callee.Params[i], seen, addWrite, depth+1)
							handled = true
						}
					}
				}
			}
			if !handled {
				ef.Escapes[g] = append(ef.Escapes[g], "pointer to a struct holding it passed to a call at "+p.InstrPos(x))
			}
		default:
			ef.Escapes[g] = append(ef.Escapes[g], fmt.Sprintf("pointer to a struct holding it used by %T at %s", r, p.InstrPos(r)))
		}
	}
}

// followTable: memory reached through g was stored into an element of package-level table t;
// every value loaded from an element of t may alias it.
func (ef *Effects) followTable(g ssa.Value, t *ssa.Global, seen map[ssa.Value]bool, addWrite func(ssa.Value, ssa.Instruction, string, string), depth int) {
	if depth > 12 {
		return
	}
	refs := t.Referrers()
	if refs == nil {
		// globals have no referrer lists: scan the module
		for _, fn := range ef.P.ModuleFuncs(true) {
			for _, b := range fn.Blocks {
				for _, in := range b.Instrs {
					ia, ok := in.(*ssa.IndexAddr)
					if !ok || ia.X != ssa.Value(t) {
						continue
					}
					for _, r := range *ia.Referrers() {
						if ld, ok := r.(*ssa.UnOp); ok && ld.Op == token.MUL && mutableType(ld.Type()) {
							ef.follow(g, ld, seen, addWrite, depth+1)
						}
						if fa, ok := r.(*ssa.FieldAddr); ok {
							// table of structs: a field of the selected element
							for _, fr := range *fa.Referrers() {
								if ld, ok := fr.(*ssa.UnOp); ok && ld.Op == token.MUL && mutableType(ld.Type()) {
									ef.follow(g, ld, seen, addWrite, depth+1)
								}
							}
						}
					}
				}
			}
		}
	}
}
