package an

import (
	"crypto/sha256"
	"encoding/hex"
	"fmt"
	"go/ast"
	"go/constant"
	"go/token"
	"go/types"
	"sort"
	"strings"
	"unicode"

	"golang.org/x/text/unicode/norm"
	"golang.org/x/tools/go/packages"
	"golang.org/x/tools/go/ssa"
)

func constStr(c *ssa.Const) (string, bool) {
	if c.Value == nil || c.Value.Kind() != constant.String {
		return "", false
	}
	return constant.StringVal(c.Value), true
}

// ---------------------------------------------------------------- T1

// ruleT1: the constants of type Language are exactly the ten BIP39 languages, values 0..9.
func (a *Analysis) ruleT1() {
	r := a.R
	if a.G.LangType == nil {
		r.Unk("T1", "Language", "-", "", "type Language not found")
		return
	}
	pos := a.P.Pos(a.G.LangType.Obj().Pos())
	r.Counts["T1.constants"] = len(a.G.LangConst)
	r.Check(len(a.G.LangConst) == len(SpecLangs), "T1", "Language/count", pos, "",
		fmt.Sprintf("%d exported constants of type Language", len(a.G.LangConst)),
		fmt.Sprintf("%d exported constants of type Language, BIP39 table has %d", len(a.G.LangConst), len(SpecLangs)))
	for _, c := range a.G.LangOther {
		r.OK("T1", "Language/unexported/"+c.Name, a.P.Pos(c.Pos), "", "unexported constant %s = %d of type Language: not a language a caller can name", c.Name, c.Val)
	}
	seenVal := map[int64]string{}
	for _, c := range a.G.LangConst {
		cp := a.P.Pos(c.Pos)
		if prev, dup := seenVal[c.Val]; dup {
			r.Bad("T1", "Language/"+c.Name, cp, "", "constant %s has the same value %d as %s", c.Name, c.Val, prev)
			continue
		}
		seenVal[c.Val] = c.Name
		if specByName(c.Name) == nil {
			r.Bad("T1", "Language/"+c.Name, cp, "", "constant %s is not a BIP39 language name", c.Name)
			continue
		}
		r.OK("T1", "Language/"+c.Name, cp, "", "%s = %d", c.Name, c.Val)
	}
	for _, s := range SpecLangs {
		found := false
		for _, c := range a.G.LangConst {
			if c.Name == s.Name {
				found = true
			}
		}
		if !found {
			r.Bad("T1", "Language/"+s.Name, pos, "", "no constant for BIP39 language %s", s.Name)
		}
	}
	for v := int64(0); v < int64(len(a.G.LangConst)); v++ {
		if _, ok := seenVal[v]; !ok {
			r.Bad("T1", fmt.Sprintf("Language/value%d", v), pos, "", "no constant has value %d (values must be 0..%d)", v, len(a.G.LangConst)-1)
		}
	}
}

// ---------------------------------------------------------------- T5

func hasWhiteOrControl(s string) (rune, bool) {
	for _, c := range s {
		if unicode.Is(unicode.White_Space, c) || unicode.IsControl(c) || c == unicode.ReplacementChar {
			return c, true
		}
	}
	return 0, false
}

// ruleT5: every word list literal is well formed and canonical.
func (a *Analysis) ruleT5() {
	r := a.R
	words := 0
	nlists := 0
	for _, gl := range a.G.ListOrder {
		if gl.Pkg != a.P.Words {
			continue
		}
		nlists++
		l := a.G.Lists[gl]
		key := "list/" + gl.Name()
		pos := a.P.Pos(gl.Pos())
		words += len(l.Elems)
		ok := true
		if len(l.Elems) != 2048 {
			r.Bad("T5w", key+"/length", pos, "", "%s has %d words, BIP39 lists have 2048", gl.Name(), len(l.Elems))
			ok = false
		} else {
			r.OK("T5w", key+"/length", pos, "", "2048 words")
		}
		seen := map[string]int{}
		bad := 0
		for i, w := range l.Elems {
			switch {
			case w == "":
				r.Bad("T5w", fmt.Sprintf("%s/word[%d]", key, i), pos, "", "empty word at index %d", i)
				bad++
			case norm.NFKD.String(w) != w:
				r.Bad("T5w", fmt.Sprintf("%s/word[%d]", key, i), pos, "", "word %q at index %d is not NFKD-stable (NFKD form %q): NFKD-normalised input can never match it", w, i, norm.NFKD.String(w))
				bad++
			default:
				if c, has := hasWhiteOrControl(w); has {
					r.Bad("T5w", fmt.Sprintf("%s/word[%d]", key, i), pos, "", "word %q at index %d contains white space or control character U+%04X", w, i, c)
					bad++
				}
			}
			if j, dup := seen[w]; dup {
				r.Bad("T5w", fmt.Sprintf("%s/word[%d]", key, i), pos, "", "word %q occurs at index %d and %d: index→word is not injective", w, j, i)
				bad++
			}
			seen[w] = i
			if bad > 8 {
				break
			}
		}
		if bad == 0 {
			r.OK("T5w", key+"/words", pos, "", "%d words: non-empty, pairwise distinct, no white space, NFKD-stable", len(l.Elems))
		} else {
			ok = false
		}
		h := sha256.New()
		for _, w := range l.Elems {
			h.Write([]byte(w))
			h.Write([]byte("\n"))
		}
		d := hex.EncodeToString(h.Sum(nil))
		if sp := specByDigest(d); sp != nil {
			if prev, dup := a.ListOfLang[sp.Name]; dup {
				r.Bad("T5d", key+"/digest", pos, "", "%s and %s both hold the %s list", gl.Name(), prev.Name(), sp.Name)
			} else {
				a.ListLang[gl] = sp
				a.ListOfLang[sp.Name] = gl
				r.OK("T5d", key+"/digest", pos, "", "content is the canonical %s list (sha256 %s…)", sp.Name, d[:16])
			}
		} else {
			// name the nearest intent: which canonical list differs?
			r.Bad("T5d", key+"/digest", pos, "", "content of %s (sha256 %s…) is none of the ten canonical BIP39 lists%s", gl.Name(), d[:16], a.diffHint(l))
			ok = false
		}
		_ = ok
	}
	r.Counts["T5.words"] = words
	r.Counts["T5.lists"] = nlists
	// every canonical language has a list
	for _, s := range SpecLangs {
		if _, ok := a.ListOfLang[s.Name]; !ok {
			r.Bad("T5d", "list-for/"+s.Name, "-", "", "no package-level word list holds the canonical %s list", s.Name)
		}
	}
}

func (a *Analysis) diffHint(l *ListV) string {
	// cheap structural hints that do not need the canonical text
	for i := 1; i < len(l.Elems); i++ {
		if l.Elems[i] == l.Elems[i-1] {
			return fmt.Sprintf(" (adjacent duplicate %q at %d)", l.Elems[i], i)
		}
	}
	return ""
}

// ---------------------------------------------------------------- E2

// ruleE2: no concurrency primitive, unsafe, reflect, cgo or linkname in the module's library code.
func (a *Analysis) ruleE2() {
	r := a.R
	n := 0
	for _, pk := range a.P.Pkgs {
		if pk == a.P.GenP {
			continue
		}
		for _, imp := range []string{"unsafe", "reflect", "sync/atomic", "C"} {
			if _, ok := pk.Imports[imp]; ok {
				if imp == "sync/atomic" {
					// accepted when every use is accounted for by E1's counter class
					if why := a.atomicsAccounted(pk); why == "" {
						r.OK("E2", "import/"+pk.PkgPath+"/"+imp, "-", "", "sync/atomic is used for event counters only (E1 class counter)")
					} else {
						r.Bad("E2", "import/"+pk.PkgPath+"/"+imp, "-", "", "package %s imports %s: %s", pk.PkgPath, imp, why)
					}
					continue
				}
				r.Bad("E2", "import/"+pk.PkgPath+"/"+imp, "-", "", "package %s imports %s", pk.PkgPath, imp)
			}
		}
		for _, f := range pk.Syntax {
			for _, cg := range f.Comments {
				for _, c := range cg.List {
					if strings.HasPrefix(c.Text, "//go:linkname") {
						r.Bad("E2", "linkname/"+a.P.Pos(c.Pos()), a.P.Pos(c.Pos()), "", "go:linkname directive")
					}
				}
			}
			ast.Inspect(f, func(nd ast.Node) bool {
				switch x := nd.(type) {
				case *ast.GoStmt:
					r.Bad("E2", "go/"+a.P.Pos(x.Pos()), a.P.Pos(x.Pos()), "", "go statement in library code")
				case *ast.SendStmt:
					r.Bad("E2", "send/"+a.P.Pos(x.Pos()), a.P.Pos(x.Pos()), "", "channel send in library code")
				case *ast.SelectStmt:
					r.Bad("E2", "select/"+a.P.Pos(x.Pos()), a.P.Pos(x.Pos()), "", "select statement in library code")
				case *ast.ChanType:
					r.Bad("E2", "chan/"+a.P.Pos(x.Pos()), a.P.Pos(x.Pos()), "", "channel type in library code")
				case *ast.UnaryExpr:
					if x.Op == token.ARROW {
						r.Bad("E2", "recv/"+a.P.Pos(x.Pos()), a.P.Pos(x.Pos()), "", "channel receive in library code")
					}
				}
				n++
				return true
			})
		}
		r.OK("E2", "package/"+pk.PkgPath, "-", "", "no go statement, channel operation, sync/atomic, unsafe, reflect, cgo or linkname")
	}
	r.Counts["E2.nodes"] = n
}

// atomicsAccounted: every mention of sync/atomic in the non-test files of pk is a call whose
// first argument points into an event counter (E1 class "counter") or the type of such a
// counter in its package-level declaration; "" if so, otherwise the first use that is not.
func (a *Analysis) atomicsAccounted(pk *packages.Package) string {
	sp := a.P.SSA.Package(pk.Types)
	if sp == nil {
		return "package not built"
	}
	// declarations of counters: source ranges in which the type may be named
	type span struct{ lo, hi token.Pos }
	var okSpans []span
	for _, f := range pk.Syntax {
		if strings.HasSuffix(a.P.Fset.Position(f.Pos()).Filename, "_test.go") {
			continue
		}
		for _, d := range f.Decls {
			gd, ok := d.(*ast.GenDecl)
			if !ok || gd.Tok != token.VAR {
				continue
			}
			for _, spec := range gd.Specs {
				vs := spec.(*ast.ValueSpec)
				all := len(vs.Names) > 0
				for _, nm := range vs.Names {
					g, _ := sp.Members[nm.Name].(*ssa.Global)
					if g == nil || !a.isCounter(g) {
						all = false
					}
				}
				if all {
					okSpans = append(okSpans, span{vs.Pos(), vs.End()})
				}
			}
		}
	}
	var ids []*ast.Ident
	for id, obj := range pk.TypesInfo.Uses {
		if obj.Pkg() != nil && obj.Pkg().Path() == "sync/atomic" {
			ids = append(ids, id)
		}
	}
	sort.Slice(ids, func(i, j int) bool { return ids[i].Pos() < ids[j].Pos() })
	for _, id := range ids {
		if strings.HasSuffix(a.P.Fset.Position(id.Pos()).Filename, "_test.go") {
			continue
		}
		obj := pk.TypesInfo.Uses[id]
		switch obj.(type) {
		case *types.TypeName:
			in := false
			for _, s := range okSpans {
				if id.Pos() >= s.lo && id.Pos() < s.hi {
					in = true
				}
			}
			if !in {
				return "type " + obj.Name() + " is used at " + a.P.Pos(id.Pos()) + " other than to declare a package-level event counter"
			}
		case *types.Func:
			// judged at the call below
		default:
			return obj.Name() + " is used at " + a.P.Pos(id.Pos())
		}
	}
	for _, fn := range a.P.ModuleFuncs(false) {
		if fn.Pkg != sp && (fn.Parent() == nil || fn.Parent().Pkg != sp) {
			continue
		}
		for _, b := range fn.Blocks {
			for _, in := range b.Instrs {
				for _, op := range in.Operands(nil) {
					f, ok := (*op).(*ssa.Function)
					if !ok || f.Pkg == nil || f.Pkg.Pkg.Path() != "sync/atomic" {
						continue
					}
					if f.Name() == "init" && f.Synthetic != "" {
						continue // the imported package's initialiser, called by this package's
					}
					if !a.counterBump(in) {
						return f.String() + " is used at " + a.P.InstrPos(in) + " on something that is not an event counter"
					}
				}
			}
		}
	}
	return ""
}

// ---------------------------------------------------------------- T3

// guardElemName: "fooOnce", or "onces[3]" for an element of an array of sync.Once.
func guardElemName(g *ssa.Global, idx int64) string {
	if g == nil {
		return "<no guard>"
	}
	if idx >= 0 {
		return fmt.Sprintf("%s[%d]", g.Name(), idx)
	}
	return g.Name()
}

// onceDoCalls returns every call (*sync.Once).Do in non-test module code with its guard and function operands.
type doCall struct {
	Instr ssa.CallInstruction
	Guard *ssa.Global
	GIdx  int64 // the guard is element GIdx of the package-level array Guard of sync.Once (-1: Guard is a sync.Once itself)
	Fn    *ssa.Function
}

// onceArrayElem: ptr is &G[k] for a package-level array G of sync.Once and a constant k.
func onceArrayElem(ptr ssa.Value) (*ssa.Global, int64) {
	ia, ok := ptr.(*ssa.IndexAddr)
	if !ok {
		return nil, -1
	}
	g, ok := ia.X.(*ssa.Global)
	if !ok {
		return nil, -1
	}
	at, ok := g.Type().(*types.Pointer).Elem().Underlying().(*types.Array)
	if !ok || !isOnce(at.Elem()) {
		return nil, -1
	}
	k, isC := intConst(ia.Index)
	if !isC || k < 0 || k >= at.Len() {
		return nil, -1
	}
	return g, k
}

func (a *Analysis) onceDoCalls() []doCall {
	var out []doCall
	for _, fn := range a.P.ModuleFuncs(false) {
		for _, c := range callsIn(fn) {
			cc := c.Common()
			if callee := cc.StaticCallee(); callee == nil || callee.String() != "(*sync.Once).Do" || len(cc.Args) != 2 {
				continue
			}
			d := doCall{Instr: c, GIdx: -1}
			d.Guard, _ = cc.Args[0].(*ssa.Global)
			if d.Guard == nil {
				d.Guard, d.GIdx = onceArrayElem(cc.Args[0])
			}
			switch f := cc.Args[1].(type) {
			case *ssa.MakeClosure:
				d.Fn, _ = f.Fn.(*ssa.Function)
			case *ssa.Function:
				d.Fn = f
			}
			out = append(out, d)
		}
	}
	return out
}

// ruleT3: each language's lookup map is built exactly once, under its own guard, as the
// inverse of that language's own list, and is read only after the guard.
func (a *Analysis) ruleT3() {
	r := a.R
	if a.CM == nil {
		return
	}
	dos := a.onceDoCalls()
	maps := 0
	usedGuard := map[string]string{}
	for _, lc := range a.langCtxs() {
		var mapAV AV
		var site ssa.Instruction
		var ctx *Ctx
		sizes := specWordCounts()
		if a.Gate3 != nil && len(a.Gate3.passed()) > 0 {
			sizes = a.Gate3.passed()
		}
		var calls []CallRec
		for _, n := range sizes {
			n := n
			ctx = &Ctx{Name: fmt.Sprintf("T3:N=%d,lang=%s", n, lc.Name), TokCount: &n, Lang: &lc.V}
			calls = append(calls, a.eval(a.CM, ctx).Calls...)
		}
		for _, c := range calls {
			if c.Callee == "lookup" {
				if k, ok := c.Args[1].(StrV); !ok || k.Kind != skTok {
					continue // not the word lookup (e.g. a table of valid sizes)
				}
				if mapAV != nil && mapAV.String() != c.Args[0].String() {
					r.Unk("T3", "map-of/"+lc.Name, a.P.InstrPos(c.Instr), ctx.Name, "the validator looks words up in more than one map (%v and %v)", mapAV, c.Args[0])
				}
				mapAV, site = c.Args[0], c.Instr
			}
		}
		key := "map-of/" + lc.Name
		if lc.Const == nil {
			// unsupported values: no map, every lookup fails, nothing is written
			switch mapAV.(type) {
			case NilV:
				r.OK("T3", key, a.P.InstrPos(site), "", "unsupported language values get a nil map (every lookup fails)")
			case nil:
				r.OK("T3", key, "-", "", "no lookup is reached for unsupported language values")
			default:
				r.Bad("T3", key, a.P.InstrPos(site), "", "unsupported language values are validated against %v", mapAV)
			}
			continue
		}
		mv, ok := mapAV.(MapV)
		if !ok {
			r.Unk("T3", key, a.P.InstrPos(site), "", "the lookup map for %s is not a load of a package-level map (got %v)", lc.Name, mapAV)
			continue
		}
		M := mv.G
		pos := a.P.Pos(M.Pos())
		if prev, dup := a.MapOf[lc.Name]; dup && prev != M {
			r.Bad("T3", key, pos, "", "two maps for %s", lc.Name)
		}
		for other, m2 := range a.MapOf {
			if m2 == M && other != lc.Name {
				r.Bad("T3", key, pos, "", "%s and %s are validated against the same map %s", lc.Name, other, M.Name())
			}
		}
		a.MapOf[lc.Name] = M
		maps++
		// an entry of a descriptor table (list, *map, Once per language)?
		if a.t3Desc(lc, M, usedGuard) {
			continue
		}
		// built through a lazy-construction helper called with &guard, &M, list?
		if insts := a.lazyInstances()[M]; len(insts) > 0 {
			nw := 0
			for _, w := range a.Ef.Writes[M] {
				if !w.Test {
					nw++
				}
			}
			if nw == 0 {
				a.t3Lazy(lc, M, insts, usedGuard)
				continue
			}
		}
		// writers of M
		var builder *ssa.Function
		okW := true
		nw := 0
		for _, w := range a.Ef.Writes[M] {
			if w.Test {
				continue
			}
			nw++
			if builder == nil {
				builder = w.Fn
			} else if builder != w.Fn {
				r.Bad("T3", "writers/"+M.Name(), a.P.InstrPos(w.Instr), "", "%s is written by %s and by %s: it must be built by one function", M.Name(), fnKey(builder), fnKey(w.Fn))
				okW = false
			}
		}
		if builder == nil {
			taken := ""
			for _, u := range a.Ef.AddrUse[M] {
				if !a.P.IsTestFunc(u.Parent()) {
					taken = a.P.InstrPos(u)
					break
				}
			}
			if taken != "" {
				// written, if at all, through a pointer the rules do not follow (a table of
				// `&fooMapping` filled in a loop, descriptors holding the pointer): not one of the
				// recognised constructions
				r.Unk("T3", "writers/"+M.Name(), pos, "", "%s is not assigned by name anywhere, but its address is taken (%s): a construction through that pointer is not one of the recognised forms", M.Name(), taken)
			} else {
				r.Bad("T3", "writers/"+M.Name(), pos, "", "%s is never written: lookups for %s always fail", M.Name(), lc.Name)
			}
			continue
		}
		if esc := a.Ef.Escapes[M]; len(esc) > 0 {
			r.Unk("T3", "writers/"+M.Name(), pos, "", "%s escapes the analysis: %s", M.Name(), strings.Join(esc, "; "))
			okW = false
		}
		if okW {
			r.OK("T3", "writers/"+M.Name(), pos, "", "%d writes, all inside %s", nw, fnKey(builder))
		}
		// the builder is run only as the function of one guard, and that guard runs only this function
		var guard *ssa.Global
		gidx := int64(-1)
		synth := builder.Synthetic != "" && builder.Name() == "init" || strings.HasPrefix(builder.Name(), "init#")
		if synth {
			r.OK("T3", "guard/"+M.Name(), pos, "", "%s is built during package initialisation: no guard needed", M.Name())
			a.initBuilt++
		} else {
			var mine []doCall
			for _, d := range dos {
				if d.Fn == builder {
					mine = append(mine, d)
				}
			}
			refsOK := a.onlyUsedByDo(builder)
			switch {
			case len(mine) == 0:
				r.Bad("T3", "guard/"+M.Name(), a.P.Pos(builder.Pos()), "", "%s is built by %s, which is not run under a sync.Once: concurrent first use races on the map", M.Name(), fnKey(builder))
			case !refsOK:
				r.Bad("T3", "guard/"+M.Name(), a.P.Pos(builder.Pos()), "", "%s is also called or referenced outside (*sync.Once).Do", fnKey(builder))
			default:
				guard, gidx = mine[0].Guard, mine[0].GIdx
				same := true
				for _, d := range mine {
					if d.Guard != guard || d.GIdx != gidx || d.Guard == nil {
						same = false
					}
				}
				allUnnamed := true
				for _, d := range mine {
					if d.Guard != nil {
						allUnnamed = false
					}
				}
				if allUnnamed {
					// an element of an array of sync.Once, a Once reached through a pointer: which
					// Once it is, and what else runs under it, is not something these rules follow
					r.Unk("T3", "guard/"+M.Name(), a.P.InstrPos(mine[0].Instr), "", "%s is run under a sync.Once that is not a package-level variable of its own (an array element, a pointer): not one of the recognised guards", fnKey(builder))
					guard = nil
				} else if !same || guard == nil {
					r.Bad("T3", "guard/"+M.Name(), a.P.InstrPos(mine[0].Instr), "", "%s is run under different guards (or a guard that is not a package-level sync.Once)", fnKey(builder))
					guard = nil
				} else {
					// every Do on this guard passes this builder
					okG := true
					for _, d := range dos {
						if d.Guard == guard && d.GIdx == gidx && d.Fn != builder {
							r.Bad("T3", "guard/"+M.Name(), a.P.InstrPos(d.Instr), "", "guard %s runs %s here and %s elsewhere: whichever comes first wins and the other map is never built", guardElemName(guard, gidx), fnKey(d.Fn), fnKey(builder))
							okG = false
						}
					}
					if okG {
						r.OK("T3", "guard/"+M.Name(), a.P.Pos(guard.Pos()), "", "built by %s, run only under %s, which runs nothing else", fnKey(builder), guardElemName(guard, gidx))
						usedGuard[guardElemName(guard, gidx)] = M.Name()
					}
				}
			}
		}
		// shape of the builder
		list, bits, msg := a.builderShape(builder, M)
		if list == nil {
			r.Add("T3", "shape/"+M.Name(), a.P.Pos(builder.Pos()), "", Undecided, "%s", msg)
		} else {
			r.OK("T3", "shape/"+M.Name(), a.P.Pos(builder.Pos()), "", "fresh map; for i, w := range %s { %s[w] = int64(i) }", list.Name(), M.Name())
			a.OnceFn[M] = builder
			a.MapList[M] = list
			a.G.MapBits[M] = bits
			sp := a.ListLang[list]
			switch {
			case sp == nil:
				r.Bad("T3c", "inverse/"+M.Name(), a.P.Pos(builder.Pos()), "", "%s is built from %s, which is not a canonical list", M.Name(), list.Name())
			case sp.Name != lc.Name:
				r.Bad("T3c", "inverse/"+M.Name(), a.P.Pos(builder.Pos()), "", "the map used for %s is built from the canonical %s list", lc.Name, sp.Name)
			default:
				r.OK("T3c", "inverse/"+M.Name(), a.P.Pos(builder.Pos()), "", "inverse of the canonical %s list; values in [0,%d)", sp.Name, len(a.G.Lists[list].Elems))
			}
		}
		// the variable is only ever named to load it or to assign it: a pointer to it kept
		// somewhere (a table of `&fooMapping`) would let it be read without the guard
		okA := true
		for _, u := range a.Ef.AddrUse[M] {
			if a.P.IsTestFunc(u.Parent()) {
				continue
			}
			okA = false
			r.Unk("T3", "address/"+M.Name(), a.P.InstrPos(u), "", "the address of %s is taken in %s: what is read or written through that pointer is not followed by the guard rules (a read through it that does not come after the guard's Do would race with the construction)", M.Name(), fnKey(u.Parent()))
		}
		if okA {
			r.OK("T3", "address/"+M.Name(), pos, "", "%s is only ever loaded or assigned by name", M.Name())
		}
		// every load outside the builder is dominated by the guard's Do
		okL := true
		nl := 0
		for _, ld := range a.Ef.Loads[M] {
			fn := ld.Parent()
			if a.P.IsTestFunc(fn) || fn == builder || isInside(fn, builder) {
				continue
			}
			nl++
			if synth {
				continue
			}
			dom := false
			for _, d := range dos {
				if d.Fn != builder || d.Guard != guard || d.GIdx != gidx || guard == nil {
					continue
				}
				if d.Instr.Parent() == fn && instrDominates(d.Instr, ld) {
					dom = true
				}
			}
			if !dom {
				// the builder may run under a guard the rules cannot name (an element of an array of
				// sync.Once, a Once behind a pointer): then nothing is known, not "it races"
				unnamed := false
				for _, d := range dos {
					if d.Fn == builder && d.Guard == nil && d.Instr.Parent() == fn && instrDominates(d.Instr, ld) {
						unnamed = true
					}
				}
				if unnamed {
					r.Unk("T3", "read-after-guard/"+M.Name(), a.P.InstrPos(ld), "", "%s is read in %s after a Do whose sync.Once is not a package-level variable of its own (an array element, a pointer): not one of the recognised guards", M.Name(), fnKey(fn))
				} else {
					r.Bad("T3", "read-after-guard/"+M.Name(), a.P.InstrPos(ld), "", "%s is read in %s without a dominating %s.Do: the read races with the construction", M.Name(), fnKey(fn), guardName(guard))
				}
				okL = false
			}
		}
		if okL {
			r.OK("T3", "read-after-guard/"+M.Name(), pos, "", "%d reads, each dominated by the guard's Do", nl)
		}
		if okL && okA && list != nil {
			// what is read from the variable is always the finished map, a fresh make: not nil
			if a.G.MapNonNil == nil {
				a.G.MapNonNil = map[*ssa.Global]bool{}
			}
			a.G.MapNonNil[M] = true
		}
	}
	r.Counts["T3.maps"] = maps
	// (a map built during package initialisation needs no guard: it counts as guarded for the
	// floors, which only make sure that the rule did not pass on nothing)
	r.Counts["T3.guards"] = len(usedGuard) + a.initBuilt
}

func guardName(g *ssa.Global) string {
	if g == nil {
		return "<guard>"
	}
	return g.Name()
}

func isInside(fn, outer *ssa.Function) bool {
	for f := fn; f != nil; f = f.Parent() {
		if f == outer {
			return true
		}
	}
	return false
}

// instrDominates: a executes before b on every path (same function).
func instrDominates(a, b ssa.Instruction) bool {
	ba, bb := a.Block(), b.Block()
	if ba == bb {
		for _, in := range ba.Instrs {
			if in == a {
				return true
			}
			if in == b {
				return false
			}
		}
		return false
	}
	return ba.Dominates(bb)
}

// onlyUsedByDo: the function value is referenced only as the argument of (*sync.Once).Do.
func (a *Analysis) onlyUsedByDo(f *ssa.Function) bool {
	for _, fn := range a.P.ModuleFuncs(false) {
		for _, b := range fn.Blocks {
			for _, in := range b.Instrs {
				for _, op := range in.Operands(nil) {
					var refers bool
					switch v := (*op).(type) {
					case *ssa.Function:
						refers = v == f
					case *ssa.MakeClosure:
						refers = v.Fn == ssa.Value(f)
					}
					if !refers {
						continue
					}
					if mc, ok := in.(*ssa.MakeClosure); ok && mc.Fn == ssa.Value(f) {
						continue // the closure creation itself; its uses are checked as operands
					}
					c, ok := in.(ssa.CallInstruction)
					if !ok {
						return false
					}
					cc := c.Common()
					if callee := cc.StaticCallee(); callee == nil || callee.String() != "(*sync.Once).Do" || len(cc.Args) != 2 || cc.Args[1] != *op {
						return false
					}
				}
			}
		}
	}
	return true
}

// fillShape checks that f contains exactly one map assignment `m[list[i]] = int64(i)` executed
// unconditionally in a full `range` over `list`, where mapOK accepts the map operand.
// It returns the SSA value of the list operand.
func (a *Analysis) fillShape(f *ssa.Function, mapOK func(ssa.Value) bool) (ssa.Value, string) {
	var updates []*ssa.MapUpdate
	for _, b := range f.Blocks {
		for _, in := range b.Instrs {
			switch x := in.(type) {
			case *ssa.MapUpdate:
				updates = append(updates, x)
			case *ssa.Defer:
				if !a.inertCall(x) {
					return nil, fmt.Sprintf("%s contains %T", fnKey(f), in)
				}
			case *ssa.Go, *ssa.Panic, *ssa.Send, *ssa.Select:
				return nil, fmt.Sprintf("%s contains %T", fnKey(f), in)
			}
		}
	}
	if len(updates) != 1 {
		return nil, fmt.Sprintf("%s has %d map assignments (expected one, inside the range loop)", fnKey(f), len(updates))
	}
	u := updates[0]
	if !mapOK(u.Map) {
		return nil, fmt.Sprintf("%s updates a map other than the one it builds", fnKey(f))
	}
	kl, ok := u.Key.(*ssa.UnOp)
	if !ok || kl.Op != token.MUL {
		return nil, "map key is not an element of the list"
	}
	ia, ok := kl.X.(*ssa.IndexAddr)
	if !ok {
		return nil, "map key is not an element of the list"
	}
	val := u.Value
	for {
		switch c := val.(type) {
		case *ssa.Convert:
			val = c.X
			continue
		case *ssa.ChangeType:
			val = c.X
			continue
		}
		break
	}
	if val != ia.Index {
		return nil, "the value stored for a word is not its own index in the list"
	}
	loops := naturalLoops(f)
	if len(loops) != 1 {
		return nil, fmt.Sprintf("%s has %d loops", fnKey(f), len(loops))
	}
	sameList := func(v ssa.Value) bool {
		if v == ia.X {
			return true
		}
		g1, g2 := loadedGlobal(v), loadedGlobal(ia.X)
		return g1 != nil && g1 == g2
	}
	for h, body := range loops {
		if !body[u.Block()] {
			return nil, "the map assignment is outside the loop"
		}
		for _, p := range h.Preds {
			if body[p] && !u.Block().Dominates(p) {
				return nil, "the map assignment is conditional inside the loop"
			}
		}
		ifi, ok := h.Instrs[len(h.Instrs)-1].(*ssa.If)
		if !ok {
			return nil, "loop without header test"
		}
		cmp, ok := ifi.Cond.(*ssa.BinOp)
		if !ok || cmp.Op != token.LSS || cmp.X != ia.Index {
			return nil, "loop test is not index < len(list)"
		}
		ln, ok := cmp.Y.(*ssa.Call)
		if !ok || calleeName(ln) != "len" || !sameList(ln.Call.Args[0]) {
			return nil, "loop bound is not the length of the same list"
		}
		if iphi, isPhi := ia.Index.(*ssa.Phi); isPhi && iphi.Block() == h {
			// `for i := 0; i < len(list); i++`: the counter starts at 0 and goes up by one
			okFor := len(iphi.Edges) == len(h.Preds)
			for i, p := range h.Preds {
				if !okFor {
					break
				}
				if body[p] {
					inc, ok := iphi.Edges[i].(*ssa.BinOp)
					one, okc := int64(0), false
					if ok {
						one, okc = intConst(inc.Y)
					}
					if !ok || inc.Op != token.ADD || inc.X != ssa.Value(iphi) || !okc || one != 1 {
						okFor = false
					}
				} else if c, ok := intConst(iphi.Edges[i]); !ok || c != 0 {
					okFor = false
				}
			}
			if !okFor {
				return nil, "index loop does not run from 0 upwards in steps of one"
			}
			continue
		}
		add, ok := ia.Index.(*ssa.BinOp)
		if !ok || add.Op != token.ADD {
			return nil, "index is not a range index"
		}
		phi, ok := add.X.(*ssa.Phi)
		one, okc := intConst(add.Y)
		if !ok || !okc || one != 1 || phi.Block() != h {
			return nil, "index is not a range index"
		}
		startOK := false
		for i, p := range h.Preds {
			if body[p] {
				if phi.Edges[i] != ssa.Value(add) {
					return nil, "index does not advance by one"
				}
			} else if c, ok := intConst(phi.Edges[i]); ok && c == -1 {
				startOK = true
			}
		}
		if !startOK {
			return nil, "range does not start at the first word"
		}
	}
	return ia.X, ""
}

// helperShape: h(list []string) map[string]int64 { m := make(...); for i, w := range list { m[w] = int64(i) }; return m }
func (a *Analysis) helperShape(h *ssa.Function) string {
	if len(h.Params) != 1 || len(h.Blocks) == 0 {
		return fmt.Sprintf("%s is not a one-argument function", fnKey(h))
	}
	var mk *ssa.MakeMap
	for _, b := range h.Blocks {
		for _, in := range b.Instrs {
			switch x := in.(type) {
			case *ssa.MakeMap:
				if mk != nil {
					return fmt.Sprintf("%s makes more than one map", fnKey(h))
				}
				mk = x
			case *ssa.Store:
				if _, isG := x.Addr.(*ssa.Global); isG {
					return fmt.Sprintf("%s writes a package-level variable", fnKey(h))
				}
			case ssa.CallInstruction:
				if n := calleeName(x); n != "len" {
					return fmt.Sprintf("%s calls %s", fnKey(h), n)
				}
			}
		}
	}
	if mk == nil {
		return fmt.Sprintf("%s does not make a fresh map", fnKey(h))
	}
	listVal, msg := a.fillShape(h, func(v ssa.Value) bool { return v == ssa.Value(mk) })
	if listVal == nil {
		return msg
	}
	if listVal != ssa.Value(h.Params[0]) {
		return fmt.Sprintf("%s does not range over its argument", fnKey(h))
	}
	for _, ret := range returnsOf(h) {
		if len(ret.Results) != 1 || ret.Results[0] != ssa.Value(mk) {
			return fmt.Sprintf("%s does not return the map it built", fnKey(h))
		}
	}
	return ""
}

// t3Lazy discharges the T3 obligations of map M when it is built through a lazy helper
// (rules_lazy.go): the helper has the guarded shape for any pointers, every use of &M is such
// a call, all with one guard that serves no other map, and the list passed is L.
func (a *Analysis) t3Lazy(lc LangCtx, M *ssa.Global, insts []lazyInst, usedGuard map[string]string) {
	r := a.R
	pos := a.P.Pos(M.Pos())
	lh := insts[0].Helper
	sp0 := a.P.InstrPos(insts[0].Site)
	if lh.Problem != "" {
		r.Add("T3", "shape/"+M.Name(), a.P.Pos(lh.H.Pos()), "", Undecided, "%s is built through %s, which is not a recognised lazy-construction helper: %s", M.Name(), fnKey(lh.H), lh.Problem)
		return
	}
	// every non-test use of &M is a call of that helper in the map position
	okW := true
	for _, u := range a.Ef.AddrUse[M] {
		if a.P.IsTestFunc(u.Parent()) {
			continue
		}
		if !a.isLazyUse(u, M, false) {
			r.Bad("T3", "writers/"+M.Name(), a.P.InstrPos(u), "", "the address of %s is used other than as the map argument of %s", M.Name(), fnKey(lh.H))
			okW = false
		}
	}
	if esc := a.Ef.Escapes[M]; len(esc) > 0 {
		r.Unk("T3", "writers/"+M.Name(), pos, "", "%s escapes the analysis: %v", M.Name(), esc)
		okW = false
	}
	if lh.Inline && lh.ListCall != nil {
		// the list is what the list function yields for this language
		if callee := lh.ListCall.Call.StaticCallee(); callee != nil {
			lcv := lc.V
			e := a.eval(callee, &Ctx{Name: "list:lang=" + lc.Name, Lang: &lcv})
			var lg *ssa.Global
			n := 0
			for _, x := range topExits(e, callee) {
				n++
				if len(x.Vals) == 1 {
					if lv, ok := x.Vals[0].(*ListV); ok && lv.G != nil && (lg == nil || lg == lv.G) {
						lg = lv.G
						continue
					}
				}
				lg = nil
				break
			}
			if n > 0 && lg != nil {
				for i := range insts {
					insts[i].List = lg
				}
			}
		}
	}
	guard, list := insts[0].Guard, insts[0].List
	for _, in := range insts {
		if in.Helper != lh {
			r.Bad("T3", "writers/"+M.Name(), a.P.InstrPos(in.Site), "", "%s is built through two different helpers", M.Name())
			okW = false
		}
		if in.Guard != guard || in.Guard == nil {
			r.Bad("T3", "guard/"+M.Name(), a.P.InstrPos(in.Site), "", "%s is built under different guards at different call sites (or under a guard that is not a package-level sync.Once)", M.Name())
			guard = nil
		}
		if in.List != list {
			list = nil
		}
	}
	if okW {
		r.OK("T3", "writers/"+M.Name(), pos, "", "written only inside the closure that %s runs under its guard parameter (%d call sites)", fnKey(lh.H), len(insts))
	}
	if guard != nil {
		// the guard serves this map only, and is used only as the guard argument of the helper
		okG := true
		for m2, others := range a.lazyInstances() {
			if m2 == M {
				continue
			}
			for _, in := range others {
				if in.Guard == guard {
					r.Bad("T3", "guard/"+M.Name(), a.P.InstrPos(in.Site), "", "guard %s is also used to build %s: whichever is used first wins and the other map is never built", guard.Name(), m2.Name())
					okG = false
				}
			}
		}
		for _, d := range a.onceDoCalls() {
			if d.Guard == guard {
				mine := false
				if lh.Maker {
					for _, in := range insts {
						if in.Site == d.Instr {
							mine = true // the Do that runs what the maker returned for this map
						}
					}
				}
				if mine {
					continue
				}
				r.Bad("T3", "guard/"+M.Name(), a.P.InstrPos(d.Instr), "", "guard %s is also the receiver of a direct Do", guard.Name())
				okG = false
			}
		}
		if okG {
			r.OK("T3", "guard/"+M.Name(), a.P.Pos(guard.Pos()), "", "built by %s under %s, which guards nothing else", fnKey(lh.H), guard.Name())
			usedGuard[guard.Name()] = M.Name()
			if a.LazyGuard == nil {
				a.LazyGuard = map[*ssa.Global]*ssa.Global{}
			}
			a.LazyGuard[guard] = M
		}
	}
	// shape and list
	if list == nil || a.G.Lists[list] == nil {
		r.Add("T3", "shape/"+M.Name(), sp0, "", Undecided, "the list handed to %s for %s is not one package-level word list", fnKey(lh.H), M.Name())
	} else {
		r.OK("T3", "shape/"+M.Name(), a.P.Pos(lh.H.Pos()), "", "%s(&%s, &%s, %s): fresh map; for i, w := range list { m[w] = int64(i) }", fnKey(lh.H), guardName(guard), M.Name(), list.Name())
		a.OnceFn[M] = lh.Closure
		a.MapList[M] = list
		if bits, ok := log2exact(int64(len(a.G.Lists[list].Elems))); ok {
			a.G.MapBits[M] = bits
		}
		sp := a.ListLang[list]
		switch {
		case sp == nil:
			r.Bad("T3c", "inverse/"+M.Name(), sp0, "", "%s is built from %s, which is not a canonical list", M.Name(), list.Name())
		case sp.Name != lc.Name:
			r.Bad("T3c", "inverse/"+M.Name(), sp0, "", "the map used for %s is built from the canonical %s list", lc.Name, sp.Name)
		default:
			r.OK("T3c", "inverse/"+M.Name(), sp0, "", "inverse of the canonical %s list; values in [0,%d)", sp.Name, len(a.G.Lists[list].Elems))
		}
	}
	// direct reads of M (outside the helper): each after a call of the helper for M
	okL := true
	nl := 0
	for _, ld := range a.Ef.Loads[M] {
		fn := ld.Parent()
		if a.P.IsTestFunc(fn) {
			continue
		}
		nl++
		dom := false
		for _, in := range insts {
			if in.Site.Parent() == fn && instrDominates(in.Site, ld) {
				dom = true
			}
		}
		if !dom {
			r.Bad("T3", "read-after-guard/"+M.Name(), a.P.InstrPos(ld), "", "%s is read in %s without a dominating call of %s for it: the read races with the construction", M.Name(), fnKey(fn), fnKey(lh.H))
			okL = false
		}
	}
	if okL {
		r.OK("T3", "read-after-guard/"+M.Name(), pos, "", "read through %s after its Do (%d direct reads, each after such a call)", fnKey(lh.H), nl)
	}
}

// builderShape checks: M = make(map…) ; for i, w := range L { M[w] = int64(i) } and nothing else that matters,
// or M = helper(L) with helper of the shape above.
func (a *Analysis) builderShape(f *ssa.Function, M *ssa.Global) (*ssa.Global, int64, string) {
	var stores []*ssa.Store
	for _, b := range f.Blocks {
		for _, in := range b.Instrs {
			if x, ok := in.(*ssa.Store); ok && x.Addr == ssa.Value(M) {
				stores = append(stores, x)
			}
		}
	}
	if len(stores) != 1 {
		return nil, 0, fmt.Sprintf("builder %s assigns %s %d times (expected once, a fresh map)", fnKey(f), M.Name(), len(stores))
	}
	var L *ssa.Global
	switch v := stores[0].Val.(type) {
	case *ssa.MakeMap:
		for _, c := range callsIn(f) {
			if n := calleeName(c); n != "len" && !a.inertCall(c) {
				return nil, 0, fmt.Sprintf("builder %s calls %s: outside the recognised construction", fnKey(f), n)
			}
		}
		listVal, msg := a.fillShape(f, func(m ssa.Value) bool {
			if m == ssa.Value(v) {
				return true
			}
			if loadedGlobal(m) == M {
				if in, ok := m.(ssa.Instruction); ok {
					return instrDominates(stores[0], in)
				}
			}
			return false
		})
		if listVal == nil {
			return nil, 0, msg
		}
		L = loadedGlobal(listVal)
	case *ssa.Call:
		h := v.Call.StaticCallee()
		if h == nil || h.Pkg == nil || !a.P.InModule(h.Pkg) || len(v.Call.Args) != 1 {
			return nil, 0, fmt.Sprintf("builder %s assigns %s the result of %s: outside the recognised construction", fnKey(f), M.Name(), calleeName(v))
		}
		inInit := f.Synthetic != "" && f.Name() == "init"
		if !inInit {
			// a user-written init() may build the other maps with the same helper
			userInit := strings.HasPrefix(f.Name(), "init#") && f.Parent() == nil
			for _, c := range callsIn(f) {
				if c == ssa.CallInstruction(v) || calleeName(c) == "len" || a.inertCall(c) {
					continue
				}
				if userInit && c.Common().StaticCallee() == h {
					continue
				}
				return nil, 0, fmt.Sprintf("builder %s also calls %s", fnKey(f), calleeName(c))
			}
			inInit = userInit
		}
		if msg := a.helperShape(h); msg != "" {
			return nil, 0, msg
		}
		for _, b := range f.Blocks {
			for _, in := range b.Instrs {
				if mu, ok := in.(*ssa.MapUpdate); ok && (!inInit || mu.Map == ssa.Value(v) || loadedGlobal(mu.Map) == M) {
					return nil, 0, "the builder modifies the map after the helper built it"
				}
			}
		}
		L = loadedGlobal(v.Call.Args[0])
	default:
		return nil, 0, fmt.Sprintf("builder %s assigns %s something other than a fresh map", fnKey(f), M.Name())
	}
	if L == nil || a.G.Lists[L] == nil {
		return nil, 0, "map keys are not taken from a package-level word list"
	}
	n := int64(len(a.G.Lists[L].Elems))
	bits, ok := log2exact(n)
	if !ok {
		return L, 0, ""
	}
	return L, bits, ""
}

var _ = types.Typ
