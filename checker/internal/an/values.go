package an

import (
	"fmt"
	"go/token"
	"math"
	"math/big"
	"strings"

	"golang.org/x/tools/go/ssa"
)

// AV is an abstract value.  String() is canonical: two values with the same string
// are the same abstract value (used for joins at control-flow merges).
type AV interface{ String() string }

// ---------------------------------------------------------------- integers

// IntV: a machine integer.  Kinds: exact affine form in t (constant when B==0),
// an interval, a layout (an integer assembled from symbolic bits), or unknown.
type IntV struct {
	Kind   int // 0 lin, 1 range, 2 bits, 3 top
	L      Lin
	Lo, Hi int64
	Bits   Layout
	Why    string
	ML     *MinLen
	Tab    *TabRef  // (ranges only) the value is Vals[Idx(t)] of a constant table
	LenOf  string   // (ranges only) the value is the length of this container (a canonical description)
	SB     *StrByte // (ranges only) the value is byte Idx of string S
	Sep    *SepRef  // (ranges only) the value is the position of a separator in what is left of the tokeniser's input
}

// SepRef: Off more than the position, within Join(Toks[K:], sep), of the separator that ends
// token K (there is one: K is not the last token).
type SepRef struct {
	Toks *TokensV
	K    int64
	Off  int64
}

// StrByte: one byte of a string value.
type StrByte struct {
	S   StrV
	Idx IntV
}

// TabRef records that a value was loaded from a constant integer table at an index affine in t.
type TabRef struct {
	Vals []int64
	Idx  Lin
}

// At returns the value in iteration t when it is determined by t alone.
func (v IntV) At(t int64) (int64, bool) {
	switch {
	case v.Kind == ikLin:
		return v.L.At(t), true
	case v.Kind == ikRange && v.Tab != nil:
		i := v.Tab.Idx.At(t)
		if i >= 0 && i < int64(len(v.Tab.Vals)) {
			return v.Tab.Vals[i], true
		}
	case v.Kind == ikRange && v.Lo == v.Hi:
		return v.Lo, true
	}
	return 0, false
}

const (
	ikLin = iota
	ikRange
	ikBits
	ikTop
	ikMinLen // ML: Const + Coef·|Min(v)|
)

func CInt(n int64) IntV          { return IntV{Kind: ikLin, L: K(n)} }
func LinInt(l Lin) IntV          { return IntV{Kind: ikLin, L: l} }
func RangeInt(lo, hi int64) IntV { return IntV{Kind: ikRange, Lo: lo, Hi: hi} }
func BitsInt(l Layout) IntV      { return IntV{Kind: ikBits, Bits: l} }
func TopInt(why string) IntV     { return IntV{Kind: ikTop, Why: why} }

func (v IntV) String() string {
	switch v.Kind {
	case ikLin:
		return "int:" + v.L.String()
	case ikRange:
		return fmt.Sprintf("int:[%s..%s]", boundStr(v.Lo), boundStr(v.Hi))
	case ikBits:
		return "int:bits" + v.Bits.String()
	case ikMinLen:
		return "int:" + v.ML.String()
	}
	return "int:⊤(" + v.Why + ")"
}

func boundStr(n int64) string {
	switch n {
	case math.MinInt64:
		return "min64"
	case math.MaxInt64:
		return "max64"
	case math.MinInt32:
		return "min32"
	case math.MaxInt32:
		return "max32"
	}
	return fmt.Sprint(n)
}

func (v IntV) Const() (int64, bool) {
	if v.Kind == ikLin && v.L.Const() {
		return v.L.A, true
	}
	if v.Kind == ikRange && v.Lo == v.Hi {
		return v.Lo, true
	}
	return 0, false
}

// Bounds returns an interval containing every value the integer takes over the
// iterations t in [0,T) of the current loop (T<=0: t is not in play).
func (v IntV) Bounds(T int64) (lo, hi int64, ok bool) {
	switch v.Kind {
	case ikLin:
		if v.L.Const() {
			return v.L.A, v.L.A, true
		}
		if T <= 0 {
			return 0, 0, false
		}
		a, b := v.L.At(0), v.L.At(T-1)
		if a > b {
			a, b = b, a
		}
		return a, b, true
	case ikRange:
		return v.Lo, v.Hi, true
	case ikBits:
		w, ok := v.Bits.Width()
		if !ok || w > 62 {
			return 0, 0, false
		}
		return 0, (int64(1) << uint(w)) - 1, true
	case ikMinLen:
		w, ok := v.ML.Val.Width()
		if !ok {
			return 0, 0, false
		}
		maxBytes := (w + 7) / 8
		a, b := v.ML.Const, v.ML.Const+v.ML.Coef*maxBytes
		if a > b {
			a, b = b, a
		}
		return a, b, true
	}
	return 0, 0, false
}

// ---------------------------------------------------------------- booleans

// Cond is the structure of a boolean the rules care about.
type Cond struct {
	Kind string // "intcmp" "strcmp" "lookupok" "bigcmp" "isnil" "ifaceeq" "other"
	Op   token.Token
	A, B AV
	Desc string
	Site ssa.Instruction // lookupok: the lookup instruction
}

type BoolV struct {
	Known bool
	Val   bool
	Neg   bool // the boolean is the negation of C
	C     *Cond
}

func KBool(b bool) BoolV { return BoolV{Known: true, Val: b} }

func (b BoolV) String() string {
	if b.Known {
		return fmt.Sprintf("bool:%v", b.Val)
	}
	if b.C == nil {
		return "bool:?"
	}
	n := ""
	if b.Neg {
		n = "!"
	}
	return "bool:" + n + b.C.String()
}

func (c *Cond) String() string {
	switch c.Kind {
	case "lookupok":
		return fmt.Sprintf("(%v ∈ dom %v)", c.B, c.A)
	case "bigcmp":
		return fmt.Sprintf("(Cmp(%v, %v) %s 0)", c.A, c.B, c.Op)
	case "isnil":
		return fmt.Sprintf("(%v %s nil)", c.A, c.Op)
	case "other":
		return "(" + c.Desc + ")"
	}
	return fmt.Sprintf("(%v %s %v)", c.A, c.Op, c.B)
}

// ---------------------------------------------------------------- strings

// StrV kinds
const (
	skConst   = iota
	skRaw     // a string parameter, untouched: Name
	skNFKD    // NFKD(X)
	skConcat  // Parts
	skTok     // token Idx of Tokens
	skJoin    // strings.Join(Arr, Sep)
	skElem    // List[Index] (an element of a word list selected by an abstract integer)
	skDecimal // decimal rendering of integer X
	skSlice   // substring of a constant with unknown bounds etc.
	skTop
	skArrElem // element Idx of the local string slice Arr (a snapshot), inside a loop
	skSrc     // the content of an external source: S names the kind ("download"), X is its address
	skCursor  // what is left of the tokeniser's input from token Idx on: Join(Toks[Idx:], Sep)
)

type StrV struct {
	Kind  int
	S     string // const value / raw name / why
	X     AV     // NFKD operand, decimal operand
	Parts []AV   // concat
	Toks  *TokensV
	Idx   IntV  // token index, element index
	Arr   *ArrC // join operand (snapshot)
	Sep   AV
	List  *ListV
}

func CStr(s string) StrV     { return StrV{Kind: skConst, S: s} }
func TopStr(why string) StrV { return StrV{Kind: skTop, S: why} }
func (s StrV) IsConst() bool { return s.Kind == skConst }
func (s StrV) String() string {
	switch s.Kind {
	case skConst:
		if len(s.S) > 40 {
			return fmt.Sprintf("%q…(%d bytes)", s.S[:24], len(s.S))
		}
		return fmt.Sprintf("%q", s.S)
	case skRaw:
		return "raw(" + s.S + ")"
	case skNFKD:
		return "NFKD(" + s.X.String() + ")"
	case skConcat:
		p := make([]string, len(s.Parts))
		for i, x := range s.Parts {
			p[i] = x.String()
		}
		return strings.Join(p, "+")
	case skCursor:
		return fmt.Sprintf("%s[%v:]", s.Toks.String(), s.Idx.L)
	case skTok:
		return fmt.Sprintf("%s[%v]", s.Toks.String(), s.Idx.L)
	case skJoin:
		return fmt.Sprintf("Join(%s, %v)", s.Arr.String(), s.Sep)
	case skElem:
		return fmt.Sprintf("%s[%s]", s.List.Name(), s.Idx.String())
	case skDecimal:
		return "decimal(" + s.X.String() + ")"
	case skSrc:
		return s.S + "(" + s.X.String() + ")"
	case skArrElem:
		return fmt.Sprintf("arr#%d[%s]", s.Arr.id, s.Idx.String())
	}
	return "str:⊤(" + s.S + ")"
}

// TokensV is the result of a tokeniser call.
type TokensV struct {
	Fn   string // "strings.Split" or "strings.Fields"
	In   AV
	Sep  AV
	N    IntV // number of tokens in the context
	Site ssa.Instruction
	// Fn == "bufio.ScanLines": the lines a bufio.Scanner (object Scanner) yields for In, collected
	// by the recognised loop; NonEmpty: only the non-empty ones
	NonEmpty bool
	Scanner  *Obj
}

func (t *TokensV) String() string {
	if t.Fn == "strings.Fields" {
		return "Fields(" + t.In.String() + ")"
	}
	if t.Fn == "bufio.ScanLines" {
		return "Lines(" + t.In.String() + ")"
	}
	return "Split(" + t.In.String() + "," + t.Sep.String() + ")"
}

// ListV is a package-level []string whose initialiser is a literal of constants.
type ListV struct {
	G     *ssa.Global
	Elems []string
}

func (l *ListV) Name() string   { return l.G.Pkg.Pkg.Name() + "." + l.G.Name() }
func (l *ListV) String() string { return "list:" + l.Name() }

// MapV is a load of a package-level map variable.
type MapV struct{ G *ssa.Global }

func (m MapV) String() string { return "map:" + m.G.Name() }

// CMapV is a map value whose entries are known (built from constants, e.g. a lookup table literal).
type CMapV struct{ O *Obj }

func (m CMapV) String() string { return fmt.Sprintf("cmap@obj%d", m.O.ID) }

// MapC: content of a map with known entries.
type MapC struct {
	Keys []string // canonical keys: "i:<int>" or "s:<string>"
	Vals []AV
	Top  string
}

func (m MapC) String() string {
	if m.Top != "" {
		return "map:⊤(" + m.Top + ")"
	}
	p := make([]string, len(m.Keys))
	for i := range m.Keys {
		p[i] = m.Keys[i] + "→" + fmt.Sprint(m.Vals[i])
	}
	return "map{" + strings.Join(p, ", ") + "}"
}

func (m MapC) get(k string) (AV, bool) {
	for i, x := range m.Keys {
		if x == k {
			return m.Vals[i], true
		}
	}
	return nil, false
}

func mapKey(a AV) (string, bool) {
	switch x := a.(type) {
	case IntV:
		if c, ok := x.Const(); ok {
			return fmt.Sprintf("i:%d", c), true
		}
	case StrV:
		if x.Kind == skConst {
			return "s:" + x.S, true
		}
	}
	return "", false
}

// NilV is the nil value of a map/slice/pointer/interface type.
// ArrFieldV stands, in the field vector of a struct object, for a field that is a byte array:
// the array lives in an object of its own, which is what the field's address points to.
type ArrFieldV struct{ O *Obj }

func (a ArrFieldV) String() string { return fmt.Sprintf("array-field@obj%d", a.O.ID) }

type NilV struct{ T string }

func (n NilV) String() string { return "nil" }

// ---------------------------------------------------------------- byte strings

// BytesV: an abstract byte string.  Val (if non-nil) is its big-endian integer value;
// Len its length.  Min marks the minimal big-endian encoding of Val (length depends on
// the value).  Src names what the bytes are when no layout applies.
type BytesV struct {
	LenKnown bool
	Len      Lin
	Val      Layout
	HasVal   bool
	Min      bool
	Src      string // "param:entropy", "conv(<str>)", "digest", "read(R)", "zero", "⊤: why"
	Str      AV     // for conversions from a string
	Obj      *Obj   // backing buffer object when the slice is a mutable buffer
	Param    *ssa.Parameter
	Pending  ssa.Instruction // the content is the bytes read by this call iff the call returned a nil error
	PendSrc  string
	LenMin   *MinLen // when the length is Const + Coef·|Min(v)| (v a big integer whose minimal encoding is involved)
	WinOf    *Obj    // the value is a window into this buffer object (writes through it change the buffer)
	WinLo    *IntV   // start of the window (the window extends to the end of the buffer)
	WinConst bool    // the window is bytes [WinOff, WinOff+WinN) of the buffer WinOf: its content is read from
	WinOff   int64   // the buffer when it is needed (resolveBytes), never from a snapshot taken when it was sliced
	WinN     int64
	LenSym   string          // the length is that of this container (see IntV.LenOf)
	CopyOf   *StrByte        // inside a loop: the only store so far was buf[Idx] = S[Idx]
	ConstAt  map[int64]int64 // a local table of byte constants (`masks := [...]byte{0xf0, …}`): the bytes stored so far; HasVal is false then
}

// MinLen is the symbolic length Const + Coef·|Min(v)|, |Min(v)| the length of the minimal
// big-endian encoding of the big integer with layout Val.
type MinLen struct {
	Const, Coef int64
	Sym         string
	Val         Layout
}

func (m *MinLen) String() string {
	if m.Coef == 1 && m.Const == 0 {
		return "|Min" + m.Sym + "|"
	}
	return fmt.Sprintf("%d%+d·|Min%s|", m.Const, m.Coef, m.Sym)
}

func (b BytesV) String() string {
	var sb strings.Builder
	sb.WriteString("bytes{")
	if b.Min {
		sb.WriteString("Min ")
	}
	if b.LenKnown {
		fmt.Fprintf(&sb, "len=%v ", b.Len)
	} else if b.LenMin != nil {
		fmt.Fprintf(&sb, "len=%v ", b.LenMin)
	} else {
		sb.WriteString("len=? ")
	}
	if b.HasVal {
		sb.WriteString(b.Val.String())
	} else if b.Str != nil {
		sb.WriteString("conv(" + b.Str.String() + ")")
	} else {
		sb.WriteString(b.Src)
	}
	if b.Pending != nil {
		sb.WriteString(" (valid iff the read succeeded)")
	}
	if b.Obj != nil {
		fmt.Fprintf(&sb, " @obj%d", b.Obj.ID)
	}
	sb.WriteString("}")
	return sb.String()
}

// ---------------------------------------------------------------- pointers, objects

type ObjKind int

const (
	okBig ObjKind = iota
	okHash
	okBuf  // make([]byte, n)
	okArr  // make([]string, n)
	okCell // address-taken local (scalar/struct/array value)
	okVec  // local array with per-element content (complit, varargs)
	okMap  // map with known entries
	okSB   // strings.Builder
)

// Obj is an abstract heap/stack object (one per allocation site and calling context).
type Obj struct {
	Struct bool // (okVec) the elements are the fields of a struct
	Grown  bool // (okVec) a slice grown by append from an empty one: exactly the elements appended so far
	ID     int
	Kind   ObjKind
	Site   ssa.Instruction
	Note   string
}

// PtrV points to an object, to a global, or to an element of something.
type PtrV struct {
	O    *Obj
	G    *ssa.Global
	Elem *ElemRef
	Ext  AV // address of a field of an external resource whose value is Ext (read-only)
}

// ResV is a handle on an external resource the word-list generator works with.
type ResV struct {
	Kind  string // "http.Response", "http.Body", "os.File", "bufio.Writer", "bytes.Buffer"
	A     AV     // URL (response, body), path (file), underlying writer (bufio)
	Flags AV     // open flags (file); nil for os.Create
	O     *Obj   // bufio: cell holding "has unflushed data"; bytes.Buffer: cell holding what was written ("", "rendered", "other")
	Temp  bool   // os.File: created by os.CreateTemp (new and empty; it becomes the output by os.Rename)
	Site  ssa.Instruction
}

func (r ResV) String() string {
	if r.Flags != nil {
		return fmt.Sprintf("%s(%v, %v)", r.Kind, r.A, r.Flags)
	}
	return fmt.Sprintf("%s(%v)", r.Kind, r.A)
}

// TempNameV is the name of the temporary file created by the os.CreateTemp call at Site.
type TempNameV struct{ Site ssa.Instruction }

func (t TempNameV) String() string { return "name of the temporary file" }

// RenderedV is the content of a bytes.Buffer into which exactly one template Execute has
// written (and nothing else): Buf is the buffer's cell, Exec the Execute call.
type RenderedV struct {
	Buf       *Obj
	Exec      ssa.Instruction
	Formatted bool         // passed through go/format.Source
	Quote     *QuoteRender // rendered by hand with strconv.Quote instead of a template
}

// QuoteRender describes a file rendered by hand into a buffer: constant text, the variable
// name, and one strconv.Quote'd item per word.  Text is the equivalent template (what the
// template rules then judge), Words the slice the items come from, Var the name written.
type QuoteRender struct {
	Text  string
	Words *TokensV
	Var   AV
	Site  ssa.Instruction
}

// BufPartsV is what a bytes.Buffer of the generator holds so far, piece by piece (constant
// text, values, ItemsV for a loop of quoted words).
type BufPartsV struct{ Parts []AV }

func (b BufPartsV) String() string { return fmt.Sprintf("buffer%v", b.Parts) }

// ItemsV: one strconv.Quote(w) followed by a comma for every element w of Toks (the empty
// ones left out if SkipEmpty).
type ItemsV struct {
	Toks      *TokensV
	SkipEmpty bool
	Site      ssa.Instruction
}

func (i ItemsV) String() string { return fmt.Sprintf("quoted items of %v", i.Toks) }

func (r RenderedV) String() string { return "rendered template" }

type ElemRef struct {
	Base AV // ListV, TokensV, PtrV(vec/arr obj), PtrV(G) …
	Idx  IntV
}

func (p PtrV) String() string {
	switch {
	case p.O != nil:
		return fmt.Sprintf("&obj%d", p.O.ID)
	case p.G != nil:
		return "&" + p.G.Name()
	case p.Elem != nil:
		return fmt.Sprintf("&%v[%v]", p.Elem.Base, p.Elem.Idx)
	case p.Ext != nil:
		return fmt.Sprintf("&field(%v)", p.Ext)
	}
	return "&?"
}

// HashV is a hash.Hash value backed by an accumulator object.
type HashV struct{ O *Obj }

func (h HashV) String() string { return fmt.Sprintf("hash@obj%d", h.O.ID) }

// SliceV is a slice value over an object ([]string made locally, []any varargs).
type SliceV struct{ O *Obj }

func (s SliceV) String() string { return fmt.Sprintf("slice@obj%d", s.O.ID) }

// VecV is an array value with known elements.
type VecV struct{ Elems []AV }

func (v VecV) String() string {
	p := make([]string, len(v.Elems))
	for i, e := range v.Elems {
		if e == nil {
			p[i] = "?"
		} else {
			p[i] = e.String()
		}
	}
	return "[" + strings.Join(p, ",") + "]"
}

// FuncV is a function value.
type FuncV struct {
	Fn       *ssa.Function
	Bindings []AV
}

func (f FuncV) String() string { return "func:" + f.Fn.String() }

// ExtGlobalV is the value loaded from a package-level variable outside the module.
type ExtGlobalV struct{ Name string }

func (e ExtGlobalV) String() string { return "ext:" + e.Name }

// asErr views an abstract value as an error value; anything that is not a recognised error
// value is an unknown error (never nil by default).
func asErr(v AV) ErrV {
	if ev, ok := v.(ErrV); ok {
		return ev
	}
	return ErrV{Kind: ekUnknown, From: fmt.Sprint(v)}
}

// GlobalValV is "the current value of module global G" for globals the analysis does
// not fold (interfaces such as the randomness source).
type GlobalValV struct{ G *ssa.Global }

func (g GlobalValV) String() string { return "val:" + g.G.Name() }

// TupleV is a multi-value result.
type TupleV []AV

func (t TupleV) String() string {
	p := make([]string, len(t))
	for i, e := range t {
		p[i] = fmt.Sprint(e)
	}
	return "(" + strings.Join(p, ", ") + ")"
}

// TopV is an unknown value of a kind the analysis does not model.
type TopV struct{ Why string }

func (t TopV) String() string { return "⊤(" + t.Why + ")" }

// ---------------------------------------------------------------- errors

const (
	ekNil      = iota
	ekSentinel // load of module global G
	ekWrap     // fmt.Errorf with %w bound to sentinel G
	ekFresh    // errors.New / fmt.Errorf without %w: certainly non-nil, matches no sentinel
	ekFrom     // error result of a call: From describes it
	ekUnknown
	ekCond // the error of the call at Site if that call failed, otherwise Else
)

type ErrV struct {
	Kind   int
	G      *ssa.Global
	Format string
	Args   []AV
	From   string
	Site   ssa.Instruction
	NonNil bool  // certainly non-nil (set for ekFrom on the branch where it was tested)
	Else   *ErrV // ekCond: the value when the call at Site succeeded
}

func (e ErrV) String() string {
	switch e.Kind {
	case ekNil:
		return "err:nil"
	case ekSentinel:
		return "err:" + e.G.Name()
	case ekWrap:
		return fmt.Sprintf("err:Errorf(%q wraps %s)", e.Format, e.G.Name())
	case ekFresh:
		p := make([]string, len(e.Args))
		for i, a := range e.Args {
			p[i] = fmt.Sprint(a)
		}
		return fmt.Sprintf("err:fresh(%q; %s)", e.Format, strings.Join(p, ", "))
	case ekFrom:
		return "err:from(" + e.From + ")"
	case ekCond:
		return "err:(" + e.From + " if it failed, else " + e.Else.String() + ")"
	}
	return "err:?"
}

// ---------------------------------------------------------------- object contents

// Content is the abstract content of an object at a program point.
type Content interface{ String() string }

// BigC: content of a *big.Int.
type BigC struct {
	Kind       int // 0 layout, 1 const, 2 sum (Base + Term, overlap unknown), 3 top
	L          Layout
	C          *big.Int
	Base, Term Layout
	Why        string
}

const (
	bkLayout = iota
	bkConst
	bkSum
	bkTop
)

func (b BigC) String() string {
	switch b.Kind {
	case bkLayout:
		return "big" + b.L.String()
	case bkConst:
		return "big:" + b.C.String()
	case bkSum:
		return "big:" + b.Base.String() + "+" + b.Term.String()
	}
	return "big:⊤(" + b.Why + ")"
}

func BigTop(why string) BigC   { return BigC{Kind: bkTop, Why: why} }
func BigLayout(l Layout) BigC  { return BigC{Kind: bkLayout, L: l.Norm()} }
func BigConst(n *big.Int) BigC { return BigC{Kind: bkConst, C: n} }

// asLayout views constants 0 as the empty layout.
func (b BigC) asLayout() (Layout, bool) {
	switch b.Kind {
	case bkLayout:
		return b.L, true
	case bkConst:
		if b.C.Sign() == 0 {
			return Layout{}, true
		}
	}
	return nil, false
}

// HashC: bytes written so far.
type HashC struct {
	Writes []BytesV
	Top    string
}

func (h HashC) String() string {
	if h.Top != "" {
		return "hash:⊤(" + h.Top + ")"
	}
	p := make([]string, len(h.Writes))
	for i, w := range h.Writes {
		p[i] = w.String()
	}
	return "hash(" + strings.Join(p, "‖") + ")"
}

// BufC: content of a make([]byte, n) buffer.
type BufC struct{ B BytesV }

func (b BufC) String() string { return "buf:" + b.B.String() }

// StoreRec is one store a[Idx] = Val recorded inside a loop body (Idx affine in t).
type StoreRec struct {
	Idx  IntV
	Val  AV
	Site ssa.Instruction
	Cond bool // executed under a condition that depends on t or data
}

// ArrC: content of a make([]string, n).
type ArrC struct {
	Alias  *TokensV // the slice holds exactly the tokens of Alias, in order (an element-wise copy)
	N      IntV
	Elems  []AV // per position once materialised (nil entries: never written → "")
	Stores []StoreRec
	Top    string
	id     int
}

func (a *ArrC) String() string {
	if a == nil {
		return "arr:nil"
	}
	if a.Top != "" {
		return "arr:⊤(" + a.Top + ")"
	}
	if a.Alias != nil {
		return fmt.Sprintf("arr{copy of %v}", a.Alias)
	}
	var sb strings.Builder
	fmt.Fprintf(&sb, "arr{n=%v", a.N)
	for i, e := range a.Elems {
		if e != nil {
			fmt.Fprintf(&sb, " [%d]=%v", i, e)
		}
	}
	for _, s := range a.Stores {
		fmt.Fprintf(&sb, " [%v]:=%v", s.Idx, s.Val)
	}
	sb.WriteString("}")
	return sb.String()
}

// CellC: content of an address-taken local.
type CellC struct{ V AV }

func (c CellC) String() string {
	if c.V == nil {
		return "cell:zero"
	}
	return "cell:" + c.V.String()
}

// VecC: content of a local array with per-element values.
type VecC struct {
	Elems []AV
	Top   string // non-empty: contents unknown (why)
}

func (v VecC) String() string {
	if v.Top != "" {
		return "vec:⊤(" + v.Top + ")"
	}
	return "vec:" + VecV{v.Elems}.String()
}

// SBPart is one piece written to a strings.Builder; Cond (if set) is the branch condition
// under which it was written, Pol its polarity.
type SBPart struct {
	V    AV
	Cond *BoolV
	Pol  bool
	X    string // non-empty: stands for "content at the head of the iteration" of the named builder
}

// SBC: content of a strings.Builder.
type SBC struct {
	Parts []SBPart
	Top   string
}

func (c SBC) String() string {
	if c.Top != "" {
		return "sb:⊤(" + c.Top + ")"
	}
	p := make([]string, len(c.Parts))
	for i, x := range c.Parts {
		switch {
		case x.X != "":
			p[i] = x.X
		case x.Cond != nil:
			p[i] = fmt.Sprintf("[%v if %v=%v]", x.V, *x.Cond, x.Pol)
		default:
			p[i] = fmt.Sprint(x.V)
		}
	}
	return "sb(" + strings.Join(p, " ") + ")"
}

// SBV is a pointer to a strings.Builder object.
