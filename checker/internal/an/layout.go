package an

import (
	"fmt"
	"strings"
)

// Lin is the affine form A + B·t in the iteration number t of the loop being summarised.
type Lin struct{ A, B int64 }

func (l Lin) String() string {
	if l.B == 0 {
		return fmt.Sprint(l.A)
	}
	if l.A == 0 {
		return fmt.Sprintf("%d·t", l.B)
	}
	return fmt.Sprintf("%d%+d·t", l.A, l.B)
}
func (l Lin) Const() bool       { return l.B == 0 }
func (l Lin) At(t int64) int64  { return l.A + l.B*t }
func (l Lin) Add(o Lin) Lin     { return Lin{l.A + o.A, l.B + o.B} }
func (l Lin) Sub(o Lin) Lin     { return Lin{l.A - o.A, l.B - o.B} }
func (l Lin) Scale(k int64) Lin { return Lin{l.A * k, l.B * k} }
func K(n int64) Lin             { return Lin{n, 0} }

// INF is the width of a field that extends without bound (loop-carried unknowns, unknown-width values).
const INF = int64(1) << 40

// Field is W bits taken from symbol Sym starting at bit Lo (Sym == "" means zero bits).
// Symbols of a family (the per-token lookup results) carry an index affine in t.
type Field struct {
	W      Lin
	Sym    string
	Idx    Lin
	HasIdx bool
	Lo     Lin
}

// Layout lists the fields of a non-negative integer from the least significant end.
// Bits above the last field are zero.
type Layout []Field

func (f Field) symString() string {
	if f.HasIdx {
		return fmt.Sprintf("%s[%v]", f.Sym, f.Idx)
	}
	return f.Sym
}

func (f Field) String() string {
	if f.Sym == "" {
		return fmt.Sprintf("0^%v", f.W)
	}
	if f.W.A >= INF {
		return fmt.Sprintf("%s⟨%v:⟩", f.symString(), f.Lo)
	}
	return fmt.Sprintf("%s⟨%v:+%v⟩", f.symString(), f.Lo, f.W)
}

func (l Layout) String() string {
	n := l.Norm()
	p := make([]string, len(n))
	for i, f := range n {
		p[i] = f.String()
	}
	return "[" + strings.Join(p, " ; ") + "]"
}

// Norm merges adjacent contiguous fields of one symbol, drops empty fields and trailing zero fields.
func (l Layout) Norm() Layout {
	var out Layout
	for _, f := range l {
		if f.W.Const() && f.W.A == 0 {
			continue
		}
		if f.Sym == "" {
			f.Lo, f.Idx, f.HasIdx = Lin{}, Lin{}, false
		}
		if n := len(out); n > 0 {
			p := &out[n-1]
			if p.Sym == f.Sym && p.HasIdx == f.HasIdx && p.Idx == f.Idx && p.W.A < INF {
				if f.Sym == "" {
					p.W = p.W.Add(f.W)
					continue
				}
				if p.Lo.Add(p.W) == f.Lo {
					if f.W.A >= INF {
						p.W = K(INF)
					} else {
						p.W = p.W.Add(f.W)
					}
					continue
				}
			}
		}
		out = append(out, f)
	}
	for len(out) > 0 && out[len(out)-1].Sym == "" {
		out = out[:len(out)-1]
	}
	return out
}

func (l Layout) Equal(o Layout) bool { return l.String() == o.String() }

// SymL is the layout of one whole symbol of the given width.
func SymL(name string, w int64) Layout { return Layout{{W: K(w), Sym: name}} }

// Width returns the total width if it is finite and constant.
func (l Layout) Width() (int64, bool) {
	var w int64
	for _, f := range l.Norm() {
		if !f.W.Const() || f.W.A >= INF {
			return 0, false
		}
		w += f.W.A
	}
	return w, true
}

// DeclWidth is the sum of the field widths exactly as listed (explicit zero fields at the
// top included) — what must be used when padding a piece to a fixed position.
func (l Layout) DeclWidth() (int64, bool) {
	var w int64
	for _, f := range l {
		if !f.W.Const() || f.W.A >= INF {
			return 0, false
		}
		w += f.W.A
	}
	return w, true
}

// Shr drops the n least significant bits.
func (l Layout) Shr(n int64) (Layout, bool) {
	if n < 0 {
		return nil, false
	}
	var out Layout
	for _, f := range l {
		if n == 0 {
			out = append(out, f)
			continue
		}
		if !f.W.Const() {
			return nil, false
		}
		if f.W.A >= INF {
			nf := f
			if f.Sym != "" {
				nf.Lo = f.Lo.Add(K(n))
			}
			out = append(out, nf)
			n = 0
			continue
		}
		if n >= f.W.A {
			n -= f.W.A
			continue
		}
		nf := f
		nf.W = K(f.W.A - n)
		if f.Sym != "" {
			nf.Lo = f.Lo.Add(K(n))
		}
		out = append(out, nf)
		n = 0
	}
	return out, true
}

// Low keeps the n least significant bits.
func (l Layout) Low(n int64) (Layout, bool) {
	if n < 0 {
		return nil, false
	}
	var out Layout
	for _, f := range l {
		if n == 0 {
			break
		}
		if !f.W.Const() {
			return nil, false
		}
		if f.W.A >= INF || f.W.A > n {
			nf := f
			nf.W = K(n)
			out = append(out, nf)
			n = 0
			break
		}
		out = append(out, f)
		n -= f.W.A
	}
	return out, true
}

// Shl prepends n zero bits (n may be affine in t).
func (l Layout) Shl(n Lin) Layout {
	if n.Const() && n.A == 0 {
		return l
	}
	return append(Layout{{W: n}}, l...)
}

// Slice returns bits [lo, lo+w).
func (l Layout) Slice(lo, w int64) (Layout, bool) {
	s, ok := l.Shr(lo)
	if !ok {
		return nil, false
	}
	return s.Low(w)
}

// AddDisjoint returns x+y when y fits entirely inside a run of zero bits at the low
// end of x (the only shape of addition / or the encoders use); ok=false otherwise.
func AddDisjoint(x, y Layout) (Layout, bool) {
	x, y = x.Norm(), y.Norm()
	if len(y) == 0 {
		return x, true
	}
	if len(x) == 0 {
		return y, true
	}
	try := func(x, y Layout) (Layout, bool) {
		if x[0].Sym != "" {
			return nil, false
		}
		z := x[0].W
		wy, ok := y.Width()
		if !ok || !z.Const() || wy > z.A {
			return nil, false
		}
		out := append(Layout{}, y...)
		if z.A-wy > 0 {
			out = append(out, Field{W: K(z.A - wy)})
		}
		return append(out, x[1:]...).Norm(), true
	}
	if r, ok := try(x, y); ok {
		return r, true
	}
	return try(y, x)
}

// Mentions reports whether the layout has a field of the symbol.
func (l Layout) Mentions(sym string) bool {
	for _, f := range l {
		if f.Sym == sym {
			return true
		}
	}
	return false
}

// AtT substitutes a concrete iteration number for t.
func (l Layout) AtT(t int64) Layout {
	out := make(Layout, len(l))
	for i, f := range l {
		out[i] = Field{W: K(f.W.At(t)), Sym: f.Sym, HasIdx: f.HasIdx, Idx: K(f.Idx.At(t)), Lo: K(f.Lo.At(t))}
		if f.W.A >= INF {
			out[i].W = K(INF)
		}
	}
	return out
}

// DependsOnT reports whether any coefficient of t is non-zero.
func (l Layout) DependsOnT() bool {
	for _, f := range l {
		if f.W.B != 0 || f.Lo.B != 0 || (f.HasIdx && f.Idx.B != 0) {
			return true
		}
	}
	return false
}

// SubstSym replaces every field X⟨lo:+w⟩ of symbol sym by bits [lo,lo+w) of repl.
// Fields must have constant lo and w (use AtT first).
func (l Layout) SubstSym(sym string, hasIdx bool, idx int64, repl Layout) (Layout, bool) {
	var out Layout
	for _, f := range l {
		if f.Sym != sym || f.HasIdx != hasIdx || (hasIdx && (!f.Idx.Const() || f.Idx.A != idx)) {
			out = append(out, f)
			continue
		}
		if !f.Lo.Const() || !f.W.Const() {
			return nil, false
		}
		var part Layout
		var ok bool
		if f.W.A >= INF {
			part, ok = repl.Shr(f.Lo.A)
			if ok {
				// unbounded reference: the replacement must itself be finite or end in an unbounded field
				out = append(out, part...)
				continue
			}
			return nil, false
		}
		part, ok = repl.Slice(f.Lo.A, f.W.A)
		if !ok {
			return nil, false
		}
		pw, okw := part.DeclWidth()
		if !okw {
			return nil, false
		}
		out = append(out, part...)
		if pw < f.W.A {
			out = append(out, Field{W: K(f.W.A - pw)})
		}
	}
	return out, true
}

// WriteBytes returns the layout of a `total`-byte big-endian buffer whose content was cur
// after bytes [off, off+n) have been replaced by a value with layout src (an n-byte
// big-endian value).
func WriteBytes(cur Layout, total, off, n int64, src Layout) (Layout, bool) {
	if off < 0 || n < 0 || off+n > total {
		return nil, false
	}
	pos := 8 * (total - off - n) // bit position of the least significant written bit
	low, ok1 := cur.Low(pos)
	high, ok2 := cur.Shr(pos + 8*n)
	if !ok1 || !ok2 {
		return nil, false
	}
	var out Layout
	out = append(out, low...)
	lw, okl := low.DeclWidth()
	if !okl {
		return nil, false
	}
	if lw < pos {
		out = append(out, Field{W: K(pos - lw)})
	}
	mid, ok3 := src.Low(8 * n)
	if !ok3 {
		return nil, false
	}
	out = append(out, mid...)
	mw, okm := mid.DeclWidth()
	if !okm {
		return nil, false
	}
	if mw < 8*n {
		out = append(out, Field{W: K(8*n - mw)})
	}
	out = append(out, high...)
	return out.Norm(), true
}
