package an

import (
	"fmt"
	"go/constant"
	"go/token"
	"go/types"
	"math"
	"sort"
	"strings"

	"golang.org/x/tools/go/ssa"
)

// errClass classifies an error-typed SSA value structurally.
type errClass struct {
	Kind string // nil sentinel wrap fresh call phi other
	G    *ssa.Global
	Call ssa.CallInstruction
	Desc string
}

func (a *Analysis) classifyErr(v ssa.Value) errClass {
	// recursion guard (a helper that returns the result of calling itself)
	if a.clsBusy == nil {
		a.clsBusy = map[ssa.Value]bool{}
	}
	if a.clsBusy[v] || len(a.clsBusy) > 64 {
		return errClass{Kind: "other", Desc: "recursive definition"}
	}
	a.clsBusy[v] = true
	defer delete(a.clsBusy, v)
	switch x := v.(type) {
	case *ssa.Const:
		if x.Value == nil {
			return errClass{Kind: "nil", Desc: "nil"}
		}
	case *ssa.UnOp:
		if g := loadedGlobal(x); g != nil && g.Pkg != nil && a.P.InModule(g.Pkg) {
			g = a.canonSentinel(g)
			return errClass{Kind: "sentinel", G: g, Desc: g.Name()}
		}
	case *ssa.Alloc:
		// reached through a constructor (`return &T{…}` in newT, see the call case)
		if c, ok := a.classifyAlloc(x); ok {
			return c
		}
	case *ssa.MakeInterface:
		// a constant of a string-backed module type whose only error-related method is Error
		// (`type sentinelError string`): equal to every value of that type with the same text —
		// the sentinel declared with that text, or no sentinel at all
		if n, text, ok := a.constErr(x.X); ok {
			for _, name := range []string{"ErrWordLen", "ErrEntropyLen", "ErrChecksumIncorrect"} {
				g := a.sentinel(name)
				if g == nil {
					continue
				}
				if st := a.onlyDeclStore(g); st != nil {
					if mi, ok := st.Val.(*ssa.MakeInterface); ok {
						if n2, t2, ok := a.constErr(mi.X); ok && n2 == n && t2 == text {
							return errClass{Kind: "sentinel", G: g, Desc: fmt.Sprintf("%s(%q), the value of %s", n.Obj().Name(), text, g.Name())}
						}
					}
				}
			}
			return errClass{Kind: "fresh", Desc: fmt.Sprintf("%s(%q), the value of no sentinel", n.Obj().Name(), text)}
		}
		// &T{…} of a module type whose only error-related method is Error: a fresh error value
		// (pointer identity), matching nothing but itself
		if al, ok := x.X.(*ssa.Alloc); ok && al.Heap {
			if pt, ok := al.Type().Underlying().(*types.Pointer); ok {
				if n, ok := pt.Elem().(*types.Named); ok && n.Obj().Pkg() != nil && a.P.Root != nil && n.Obj().Pkg() == a.P.Root.Pkg {
					ms := a.P.SSA.MethodSets.MethodSet(al.Type())
					hasError, other := false, false
					for i := 0; i < ms.Len(); i++ {
						switch ms.At(i).Obj().Name() {
						case "Error":
							hasError = true
						case "Is", "As", "Unwrap":
							other = true
						}
					}
					if hasError && !other {
						return errClass{Kind: "fresh", Desc: "&" + n.Obj().Name() + "{…}"}
					}
					if c, ok := a.kindError(al, n, ms); ok {
						return c
					}
				}
			}
		}
		if c, ok := a.unwrappingError(x.X.Type()); ok {
			return c
		}
		return a.classifyErr(x.X)
	case *ssa.ChangeInterface:
		return a.classifyErr(x.X)
	case *ssa.Call:
		switch calleeName(x) {
		case "errors.New":
			return errClass{Kind: "fresh", Call: x, Desc: "errors.New(…)"}
		case "fmt.Errorf":
			if f, ok := strConst(x.Call.Args[0]); ok {
				args := varargsOf(x)
				argi := 0
				for i := 0; i < len(f); i++ {
					if f[i] != '%' {
						continue
					}
					j := i + 1
					for j < len(f) && strings.ContainsRune("+-# 0123456789.[]*", rune(f[j])) {
						j++
					}
					if j >= len(f) {
						break
					}
					if f[j] == '%' {
						i = j
						continue
					}
					if f[j] == 'w' && argi < len(args) && args[argi] != nil {
						if c := a.classifyErr(args[argi]); c.Kind == "sentinel" {
							return errClass{Kind: "wrap", G: c.G, Call: x, Desc: fmt.Sprintf("fmt.Errorf(%q wrapping %s)", f, c.G.Name())}
						}
					}
					argi++
					i = j
				}
				return errClass{Kind: "fresh", Call: x, Desc: fmt.Sprintf("fmt.Errorf(%q)", f)}
			}
			return errClass{Kind: "fresh", Call: x, Desc: "fmt.Errorf(non-constant format)"}
		}
		// a module helper that only ever returns a freshly created error (e.g. newError(text))
		if f := x.Call.StaticCallee(); f != nil && f.Pkg != nil && a.P.InModule(f.Pkg) && len(f.Blocks) > 0 && f.Signature.Results().Len() == 1 {
			allFresh := true
			for _, ret := range returnsOf(f) {
				if c := a.classifyErr(returnedValue(ret, 0)); c.Kind != "fresh" {
					allFresh = false
				}
			}
			if allFresh && !a.touchesPackageState(f) {
				return errClass{Kind: "fresh", Call: x, Desc: fnKey(f) + "(…) = errors.New(…)"}
			}
		}
		// a module helper whose every return is nil or one and the same sentinel (possibly wrapped):
		// where its result is known to be non-nil it is that sentinel
		if f := x.Call.StaticCallee(); f != nil && f.Pkg != nil && a.P.InModule(f.Pkg) && len(f.Blocks) > 0 && f.Signature.Results().Len() == 1 && !a.touchesPackageStateExceptLoads(f) {
			var g *ssa.Global
			same := true
			for _, ret := range returnsOf(f) {
				c := a.classifyErr(returnedValue(ret, 0))
				switch {
				case c.Kind == "nil":
				case (c.Kind == "sentinel" || c.Kind == "wrap") && (g == nil || g == c.G):
					g = c.G
				default:
					same = false
				}
			}
			if same && g != nil {
				return errClass{Kind: "wrap", G: g, Call: x, Desc: fmt.Sprintf("%s(…), which returns nil or %s", fnKey(f), g.Name())}
			}
		}
		return errClass{Kind: "call", Call: x, Desc: "result of " + calleeName(x)}
	case *ssa.Extract:
		if c, ok := x.Tuple.(*ssa.Call); ok {
			// the error result of a module helper whose every return gives nil or one sentinel
			if f := c.Call.StaticCallee(); f != nil && f.Pkg != nil && a.P.InModule(f.Pkg) && len(f.Blocks) > 0 && x.Index == f.Signature.Results().Len()-1 && !a.touchesPackageStateExceptLoads(f) {
				var g *ssa.Global
				same := true
				for _, ret := range returnsOf(f) {
					cl := a.classifyErr(returnedValue(ret, x.Index))
					switch {
					case cl.Kind == "nil":
					case (cl.Kind == "sentinel" || cl.Kind == "wrap") && (g == nil || g == cl.G):
						g = cl.G
					default:
						same = false
					}
				}
				if same && g != nil {
					return errClass{Kind: "wrap", G: g, Call: c, Desc: fmt.Sprintf("the error of %s(…), which is nil or %s", fnKey(f), g.Name())}
				}
			}
			return errClass{Kind: "call", Call: c, Desc: "result of " + calleeName(c)}
		}
	case *ssa.Phi:
		return errClass{Kind: "phi", Desc: "φ"}
	}
	return errClass{Kind: "other", Desc: v.String()}
}

// varargsOf returns the values passed through the variadic slice of a call (nil entries unknown).
func varargsOf(c *ssa.Call) []ssa.Value {
	n := len(c.Call.Args)
	if n == 0 {
		return nil
	}
	sl, ok := c.Call.Args[n-1].(*ssa.Slice)
	if !ok {
		return nil
	}
	al, ok := sl.X.(*ssa.Alloc)
	if !ok {
		return nil
	}
	at, ok := al.Type().Underlying().(*types.Pointer).Elem().Underlying().(*types.Array)
	if !ok {
		return nil
	}
	out := make([]ssa.Value, at.Len())
	for _, r := range *al.Referrers() {
		ia, ok := r.(*ssa.IndexAddr)
		if !ok {
			continue
		}
		i, ok := intConst(ia.Index)
		if !ok || i < 0 || i >= int64(len(out)) {
			continue
		}
		for _, rr := range *ia.Referrers() {
			if st, ok := rr.(*ssa.Store); ok && st.Addr == ssa.Value(ia) {
				v := st.Val
				if mi, ok := v.(*ssa.MakeInterface); ok {
					v = mi.X
				}
				out[i] = v
			}
		}
	}
	return out
}

func (a *Analysis) sentinel(name string) *ssa.Global {
	g, _ := a.P.Root.Members[name].(*ssa.Global)
	return g
}

// constErr: v is a constant of a module type with underlying type string whose method set has
// Error and none of Is, As, Unwrap; the type and the text.
func (a *Analysis) constErr(v ssa.Value) (*types.Named, string, bool) {
	for {
		switch x := v.(type) {
		case *ssa.ChangeType:
			v = x.X
			continue
		case *ssa.Convert:
			v = x.X
			continue
		}
		break
	}
	c, ok := v.(*ssa.Const)
	if !ok || c.Value == nil || c.Value.Kind() != constant.String {
		return nil, "", false
	}
	n, ok := c.Type().(*types.Named)
	if !ok || n.Obj().Pkg() == nil || a.P.Root == nil || n.Obj().Pkg() != a.P.Root.Pkg {
		return nil, "", false
	}
	if b, ok := n.Underlying().(*types.Basic); !ok || b.Kind() != types.String {
		return nil, "", false
	}
	ms := a.P.SSA.MethodSets.MethodSet(n)
	hasError, other := false, false
	for i := 0; i < ms.Len(); i++ {
		switch ms.At(i).Obj().Name() {
		case "Error":
			hasError = true
		case "Is", "As", "Unwrap":
			other = true
		}
	}
	if !hasError || other {
		return nil, "", false
	}
	return n, constant.StringVal(c.Value), true
}

// onlyDeclStore: the one store to g, made by its declaration (nil if g is written otherwise).
func (a *Analysis) onlyDeclStore(g *ssa.Global) *ssa.Store {
	var st *ssa.Store
	n := 0
	for _, w := range a.Ef.Writes[g] {
		if w.Test {
			continue
		}
		n++
		if w.Synth && w.Kind == "store" {
			st, _ = w.Instr.(*ssa.Store)
		}
	}
	if n != 1 {
		return nil
	}
	return st
}

// privateFreshErr: g is a package-level error variable of the module other than the three
// exported sentinels (or a name for one of them), assigned once, by its declaration, a fresh
// error value — an error that wraps it matches none of the sentinels.
func (a *Analysis) privateFreshErr(g *ssa.Global) bool {
	if g == nil || g.Pkg == nil || !a.P.InModule(g.Pkg) {
		return false
	}
	for _, name := range []string{"ErrWordLen", "ErrEntropyLen", "ErrChecksumIncorrect"} {
		if s := a.sentinel(name); s == nil || a.canonSentinel(g) == s || g == s {
			return false
		}
	}
	st := a.onlyDeclStore(g)
	if st == nil {
		return false
	}
	c := a.classifyErr(st.Val)
	return c.Kind == "fresh"
}

// classifyAlloc: &T{…} of a module type whose only error-related method is Error is a fresh
// error value (pointer identity), matching nothing but itself; with an Is that compares one
// field, see kindError.
func (a *Analysis) classifyAlloc(al *ssa.Alloc) (errClass, bool) {
	if !al.Heap {
		return errClass{}, false
	}
	pt, ok := al.Type().Underlying().(*types.Pointer)
	if !ok {
		return errClass{}, false
	}
	n, ok := pt.Elem().(*types.Named)
	if !ok || n.Obj().Pkg() == nil || a.P.Root == nil || n.Obj().Pkg() != a.P.Root.Pkg {
		return errClass{}, false
	}
	ms := a.P.SSA.MethodSets.MethodSet(al.Type())
	hasError, other := false, false
	for i := 0; i < ms.Len(); i++ {
		switch ms.At(i).Obj().Name() {
		case "Error":
			hasError = true
		case "Is", "As", "Unwrap":
			other = true
		}
	}
	if hasError && !other {
		return errClass{Kind: "fresh", Desc: "&" + n.Obj().Name() + "{…}"}, true
	}
	return a.kindError(al, n, ms)
}

// matches reports whether error value v certainly satisfies errors.Is(v, G).
func (a *Analysis) matches(v ssa.Value, g *ssa.Global) (bool, string) {
	c := a.classifyErr(v)
	if (c.Kind == "sentinel" || c.Kind == "wrap") && c.G == g && g != nil {
		return true, c.Desc
	}
	return false, c.Desc
}

// ruleS1: the three sentinels are distinct variables, each assigned once, by its declaration, a fresh error.
// unwrappingError: t (a module type T or *T) has the methods Error and Unwrap and neither Is
// nor As, and every return of Unwrap gives one and the same sentinel: a value of that type
// converted to error matches that sentinel (and nothing else of this module).
func (a *Analysis) unwrappingError(t types.Type) (errClass, bool) {
	base := t
	if p, ok := t.(*types.Pointer); ok {
		base = p.Elem()
	}
	n, ok := base.(*types.Named)
	if !ok || n.Obj().Pkg() == nil || a.P.Root == nil || n.Obj().Pkg() != a.P.Root.Pkg {
		return errClass{}, false
	}
	ms := a.P.SSA.MethodSets.MethodSet(t)
	var unwrap *ssa.Function
	hasError := false
	for i := 0; i < ms.Len(); i++ {
		switch ms.At(i).Obj().Name() {
		case "Error":
			hasError = true
		case "Unwrap":
			unwrap = a.P.SSA.MethodValue(ms.At(i))
		case "Is", "As":
			return errClass{}, false
		}
	}
	if !hasError || unwrap == nil || len(unwrap.Blocks) == 0 || unwrap.Signature.Results().Len() != 1 || !isErrorType(unwrap.Signature.Results().At(0).Type()) {
		return errClass{}, false
	}
	var g *ssa.Global
	for _, ret := range returnsOf(unwrap) {
		c := a.classifyErr(returnedValue(ret, 0))
		if c.Kind != "sentinel" || (g != nil && g != c.G) {
			return errClass{}, false
		}
		g = c.G
	}
	if g == nil || a.touchesPackageStateExceptLoads(unwrap) {
		return errClass{}, false
	}
	return errClass{Kind: "wrap", G: g, Desc: fmt.Sprintf("%s{…}, whose Unwrap returns %s", n.Obj().Name(), g.Name())}, true
}

// kindIsField analyses the Is method of *T: if it is exactly
//
//	func (e *T) Is(target error) bool { t, ok := target.(*T); return ok && t.F == e.F }
//
// (one comma-ok assertion of the target to *T, one equality of field F of the two values, no
// call, no store; it returns false, that equality, or a φ of the two), errors.Is(x, y) between
// values of this type holds exactly when their F fields are equal.  Returns F.
func (a *Analysis) kindIsField(n *types.Named, ms *types.MethodSet) (int, bool) {
	if a.kindIs == nil {
		a.kindIs = map[*types.Named]int{}
	}
	if f, done := a.kindIs[n]; done {
		return f, f >= 0
	}
	a.kindIs[n] = -1
	var isM *ssa.Function
	for i := 0; i < ms.Len(); i++ {
		switch ms.At(i).Obj().Name() {
		case "Is":
			isM = a.P.SSA.MethodValue(ms.At(i))
		case "As", "Unwrap":
			return -1, false
		}
	}
	if isM == nil || len(isM.Blocks) == 0 || len(isM.Params) != 2 {
		return -1, false
	}
	recv := isM.Params[0]
	var ta *ssa.TypeAssert
	var eq *ssa.BinOp
	for _, b := range isM.Blocks {
		for _, in := range b.Instrs {
			switch x := in.(type) {
			case *ssa.TypeAssert:
				if ta != nil || !x.CommaOk || x.X != ssa.Value(isM.Params[1]) || !types.Identical(x.AssertedType, recv.Type()) {
					return -1, false
				}
				ta = x
			case *ssa.BinOp:
				if x.Op != token.EQL || eq != nil {
					return -1, false
				}
				eq = x
			case ssa.CallInstruction, *ssa.Store, *ssa.MapUpdate, *ssa.Send, *ssa.Go, *ssa.Defer, *ssa.Panic:
				return -1, false
			case *ssa.Return:
				for _, res := range x.Results {
					if !boolFrom(res, func(v ssa.Value) bool { return eq != nil && v == ssa.Value(eq) }, 0) {
						return -1, false
					}
				}
			}
		}
	}
	if ta == nil || eq == nil {
		return -1, false
	}
	// the two operands: field F of the receiver and field F of the asserted value
	fieldOf := func(v ssa.Value) (ssa.Value, int, bool) {
		ld, ok := v.(*ssa.UnOp)
		if !ok || ld.Op != token.MUL {
			return nil, 0, false
		}
		fa, ok := ld.X.(*ssa.FieldAddr)
		if !ok {
			return nil, 0, false
		}
		return fa.X, fa.Field, true
	}
	bx, fx, okx := fieldOf(eq.X)
	by, fy, oky := fieldOf(eq.Y)
	if !okx || !oky || fx != fy {
		return -1, false
	}
	isAsserted := func(v ssa.Value) bool {
		ex, ok := v.(*ssa.Extract)
		return ok && ex.Tuple == ssa.Value(ta) && ex.Index == 0
	}
	if !(bx == ssa.Value(recv) && isAsserted(by) || by == ssa.Value(recv) && isAsserted(bx)) {
		return -1, false
	}
	// the equality is only evaluated where the assertion succeeded
	okEx := false
	for _, ref := range *ta.Referrers() {
		if ex, isEx := ref.(*ssa.Extract); isEx && ex.Index == 1 {
			for _, r2 := range *ex.Referrers() {
				if ifi, isIf := r2.(*ssa.If); isIf && ifi.Block().Succs[0].Dominates(eq.Block()) {
					okEx = true
				}
			}
		}
	}
	if !okEx {
		return -1, false
	}
	a.kindIs[n] = fx
	return fx, true
}

// boolFrom: v is the constant false, a value accepted by leaf, or a φ of such values.
func boolFrom(v ssa.Value, leaf func(ssa.Value) bool, depth int) bool {
	if depth > 4 {
		return false
	}
	if c, ok := v.(*ssa.Const); ok && c.Value != nil && c.Value.Kind() == constant.Bool {
		return !constant.BoolVal(c.Value)
	}
	if leaf(v) {
		return true
	}
	if phi, ok := v.(*ssa.Phi); ok {
		for _, e := range phi.Edges {
			if !boolFrom(e, leaf, depth+1) {
				return false
			}
		}
		return true
	}
	return false
}

// allocField: the one constant integer stored into field f of the freshly allocated struct al.
func allocField(al *ssa.Alloc, f int) (int64, bool) {
	n := 0
	var k int64
	for _, ref := range *al.Referrers() {
		fa, ok := ref.(*ssa.FieldAddr)
		if !ok || fa.Field != f {
			continue
		}
		for _, r2 := range *fa.Referrers() {
			st, ok := r2.(*ssa.Store)
			if !ok || st.Addr != ssa.Value(fa) {
				continue
			}
			c, isC := intConst(st.Val)
			if !isC {
				return 0, false
			}
			k = c
			n++
		}
	}
	if n == 0 {
		return 0, true // never assigned: the zero value
	}
	return k, n == 1
}

// sentinelAlloc: the &T{…} a sentinel variable is initialised with by its declaration.
func (a *Analysis) sentinelAlloc(g *ssa.Global) *ssa.Alloc {
	var ws []Write
	for _, w := range a.Ef.Writes[g] {
		if !w.Test {
			ws = append(ws, w)
		}
	}
	if len(ws) != 1 || !ws[0].Synth || ws[0].Kind != "store" {
		return nil
	}
	v := ws[0].Instr.(*ssa.Store).Val
	for {
		switch x := v.(type) {
		case *ssa.MakeInterface:
			v = x.X
			continue
		case *ssa.ChangeInterface:
			v = x.X
			continue
		}
		break
	}
	al, _ := v.(*ssa.Alloc)
	return al
}

// kindError classifies &T{…} for a type whose Is method compares one field (kindIsField): it
// matches exactly the sentinels of type *T that carry the same value in that field.  The
// allocation a sentinel is declared with is that sentinel (a fresh value); another value with
// a sentinel's kind is a wrapper of that sentinel as far as errors.Is goes; a kind no sentinel
// has matches none of them.
func (a *Analysis) kindError(al *ssa.Alloc, n *types.Named, ms *types.MethodSet) (errClass, bool) {
	f, ok := a.kindIsField(n, ms)
	if !ok {
		return errClass{}, false
	}
	k, ok := allocField(al, f)
	if !ok {
		return errClass{}, false
	}
	var same []*ssa.Global
	own := false
	for _, name := range []string{"ErrWordLen", "ErrEntropyLen", "ErrChecksumIncorrect"} {
		g := a.sentinel(name)
		if g == nil {
			continue
		}
		sal := a.sentinelAlloc(g)
		if sal == nil {
			continue
		}
		if pt, ok := sal.Type().Underlying().(*types.Pointer); !ok || !types.Identical(pt.Elem(), n) {
			continue
		}
		if sk, ok := allocField(sal, f); ok && sk == k {
			same = append(same, g)
			if sal == al {
				own = true
			}
		}
	}
	desc := fmt.Sprintf("&%s{…} with %s = %d (errors.Is compares that field)", n.Obj().Name(), n.Underlying().(*types.Struct).Field(f).Name(), k)
	switch {
	case own && len(same) == 1:
		return errClass{Kind: "fresh", Desc: desc}, true
	case own:
		return errClass{Kind: "other", Desc: desc + ": another sentinel carries the same value, they match each other"}, true
	case len(same) == 1:
		return errClass{Kind: "wrap", G: same[0], Desc: desc + ", the kind of " + same[0].Name()}, true
	case len(same) == 0:
		return errClass{Kind: "fresh", Desc: desc + ", the kind of no sentinel"}, true
	}
	return errClass{Kind: "other", Desc: desc}, true
}

func (a *Analysis) ruleS1() {
	r := a.R
	seen := map[*ssa.Global]bool{}
	for _, name := range []string{"ErrWordLen", "ErrEntropyLen", "ErrChecksumIncorrect"} {
		g := a.sentinel(name)
		if g == nil || !isErrorType(g.Type().(*types.Pointer).Elem()) {
			r.Unk("S1", "sentinel/"+name, "-", "", "exported error variable %s not found", name)
			continue
		}
		pos := a.P.Pos(g.Pos())
		if seen[g] {
			r.Bad("S1", "sentinel/"+name, pos, "", "sentinel shared")
		}
		seen[g] = true
		var ws []Write
		for _, w := range a.Ef.Writes[g] {
			if !w.Test {
				ws = append(ws, w)
			}
		}
		ok := len(ws) == 1 && ws[0].Synth && ws[0].Kind == "store"
		desc := ""
		if ok {
			st := ws[0].Instr.(*ssa.Store)
			if h := loadedGlobal(st.Val); h != nil && a.G.SentAlias[h] == g {
				// re-exported: the value the inner variable's declaration gives it
				for _, w := range a.Ef.Writes[h] {
					if !w.Test {
						st = w.Instr.(*ssa.Store)
						desc = "the value of " + h.Pkg.Pkg.Name() + "." + h.Name() + ", itself assigned once, by its declaration: "
					}
				}
			}
			c := a.classifyErr(st.Val)
			desc += c.Desc
			ok = c.Kind == "fresh"
			if c.Kind == "sentinel" && c.G == g {
				// a string-backed constant error: its own text, which no other sentinel has (another
				// sentinel with the same text would have been found first or second, and differ)
				ok = true
				for _, other := range []string{"ErrWordLen", "ErrEntropyLen", "ErrChecksumIncorrect"} {
					og := a.sentinel(other)
					if og == nil || og == g {
						continue
					}
					if ost := a.onlyDeclStore(og); ost != nil {
						if oc := a.classifyErr(ost.Val); oc.Kind == "sentinel" && oc.G == g {
							ok = false
							desc += "; " + og.Name() + " has the same value"
						}
					}
				}
			}
		}
		if ok {
			r.OK("S1", "sentinel/"+name, pos, "", "assigned once, by its declaration: %s", desc)
		} else {
			var where []string
			for _, w := range ws {
				where = append(where, a.P.InstrPos(w.Instr))
			}
			r.Bad("S1", "sentinel/"+name, pos, "", "%s must be assigned exactly once, by its own declaration, a fresh error value (writers: %s %s)", name, strings.Join(where, ", "), desc)
		}
	}
	r.Counts["S1.sentinels"] = len(seen)
}

// ---------------------------------------------------------------- gates

type gateSpec struct {
	rule     string
	fn       *ssa.Function
	what     string
	spec     []int64
	sentinel string
	// allowLateFail: exits with a non-nil error that only accepted sizes reach (the read-failure exit)
	allowLateFail bool
	strResult     bool          // first result is a string that must be "" on reject exits
	kind          string        // context kind of the subject: "L", "W" or "N"
	entry         *ssa.Function // function to evaluate for feasibility questions (default fn)
	// emptyIn: string values of fn that are empty exactly when the tokeniser's input is empty
	// (that input and, if it is NFKD of x, x); emptyN is the subject's value then (len of the
	// tokens of the empty string).  An exit taken on `x == ""` before the subject is computed
	// is an exit reached with that one subject value.
	emptyIn map[ssa.Value]bool
	emptyN  int64
}

// semanticPredicate classifies helper f(x int) → (…, bool | error) by abstract evaluation on a
// partition of the integers: every constant occurring in f and the module functions it calls,
// its neighbours, and the intervals in between.  The result is used only if every class is
// decided (the helper certainly holds / certainly does not hold on the whole class).
func (a *Analysis) semanticPredicate(f *ssa.Function, bits int) *predSets {
	return a.semanticPredicateSlice(f, bits, nil)
}

// semanticPredicateSlice: the same for f(table []int, x int) (either order) with the table fixed
// to the given constants (nil: a one-argument predicate).
func (a *Analysis) semanticPredicateSlice(f *ssa.Function, bits int, table []int64) *predSets {
	return a.semanticPredicateGen(f, bits, table, nil)
}

// intCmp: "the helper's one integer result <op> C".
type intCmp struct {
	Op token.Token
	C  int64
}

// semanticPredicateCmp classifies `f(x) <op> c` for a helper f(x int) int of the module (a size
// helper that answers -1 for "not a valid size"): true where the comparison certainly holds.
func (a *Analysis) semanticPredicateCmp(f *ssa.Function, bits int, op token.Token, c int64) *predSets {
	return a.semanticPredicateGen(f, bits, nil, &intCmp{op, c})
}

// semanticPredicateFixed classifies a predicate with several integer parameters, all but one
// of them fixed to the constants of one call site (`isSizeAccepted(n, 16, 32, 4)`).
func (a *Analysis) semanticPredicateFixed(f *ssa.Function, bits int, fixed map[int]int64) *predSets {
	a.predFixed = fixed
	defer func() { a.predFixed = nil }()
	return a.semanticPredicateGen(f, bits, nil, nil)
}

func (a *Analysis) semanticPredicateGen(f *ssa.Function, bits int, table []int64, cmp *intCmp) *predSets {
	res := f.Signature.Results()
	if res.Len() == 0 {
		return nil
	}
	last := res.At(res.Len() - 1).Type()
	isErr := isErrorType(last)
	if cmp != nil {
		if res.Len() != 1 || !isIntType(last) {
			return nil
		}
	} else if bt, ok := last.Underlying().(*types.Basic); !isErr && (!ok || bt.Kind() != types.Bool) {
		return nil
	}
	for fn := range a.reachableFrom(f) {
		if a.touchesPackageStateExceptLoads(fn) {
			return nil
		}
	}
	lo, hi := int64(math.MinInt64), int64(math.MaxInt64)
	if bits == 32 {
		lo, hi = math.MinInt32, math.MaxInt32
	}
	points := map[int64]bool{lo: true, hi: true, 0: true}
	fixedP := map[*ssa.Parameter]int64{}
	for i, c := range a.predFixed {
		if i < len(f.Params) {
			fixedP[f.Params[i]] = c
		}
		table = append(append([]int64{}, table...), c) // a boundary of the partition like any other constant
	}
	tableArg := table[:len(table)-len(a.predFixed)]
	for _, c := range table {
		if c >= lo && c <= hi {
			points[c] = true
			if c > lo {
				points[c-1] = true
			}
			if c < hi {
				points[c+1] = true
			}
		}
	}
	for fn := range a.reachableFrom(f) {
		for _, b := range fn.Blocks {
			for _, in := range b.Instrs {
				for _, op := range in.Operands(nil) {
					if c, ok := intConst(*op); ok && c >= lo && c <= hi {
						points[c] = true
						if c > lo {
							points[c-1] = true
						}
						if c < hi {
							points[c+1] = true
						}
					}
				}
			}
		}
	}
	if len(points) > 400 {
		return nil
	}
	var ps []int64
	for p := range points {
		ps = append(ps, p)
	}
	sort.Slice(ps, func(i, j int) bool { return ps[i] < ps[j] })
	out := &predSets{Relied: map[*ssa.Global]bool{}}
	classify := func(ctx *Ctx, set ZSet) bool {
		ctx.IntTable = tableArg
		if len(fixedP) > 0 {
			ctx.ParamConst = fixedP
		}
		e := NewEval(a.P, a.G, ctx)
		rv, _ := e.Run(f)
		for gl := range e.Relied {
			out.Relied[gl] = true
		}
		for _, ev := range e.Events {
			if ev.Status != Discharged && ev.Rule != "" {
				return false // it may panic or was not fully evaluated on this class
			}
		}
		if len(rv) != res.Len() {
			return false
		}
		v := rv[len(rv)-1]
		if cmp != nil {
			iv, ok := v.(IntV)
			if !ok {
				return false
			}
			lo, hi, okb := iv.Bounds(0)
			if !okb {
				return false
			}
			all, none := true, true
			for _, p := range []int64{lo, hi} {
				if cmpHolds(p, cmp.Op, cmp.C) {
					none = false
				} else {
					all = false
				}
			}
			// between the bounds the answer can only change at C itself
			if lo < cmp.C && cmp.C < hi {
				all, none = false, false
			}
			switch {
			case all:
				out.T = out.T.Union(set)
			case none:
				out.F = out.F.Union(set)
			default:
				return false
			}
			return true
		}
		if isErr {
			ev := asErr(v)
			switch {
			case ev.Kind == ekNil:
				out.F = out.F.Union(set)
			case ev.Kind == ekFresh || ev.Kind == ekSentinel || ev.Kind == ekWrap || ev.NonNil:
				out.T = out.T.Union(set)
			default:
				return false
			}
			return true
		}
		bv, ok := v.(BoolV)
		if !ok || !bv.Known {
			return false
		}
		if bv.Val {
			out.T = out.T.Union(set)
		} else {
			out.F = out.F.Union(set)
		}
		return true
	}
	// an interval the helper is not decided on as a whole (it compares its argument with values
	// it reads from a table, which are not among the constants above) is halved until it is, within
	// a budget of evaluations
	budget := 1500
	var interval func(l, h int64) bool
	interval = func(l, h int64) bool {
		budget--
		if budget < 0 {
			return false
		}
		if l == h {
			p := l
			return classify(&Ctx{Name: fmt.Sprintf("pred:%s(%d)", f.Name(), p), WordCount: &p}, ZOf(p))
		}
		saveT, saveF := out.T, out.F
		if classify(&Ctx{Name: fmt.Sprintf("pred:%s[%d..%d]", f.Name(), l, h), SizeKind: "W", SizeRange: &[2]int64{l, h}}, ZRange(l, h)) {
			return true
		}
		out.T, out.F = saveT, saveF
		mid := l + (h-l)/2
		return interval(l, mid) && interval(mid+1, h)
	}
	for i, p := range ps {
		if !interval(p, p) {
			return nil
		}
		if i+1 < len(ps) && ps[i+1] > p+1 {
			if !interval(p+1, ps[i+1]-1) {
				return nil
			}
		}
	}
	return out
}

// detectWalker: the validator (and what it calls) makes no tokeniser call, and exactly one
// strings.Count(s, sep) with a one-byte ASCII separator: that count stands for the tokeniser
// (the sentence is cut word by word; evaluator: walkCount, cursorOf).  Run before any evaluation.
func (a *Analysis) detectWalker() {
	if a.CM == nil {
		return
	}
	var cnt *ssa.Call
	nc := 0
	for f := range a.reachableFrom(a.CM) {
		for _, c := range callsIn(f) {
			switch calleeName(c) {
			case "strings.Split", "strings.Fields", "strings.SplitN":
				return
			case "strings.Count":
				cc, ok := c.(*ssa.Call)
				if !ok {
					continue
				}
				if s, isC := strConst(cc.Call.Args[1]); !isC || len(s) != 1 || s[0] >= 0x80 {
					continue
				}
				cnt = cc
				nc++
			default:
				if cc, ok := c.(*ssa.Call); ok {
					if _, isSplit := a.P.byteSplitter(cc.Call.StaticCallee()); isSplit {
						return
					}
				}
			}
		}
	}
	if nc == 1 {
		a.P.walkCount = map[*ssa.Call]bool{cnt: true}
	}
}

// gateHolder: the function in which the size gate on param is to be looked for.  An entry point
// of one block that does nothing with the parameter but hand it to one call of a module
// function and returns that call's results in order (`return NewGenerator(lang).FromEntropy(entropy)`,
// a package-level function kept as a forward to a method of a new type) has its gate in that
// function; whatever else the entry point computes (the receiver it builds) is followed by the
// evaluation, which starts at the entry point as before.
func (a *Analysis) gateHolder(rule string, fn *ssa.Function, param *ssa.Parameter) (*ssa.Function, *ssa.Parameter) {
	for depth := 0; depth < 3; depth++ {
		if len(fn.Blocks) != 1 {
			break
		}
		var call *ssa.Call
		idx := -1
		ok := true
		for _, ref := range *param.Referrers() {
			switch x := ref.(type) {
			case *ssa.DebugRef:
			case *ssa.Call:
				if call != nil {
					ok = false
				}
				call = x
			default:
				ok = false
			}
		}
		if !ok || call == nil {
			break
		}
		g := call.Call.StaticCallee()
		if g == nil || !a.isModuleFunc(g) || len(g.Blocks) == 0 || g == fn || len(g.Params) != len(call.Call.Args) {
			break
		}
		for i, arg := range call.Call.Args {
			if arg == ssa.Value(param) {
				if idx >= 0 {
					ok = false
				}
				idx = i
			}
		}
		if !ok || idx < 0 {
			break
		}
		ret, _ := fn.Blocks[0].Instrs[len(fn.Blocks[0].Instrs)-1].(*ssa.Return)
		if ret == nil || len(ret.Results) != g.Signature.Results().Len() {
			break
		}
		for i, v := range ret.Results {
			if len(ret.Results) == 1 && v == ssa.Value(call) {
				continue
			}
			if ex, isEx := v.(*ssa.Extract); !isEx || ex.Tuple != ssa.Value(call) || ex.Index != i {
				ok = false
			}
		}
		if !ok {
			break
		}
		a.R.OK("ANCHOR", fn.Name()+"/gate-in", a.P.Pos(fn.Pos()), "", "%s hands %s to %s and returns its results: the size gate (%s) is looked for there", fnKey(fn), param.Name(), fnKey(g), rule)
		fn, param = g, g.Params[idx]
	}
	return fn, param
}

func (a *Analysis) ruleGates() {
	semPredMu.Lock()
	semPredByProg[a.P.SSA] = a.semanticPredicate
	semPredSliceByProg[a.P.SSA] = a.semanticPredicateSlice
	semPredCmpByProg[a.P.SSA] = a.semanticPredicateCmp
	semPredFixedByProg[a.P.SSA] = a.semanticPredicateFixed
	semPredMu.Unlock()
	bits := a.P.Cfg.IntBits()
	maxInt := int64(math.MaxInt64)
	minInt := int64(math.MinInt64)
	if bits == 32 {
		maxInt, minInt = math.MaxInt32, math.MinInt32
	}
	// the length of a slice is bounded by what the runtime can allocate (2^48 bytes on
	// 64-bit platforms, 2^31-1 on 32-bit ones): the domain of len() subjects
	maxLen := int64(1) << 48
	if bits == 32 {
		maxLen = math.MaxInt32
	}
	// G1: len(entropy) in NewMnemonicByEntropy
	if a.NME != nil {
		var param *ssa.Parameter
		for _, p := range a.NME.Params {
			if s, ok := p.Type().Underlying().(*types.Slice); ok {
				if b, ok := s.Elem().Underlying().(*types.Basic); ok && b.Kind() == types.Uint8 {
					param = p
				}
			}
		}
		if param == nil {
			a.R.Unk("G1", "NewMnemonicByEntropy/subject", a.P.Pos(a.NME.Pos()), "", "no []byte parameter")
		} else {
			gfn, param := a.gateHolder("G1", a.NME, param)
			a.Gate1Param = param
			subj := map[ssa.Value]bool{}
			same := map[ssa.Value]bool{param: true}
			for _, v := range spilledLoads(param) {
				same[v] = true
			}
			for _, c := range callsIn(gfn) {
				if calleeName(c) == "len" && same[c.Common().Args[0]] {
					subj[c.Value()] = true
				}
			}
			if len(subj) == 0 {
				// the length is never taken here: the parameter itself stands for it where it is
				// handed to an error-returning constructor of the module that takes it
				// (`ent, err := NewEntropy(entropy); if err != nil { return "", err }`)
				subj[param] = true
			}
			res := AnalyseGate(gfn, subj, gfn.Blocks[0], ZRange(0, maxLen), bits, a.gateTables, a.isModuleFunc)
			a.Gate1 = a.checkGate(gateSpec{rule: "G1", fn: gfn, what: "len(" + param.Name() + ")", spec: specEntLens(), sentinel: "ErrEntropyLen", strResult: true, kind: "L"}, res)
		}
	}
	// G2: the int parameter of NewMnemonic
	if a.NM != nil {
		var param *ssa.Parameter
		for _, p := range a.NM.Params {
			if b, ok := p.Type().Underlying().(*types.Basic); ok && b.Info()&types.IsInteger != 0 && !a.isLang(p.Type()) {
				param = p
			}
		}
		if param == nil {
			a.R.Unk("G2", "NewMnemonic/subject", a.P.Pos(a.NM.Pos()), "", "no int parameter")
		} else {
			gfn, param := a.gateHolder("G2", a.NM, param)
			a.Gate2Param = param
			subj := map[ssa.Value]bool{param: true}
			for _, v := range spilledLoads(param) {
				subj[v] = true
			}
			res := AnalyseGate(gfn, subj, gfn.Blocks[0], ZRange(minInt, maxInt), bits, a.gateTables, a.isModuleFunc)
			a.Gate2 = a.checkGate(gateSpec{rule: "G2", fn: gfn, what: param.Name(), spec: specWordCounts(), sentinel: "ErrWordLen", allowLateFail: true, strResult: true, kind: "W"}, res)
		}
	}
	// G3: len(tokens) in CheckMnemonic
	if a.CM != nil {
		// the tokeniser call: in CheckMnemonic itself or in a module function it (transitively)
		// calls (`s, err := splitSentence(m)`); the count gate is analysed in the function that
		// makes the call
		var tok *ssa.Call
		n := 0
		handSplit := false
		splitLimit := int64(0)
		fns := []*ssa.Function{a.CM}
		for f := range a.reachableFrom(a.CM) {
			if f != a.CM {
				fns = append(fns, f)
			}
		}
		sort.Slice(fns[1:], func(i, j int) bool { return fnKey(fns[1+i]) < fnKey(fns[1+j]) })
		for _, f := range fns {
			for _, c := range callsIn(f) {
				switch calleeName(c) {
				case "strings.Split", "strings.Fields":
					if cc, ok := c.(*ssa.Call); ok {
						tok = cc
						n++
					}
				case "strings.SplitN":
					// strings.SplitN(s, sep, k), k a positive constant: min(count, k) pieces, the
					// first k-1 of them as strings.Split cuts them.  Treated as Split with the
					// subject confined to [1,k]; a gate that lets k itself through would take a
					// longer sentence for one of k words (checked below)
					if cc, ok := c.(*ssa.Call); ok {
						tok = cc
						n++
						if k, isC := intConst(cc.Call.Args[2]); isC && k > 0 {
							handSplit = true
							splitLimit = k
						} else {
							n += 100 // not a form that is understood
						}
					}
				default:
					// a hand-written strings.Split of the module (byteSplitter)
					if cc, ok := c.(*ssa.Call); ok {
						if _, isSplit := a.P.byteSplitter(cc.Call.StaticCallee()); isSplit {
							tok = cc
							n++
							handSplit = true
						}
					}
				}
			}
		}
		walk := false
		if tok == nil && n == 0 {
			// no tokeniser call: `strings.Count(s, sep) + 1` words, cut off the front of s one by
			// one at strings.IndexByte(rest, sep) (the evaluator follows the cuts: cursorOf)
			for cnt := range a.P.walkCount {
				tok, n, walk, handSplit = cnt, 1, true, true
			}
		}
		if tok == nil || n != 1 {
			a.R.Unk("G3", "CheckMnemonic/subject", a.P.Pos(a.CM.Pos()), "", "expected exactly one tokeniser call (strings.Split or strings.Fields) in CheckMnemonic or the module functions it calls, found %d", n)
		} else {
			tokFn := tok.Parent()
			a.TokCall = tok
			subj := map[ssa.Value]bool{}
			for _, c := range callsIn(tokFn) {
				if calleeName(c) == "len" && c.Common().Args[0] == ssa.Value(tok) {
					subj[c.Value()] = true
				}
			}
			if walk {
				for _, ref := range *tok.Referrers() {
					if bo, ok := ref.(*ssa.BinOp); ok && bo.Op == token.ADD {
						other := bo.Y
						if other == ssa.Value(tok) {
							other = bo.X
						}
						if k, ok := intConst(other); ok && k == 1 {
							subj[bo] = true
						}
					}
				}
				a.R.OK("G3", "CheckMnemonic/walker", a.P.InstrPos(tok), "", "the sentence is not split: strings.Count + 1 is the number of words, cut off one by one at the next separator (followed by the evaluation as the tokens strings.Split would give)")
			}
			gateFn, defBlock := tokFn, tok.Block()
			// strings.Count(s, sep) + 1 with the operands of the strings.Split call is the same
			// number (sep constant and not empty): a gate on it ahead of the split is a gate on
			// len(tokens)
			if calleeName(tok) == "strings.Split" {
				if sep, ok := tok.Call.Args[1].(*ssa.Const); ok && sep.Value != nil && sep.Value.Kind() == constant.String && constant.StringVal(sep.Value) != "" {
					for _, c := range callsIn(tokFn) {
						cc, isCall := c.(*ssa.Call)
						if !isCall || calleeName(c) != "strings.Count" || cc.Call.Args[0] != tok.Call.Args[0] {
							continue
						}
						s2, ok := cc.Call.Args[1].(*ssa.Const)
						if !ok || s2.Value == nil || s2.Value.Kind() != constant.String || constant.StringVal(s2.Value) != constant.StringVal(sep.Value) {
							continue
						}
						for _, ref := range *cc.Referrers() {
							bo, ok := ref.(*ssa.BinOp)
							if !ok || bo.Op != token.ADD {
								continue
							}
							other := bo.Y
							if other == ssa.Value(cc) {
								other = bo.X
							}
							if k, ok := intConst(other); ok && k == 1 {
								subj[bo] = true
								if a.P.countOfTok == nil {
									a.P.countOfTok = map[*ssa.Call]bool{}
								}
								a.P.countOfTok[cc] = true
								if cc.Block().Dominates(defBlock) {
									defBlock = cc.Block()
								}
							}
						}
					}
				}
			}
			if tokFn != a.CM {
				a.R.OK("G3", "CheckMnemonic/gate-function", a.P.Pos(tokFn.Pos()), "", "the input is split in %s: the count gate is analysed there, and CheckMnemonic may go on only where that call returned a nil error (S2a gate-before-lookup)", fnKey(tokFn))
			}
			if len(subj) == 0 {
				// the tokens are handed to a module function whose result is what CheckMnemonic
				// returns (`return checkWords(strings.Split(m, " "), lg.mapping())`): the gate is
				// looked for there, on len of the parameter that receives the tokens
				if g, param := a.tailCallee(tokFn, tok); g != nil {
					for _, c := range callsIn(g) {
						if calleeName(c) == "len" && c.Common().Args[0] == ssa.Value(param) {
							subj[c.Value()] = true
						}
					}
					if len(subj) > 0 {
						gateFn, defBlock = g, g.Blocks[0]
						a.R.OK("G3", "CheckMnemonic/gate-function", a.P.Pos(g.Pos()), "", "the tokens are passed to %s, whose results CheckMnemonic returns unchanged: the count gate is analysed there (len(%s))", fnKey(g), param.Name())
					}
				}
			}
			if len(subj) == 0 {
				// the function that splits only hands the tokens back (`return strings.Split(…)`):
				// its callers hold them as the call's result; the gate is where len of that is taken
				ri := -1
				rets := returnsOf(tokFn)
				if len(rets) == 1 {
					for i := range rets[0].Results {
						if returnedValue(rets[0], i) == ssa.Value(tok) {
							ri = i
						}
					}
				}
				if ri >= 0 {
					nres := tokFn.Signature.Results().Len()
					for f := range a.reachableFrom(a.CM) {
						for _, c := range callsIn(f) {
							cc, ok := c.(*ssa.Call)
							if !ok || cc.Call.StaticCallee() != tokFn {
								continue
							}
							var tv ssa.Value = cc
							if nres > 1 {
								tv = nil
								for _, ref := range *cc.Referrers() {
									if ex, ok := ref.(*ssa.Extract); ok && ex.Index == ri {
										tv = ex
									}
								}
							}
							if tv == nil {
								continue
							}
							for _, lc := range callsIn(f) {
								if calleeName(lc) == "len" && lc.Common().Args[0] == tv {
									subj[lc.Value()] = true
									gateFn, defBlock = f, cc.Block()
								}
							}
							if len(subj) == 0 {
								// … and the caller hands them on to the function whose results it
								// returns (`return checkWords(splitWords(m), lg)`)
								if g, param := a.tailCallee(f, tv); g != nil {
									for _, lc := range callsIn(g) {
										if calleeName(lc) == "len" && lc.Common().Args[0] == ssa.Value(param) {
											subj[lc.Value()] = true
										}
									}
									if len(subj) > 0 {
										gateFn, defBlock = g, g.Blocks[0]
									}
								}
							}
						}
					}
					if len(subj) > 0 {
						a.R.OK("G3", "CheckMnemonic/gate-function", a.P.Pos(gateFn.Pos()), "", "%s only returns the tokens: the count gate is analysed in %s, on len of that result", fnKey(tokFn), fnKey(gateFn))
					}
				}
			}
			lo := int64(0)
			if calleeName(tok) == "strings.Split" || handSplit {
				lo = 1
			}
			hi := maxLen
			if splitLimit > 0 {
				hi = splitLimit
			}
			res := AnalyseGate(gateFn, subj, defBlock, ZRange(lo, hi), bits, a.gateTables, a.isModuleFunc)
			g3 := gateSpec{rule: "G3", fn: gateFn, entry: a.CM, what: "len(tokens)", spec: specWordCounts(), sentinel: "ErrWordLen", allowLateFail: true, kind: "N"}
			if gateFn == tokFn {
				g3.emptyIn = map[ssa.Value]bool{tok.Call.Args[0]: true}
				g3.emptyN = lo // strings.Split("", sep) has one element, strings.Fields("") none
				if c, ok := tok.Call.Args[0].(*ssa.Call); ok && len(c.Call.Args) > 0 && isNFKDCall(c, c.Call.Args[len(c.Call.Args)-1]) {
					g3.emptyIn[c.Call.Args[len(c.Call.Args)-1]] = true
				}
			}
			a.Gate3 = a.checkGate(g3, res)
			if splitLimit > 0 {
				// with SplitN the count k stands for every sentence of k or more tokens
				tp := a.P.InstrPos(tok)
				passes := false
				if a.Gate3 != nil {
					for _, w := range a.Gate3.Accept {
						if w >= splitLimit {
							passes = true
						}
					}
					if a.Gate3.Extra.Contains(splitLimit) {
						passes = true
					}
				}
				ws := specWordCounts()
				switch {
				case a.Gate3 == nil || passes:
					a.R.Bad("G3", "CheckMnemonic/split-limit", tp, "", "strings.SplitN cuts at most %d pieces and the gate lets a count of %d through: a longer sentence is taken for one of %d words", splitLimit, splitLimit, splitLimit)
				case splitLimit <= ws[len(ws)-1]:
					a.R.Bad("G3", "CheckMnemonic/split-limit", tp, "", "strings.SplitN cuts at most %d pieces: a sentence of %d words cannot be told from a longer one", splitLimit, splitLimit)
				default:
					a.R.OK("G3", "CheckMnemonic/split-limit", tp, "", "strings.SplitN(…, %d): every count the gate lets through is below the limit, where SplitN and Split agree", splitLimit)
				}
			}
		}
	}
	n := 0
	for i, g := range []*GateInfo{a.Gate1, a.Gate2, a.Gate3} {
		if g != nil {
			n++
			a.R.Counts["G.accepted"] += len(g.Accept)
			// per-gate counts: a property's floor names only the gates its own argument uses
			a.R.Counts[fmt.Sprintf("G%d.gate", i+1)] = 1
			a.R.Counts[fmt.Sprintf("G%d.accepted", i+1)] = len(g.Accept)
		}
	}
	a.R.Counts["G.gates"] = n
}

// spilledLoads: a parameter captured by a closure lives in a cell (`t0 = new T (p); *t0 = p`).
// If that one store is the only one, in the function and in every closure that captures the
// cell, each load of the cell in the function yields the parameter: those loads.
func spilledLoads(p *ssa.Parameter) []ssa.Value {
	if p.Referrers() == nil {
		return nil
	}
	var out []ssa.Value
	for _, ref := range *p.Referrers() {
		st, ok := ref.(*ssa.Store)
		if !ok || st.Val != ssa.Value(p) {
			continue
		}
		cell, ok := st.Addr.(*ssa.Alloc)
		if !ok {
			continue
		}
		good := true
		var loads []ssa.Value
		for _, cr := range *cell.Referrers() {
			switch x := cr.(type) {
			case *ssa.Store:
				if x != st {
					good = false
				}
			case *ssa.UnOp:
				if x.Op != token.MUL {
					good = false
				}
				loads = append(loads, x)
			case *ssa.MakeClosure:
				fn, _ := x.Fn.(*ssa.Function)
				for i, b := range x.Bindings {
					if b == ssa.Value(cell) && (fn == nil || i >= len(fn.FreeVars) || !onlyLoaded(fn.FreeVars[i])) {
						good = false
					}
				}
			case *ssa.DebugRef:
			default:
				good = false
			}
		}
		if good {
			out = append(out, loads...)
		}
	}
	return out
}

func (a *Analysis) isLang(t types.Type) bool {
	n, ok := t.(*types.Named)
	return ok && a.G.LangType != nil && types.Identical(n, a.G.LangType)
}

// underEmptyInput: block b is only reached over an edge on which one of the values in vals
// is the empty string (`x == ""`, `len(x) == 0`, `len(x) < 1`, `len(x) <= 0` and their negations
// on the other edge).
func (a *Analysis) underEmptyInput(b *ssa.BasicBlock, vals map[ssa.Value]bool) bool {
	ev := &Eval{P: a.P}
	for _, ce := range ev.ctrlEdges(b) {
		cv := ce.If.Cond
		hold := ce.Taken
		for {
			u, ok := cv.(*ssa.UnOp)
			if !ok || u.Op != token.NOT {
				break
			}
			hold = !hold
			cv = u.X
		}
		bo, ok := cv.(*ssa.BinOp)
		if !ok {
			continue
		}
		op := bo.Op
		if !hold {
			op = negOp(op)
		}
		x, y := bo.X, bo.Y
		if _, isC := x.(*ssa.Const); isC {
			x, y, op = y, x, flipOp(op)
		}
		if s, isC := strConst(y); isC && s == "" && vals[x] && op == token.EQL {
			return true
		}
		if k, isC := intConst(y); isC {
			if base := lenOperand(x); base != nil && vals[base] {
				if (k == 0 && (op == token.EQL || op == token.LEQ)) || (k == 1 && op == token.LSS) {
					return true
				}
			}
		}
	}
	return false
}

// gateExit is one way out of a gated function as the gate rules see it: a return instruction,
// or — when the function has a single `return result, err` whose operands are φ-nodes of the
// returning block (results kept in variables and set on every branch) — one incoming edge of
// that block with the values the φ-nodes take on it.
type gateExit struct {
	ret        *ssa.Return
	blk        *ssa.BasicBlock // block whose reach set applies (the predecessor for a split exit)
	errv, strv ssa.Value
	reach      ZSet
	reached    bool
	label      string
}

func (a *Analysis) gateExits(gs gateSpec, res *GateResult) []gateExit {
	var out []gateExit
	for _, ret := range returnsOf(gs.fn) {
		b := ret.Block()
		errv := returnedValue(ret, len(ret.Results)-1) // sees through `*cell = v; rundefers; return *cell`
		var strv ssa.Value
		if len(ret.Results) > 1 {
			strv = returnedValue(ret, 0)
		}
		ephi, isPhi := errv.(*ssa.Phi)
		if !isPhi || ephi.Block() != b || len(ephi.Edges) != len(b.Preds) || res.Pre[b] {
			reach, reached := res.Reach[b]
			out = append(out, gateExit{ret: ret, blk: b, errv: errv, strv: strv, reach: reach, reached: reached, label: exitLabel(ret)})
			continue
		}
		sphi, _ := strv.(*ssa.Phi)
		for i, p := range b.Preds {
			ev := ephi.Edges[i]
			sv := strv
			if sphi != nil && sphi.Block() == b && i < len(sphi.Edges) {
				sv = sphi.Edges[i]
			}
			reach, reached := res.Edge[[2]*ssa.BasicBlock{p, b}]
			if !reached {
				reach, reached = res.Reach[p]
			}
			out = append(out, gateExit{ret: ret, blk: p, errv: ev, strv: sv, reach: reach, reached: reached, label: fmt.Sprintf("%s<-%s", exitLabel(ret), valueLabel(ev))})
		}
	}
	return out
}

// valueLabel names a returned value for an exit label.
func valueLabel(v ssa.Value) string {
	switch x := v.(type) {
	case *ssa.Const:
		if x.Value == nil {
			return "nil"
		}
		return x.Value.String()
	case *ssa.UnOp:
		if g := loadedGlobal(x); g != nil {
			return g.Name()
		}
	case *ssa.Extract:
		if c, ok := x.Tuple.(*ssa.Call); ok {
			return calleeName(c) + "()"
		}
	case *ssa.Call:
		return calleeName(x) + "()"
	}
	return "value"
}

func (a *Analysis) checkGate(gs gateSpec, res *GateResult) *GateInfo {
	r := a.R
	gi := &GateInfo{Res: res, Spec: gs.spec, Subject: gs.what}
	fk := fnKey(gs.fn)
	pos := a.P.Pos(gs.fn.Pos())
	specSet := ZOf(gs.spec...)
	sent := a.sentinel(gs.sentinel)
	if len(res.Subjects) == 0 {
		r.Unk(gs.rule, fk+"/subject", pos, "", "%s is never computed in %s: no size gate found", gs.what, fk)
		return gi
	}
	var success, reject, late ZSet
	nReject := 0
	for _, gx := range a.gateExits(gs, res) {
		ret, b, errv, strv := gx.ret, gx.blk, gx.errv, gx.strv
		rp := a.P.InstrPos(ret)
		reach, reached := gx.reach, gx.reached
		isNil := isNilConst(errv)
		key := fmt.Sprintf("%s/exit@block%s", fk, gx.label)
		if res.Pre[b] && len(gs.emptyIn) > 0 && a.underEmptyInput(b, gs.emptyIn) {
			reach, reached = ZOf(gs.emptyN), true
			r.OK(gs.rule, key+"/empty-input", rp, "", "taken only when the input is the empty string, i.e. with %s = %d", gs.what, gs.emptyN)
		} else if res.Pre[b] {
			r.Bad(gs.rule, key, rp, "", "%s can return before %s is examined", fk, gs.what)
			continue
		}
		if !reached || reach.Empty() {
			continue // unreachable for every subject value
		}
		inSpec := reach.IntersectFinite(gs.spec)
		outSpec := reach.MinusFinite(gs.spec)
		matchesSent, desc := a.matches(errv, sent)
		if !isNil && !inSpec.Empty() && (matchesSent || !gs.allowLateFail) && gs.kind != "" {
			// a failure exit that BIP39 sizes seem to reach.  The gate analysis follows only the
			// conditions on the size; the exit may sit behind another condition that never holds
			// (a defensive re-check).  Ask the evaluator, size by size and language class by
			// language class, whether any path reaches it.
			var keep []int64
			vs, _ := inSpec.Enumerate(64)
			for _, v := range vs {
				if a.exitFeasible(gs, v, ret) {
					keep = append(keep, v)
				}
			}
			if len(keep) < len(vs) {
				r.OK(gs.rule, key+"/unreachable", rp, "", "this exit is behind a condition that never holds for %s ∈ %v (evaluated in every language class): not an exit for those sizes", gs.what, inSpec.MinusFinite(keep))
				reach = outSpec.Union(ZOf(keep...))
				inSpec = ZOf(keep...)
				if reach.Empty() {
					continue
				}
			}
		}
		// `return otherEntryPoint(...)`: the outcome is the callee's; for the set computation the
		// exit counts as a success exit (the callee's own gate and the size-coherence rules G4
		// decide whether it really succeeds for the sizes that reach it)
		delegated := false
		if ex, ok := errv.(*ssa.Extract); ok {
			if c, ok := ex.Tuple.(*ssa.Call); ok {
				if callee := c.Call.StaticCallee(); callee != nil && callee.Pkg != nil && a.P.InModule(callee.Pkg) && callee != gs.fn {
					if ex0, ok := strv.(*ssa.Extract); !gs.strResult || ok && ex0.Tuple == ex.Tuple {
						delegated = true
					}
				}
			}
		}
		if c, ok := errv.(*ssa.Call); ok && !gs.strResult {
			// `return helper(…)` with a single error result: the outcome is the helper's
			if callee := c.Call.StaticCallee(); callee != nil && callee.Pkg != nil && a.P.InModule(callee.Pkg) && callee != gs.fn && len(callee.Blocks) > 0 {
				delegated = true
			}
		}
		switch {
		case isNil || delegated && !matchesSent:
			success = success.Union(reach)
			if !outSpec.Empty() {
				r.Bad(gs.rule, key, rp, "", "success exit of %s is reachable with %s ∈ %v, outside the BIP39 set %v (e.g. %v)", fk, gs.what, outSpec, specSet, outSpec.Sample(4))
			} else {
				r.OK(gs.rule, key, rp, "", "success exit reached only with %s ∈ %v", gs.what, reach)
			}
		case matchesSent || inSpec.Empty():
			// a size-reject exit (it returns the size sentinel, or only rejected sizes reach it)
			nReject++
			reject = reject.Union(reach)
			if !inSpec.Empty() {
				r.Bad(gs.rule, key, rp, "", "%s rejects accepted %s ∈ %v with %s", fk, gs.what, inSpec, desc)
			} else {
				r.OK(gs.rule, key, rp, "", "size-reject exit, reached only with %s outside %v", gs.what, specSet)
			}
			if !matchesSent {
				r.Bad(gs.rule+"e", key+"/error", rp, "", "rejected %s returns %s, which does not match %s", gs.what, desc, gs.sentinel)
			} else {
				r.OK(gs.rule+"e", key+"/error", rp, "", "rejected %s returns %s", gs.what, desc)
			}
			if gs.strResult {
				if s, isC := strConst(strv); !isC || s != "" {
					r.Bad(gs.rule+"e", key+"/empty", rp, "", "rejected %s does not return the empty string", gs.what)
				} else {
					r.OK(gs.rule+"e", key+"/empty", rp, "", "returns \"\"")
				}
			}
		default:
			// a failure exit that accepted sizes can reach (read failure, unknown token, wrong checksum)
			late = late.Union(reach)
			if !gs.allowLateFail {
				r.Bad(gs.rule, key, rp, "", "%s fails with %v for accepted %s ∈ %v: it must succeed for every BIP39 size", fk, desc, gs.what, inSpec)
			} else if !outSpec.Empty() {
				r.Bad(gs.rule, key, rp, "", "this exit past the size gate is reachable with %s ∈ %v, outside the BIP39 set %v", gs.what, outSpec, specSet)
			} else {
				r.OK(gs.rule, key, rp, "", "failure exit past the gate (reached only with %s ∈ %v)", gs.what, reach)
			}
		}
	}
	// accept set
	for _, v := range gs.spec {
		switch {
		case reject.Contains(v):
			r.Bad(gs.rule+"a", fmt.Sprintf("%s/accept/%d", fk, v), pos, "", "BIP39 size %s=%d is rejected", gs.what, v)
		case !success.Contains(v):
			r.Bad(gs.rule+"a", fmt.Sprintf("%s/accept/%d", fk, v), pos, "", "BIP39 size %s=%d never reaches a success exit", gs.what, v)
		default:
			gi.Accept = append(gi.Accept, v)
			r.OK(gs.rule+"a", fmt.Sprintf("%s/accept/%d", fk, v), pos, "", "%s=%d reaches only success%s exits", gs.what, v, map[bool]string{true: "/late-failure", false: ""}[gs.allowLateFail])
		}
	}
	gi.Extra = success.Union(late).MinusFinite(gs.spec)
	if nReject == 0 {
		r.Bad(gs.rule, fk+"/reject-exit", pos, "", "%s has no exit that rejects %s", fk, gs.what)
	}
	if len(res.Opaque) > 0 {
		for _, in := range res.Opaque {
			r.Add(gs.rule, fk+"/opaque-condition", a.P.InstrPos(in), "", Discharged, "a branch on %s that is not a comparison with a constant refines nothing (over-approximation)", gs.what)
		}
	}
	for tg := range res.Relied {
		okT := true
		for _, w := range a.Ef.Writes[tg] {
			if !w.Test && !(w.Synth) {
				okT = false
				r.Bad(gs.rule, fk+"/table/"+tg.Name(), a.P.InstrPos(w.Instr), "", "the size gate reads table %s, which %s modifies (%s)", tg.Name(), fnKey(w.Fn), w.How)
			}
		}
		if len(a.Ef.Escapes[tg]) > 0 {
			okT = false
			r.Unk(gs.rule, fk+"/table/"+tg.Name(), a.P.Pos(tg.Pos()), "", "the size gate reads table %s, which escapes the analysis", tg.Name())
		}
		if okT {
			r.OK(gs.rule, fk+"/table/"+tg.Name(), a.P.Pos(tg.Pos()), "", "gate table %s is written only by its declaration", tg.Name())
		}
	}
	gi.OK = len(gi.Accept) == len(gs.spec) && gi.Extra.Empty()
	r.Check(gi.OK, gs.rule, fk+"/accept-set", pos, "",
		fmt.Sprintf("accept set of %s is exactly %v (%d refining conditions)", gs.what, specSet, res.Atoms),
		fmt.Sprintf("accept set of %s is %v ∪ %v, not %v", gs.what, ZOf(gi.Accept...), gi.Extra, specSet))
	return gi
}

// tailCallee: fn passes v as an argument to exactly one module function g, and every return of
// fn that follows gives back exactly g's results.  Returns g and the parameter that receives v.
func (a *Analysis) tailCallee(fn *ssa.Function, v ssa.Value) (*ssa.Function, *ssa.Parameter) {
	var call *ssa.Call
	var param *ssa.Parameter
	for _, c := range callsIn(fn) {
		cc, ok := c.(*ssa.Call)
		if !ok {
			continue
		}
		g := cc.Call.StaticCallee()
		if g == nil || !a.isModuleFunc(g) || len(g.Blocks) == 0 || g.Parent() != nil || len(g.Params) != len(cc.Call.Args) {
			continue
		}
		for i, arg := range cc.Call.Args {
			if arg == v {
				if call != nil {
					return nil, nil
				}
				call, param = cc, g.Params[i]
			}
		}
	}
	if call == nil {
		return nil, nil
	}
	g := call.Call.StaticCallee()
	nres := g.Signature.Results().Len()
	n := 0
	for _, ret := range returnsOf(fn) {
		if !(call.Block() == ret.Block() || call.Block().Dominates(ret.Block())) {
			continue // an exit before the call (none may follow it without passing it: checked by domination)
		}
		n++
		if len(ret.Results) != nres {
			return nil, nil
		}
		for i := range ret.Results {
			r := returnedValue(ret, i)
			if nres == 1 && r == ssa.Value(call) {
				continue
			}
			if ex, ok := r.(*ssa.Extract); ok && ex.Tuple == ssa.Value(call) && ex.Index == i {
				continue
			}
			return nil, nil
		}
	}
	if n == 0 {
		return nil, nil
	}
	return g, param
}

// exitFeasible: some evaluation of the gate's function with the subject fixed to v reaches ret.
func (a *Analysis) exitFeasible(gs gateSpec, v int64, ret *ssa.Return) bool {
	for _, lc := range a.langCtxs() {
		v := v
		entry := gs.fn
		if gs.entry != nil {
			entry = gs.entry
		}
		e := a.eval(entry, a.sizeCtx(gs.kind, &v, nil, lc))
		for _, x := range e.Exits {
			if x.Ret == ret {
				return true
			}
		}
		for _, ev := range e.Events {
			if ev.Status == Undecided && ev.Rule == "P5" {
				return true // a loop that was not summarised: the evaluation says nothing about reachability
			}
		}
	}
	return false
}

func exitLabel(ret *ssa.Return) string {
	// label an exit by what it returns, not by where it is
	var parts []string
	for i := range ret.Results {
		v := returnedValue(ret, i)
		switch x := v.(type) {
		case *ssa.Const:
			if x.Value == nil {
				parts = append(parts, "nil")
			} else {
				parts = append(parts, x.Value.String())
			}
		case *ssa.UnOp:
			if g := loadedGlobal(x); g != nil {
				parts = append(parts, g.Name())
			} else {
				parts = append(parts, x.Name())
			}
		case *ssa.Call:
			parts = append(parts, calleeShort(x))
		default:
			parts = append(parts, fmt.Sprintf("%T", v))
		}
	}
	// disambiguate equal labels by ordinal among the function's returns
	lab := strings.Join(parts, ",")
	n := 0
	for _, r := range returnsOf(ret.Parent()) {
		if r == ret {
			break
		}
		n++
	}
	return fmt.Sprintf("[%s]#%d", lab, n)
}

func calleeShort(c *ssa.Call) string {
	s := calleeName(c)
	if i := strings.LastIndex(s, "/"); i >= 0 {
		s = s[i+1:]
	}
	return s + "()"
}

var _ = token.ADD

// gateTables resolves a package-level constant integer table (array/slice literal or map literal).
func (a *Analysis) gateTables(gl *ssa.Global) *gtable {
	if gl == nil || gl.Pkg == nil || !a.P.InModule(gl.Pkg) {
		return nil
	}
	toInts := func(elems []AV) ([]int64, bool) {
		out := make([]int64, len(elems))
		for i, el := range elems {
			iv, ok := el.(IntV)
			if !ok {
				if el == nil {
					continue // unset element of a keyed array literal: zero
				}
				return nil, false
			}
			c, ok := iv.Const()
			if !ok {
				return nil, false
			}
			out[i] = c
		}
		return out, true
	}
	if v := a.G.Vecs[gl]; v != nil {
		if d, ok := toInts(v.Elems); ok {
			return &gtable{name: gl.Name(), dense: d}
		}
	}
	if v, ok := a.G.Init[gl].(VecV); ok {
		if d, ok := toInts(v.Elems); ok {
			return &gtable{name: gl.Name(), dense: d}
		}
	}
	if cm, ok := a.G.Init[gl].(CMapV); ok {
		if mc, ok := a.G.Objs[cm.O].(MapC); ok && mc.Top == "" {
			t := &gtable{name: gl.Name(), keyed: map[int64]int64{}}
			for i, k := range mc.Keys {
				if !strings.HasPrefix(k, "i:") {
					return nil
				}
				var kv int64
				if _, err := fmt.Sscanf(k[2:], "%d", &kv); err != nil {
					return nil
				}
				iv, ok := mc.Vals[i].(IntV)
				if !ok {
					return nil
				}
				c, ok := iv.Const()
				if !ok {
					return nil
				}
				t.keyed[kv] = c
			}
			return t
		}
	}
	return nil
}

func (a *Analysis) isModuleFunc(f *ssa.Function) bool {
	return f != nil && f.Pkg != nil && a.P.InModule(f.Pkg)
}
