package an

import (
	"fmt"
	"go/token"
	"go/types"
	"sort"

	"golang.org/x/tools/go/ssa"
)

// evalLoop summarises one natural loop: the body is visited once per pass with the
// iteration number t symbolic; loop-carried big integers get a symbol X for "content at
// the head of iteration t", their recurrence is recognised at the back edge, and the
// closed form is substituted into what the body recorded.  No unrolling.
func (e *Eval) evalLoop(fr *frame, h *ssa.BasicBlock, body map[*ssa.BasicBlock]bool, entry State, done map[*ssa.BasicBlock]bool) (clean bool) {
	for b := range body {
		done[b] = true
	}
	info := LoopInfo{Fn: fr.fn, Header: h, T: -1}
	lp := &loopCtx{header: h, blocks: body, T: -1}

	// ---- header φs: induction variables and invariants
	type ivT struct {
		phi *ssa.Phi
		lin Lin
	}
	var ivs []ivT
	topPhi := false
	phiVal := map[*ssa.Phi]AV{}
	for _, in := range h.Instrs {
		phi, ok := in.(*ssa.Phi)
		if !ok {
			break
		}
		var outside AV
		var inside []ssa.Value
		for i, p := range h.Preds {
			if body[p] {
				inside = append(inside, phi.Edges[i])
				continue
			}
			if !fr.edgeOK[[2]*ssa.BasicBlock{p, h}] {
				continue
			}
			outside = joinAV(outside, e.val(fr, phi.Edges[i]))
		}
		if outside == nil {
			outside = TopV{"no feasible entry"}
		}
		same := true
		for _, v := range inside {
			if v != inside[0] {
				same = false
			}
		}
		isIV := false
		if same && len(inside) > 0 {
			if step, ok := stepOf(inside[0], phi); ok {
				if init, ok := outside.(IntV); ok {
					if c, ok := init.Const(); ok {
						ivs = append(ivs, ivT{phi, Lin{c, step}})
						phiVal[phi] = LinInt(Lin{c, step})
						isIV = true
					}
				}
			}
		}
		if !isIV {
			inv := true
			for _, v := range inside {
				if v != ssa.Value(phi) {
					inv = false
				}
			}
			if inv {
				phiVal[phi] = outside
			} else {
				phiVal[phi] = e.topOf(phi.Type(), "loop-carried value without recognised recurrence")
				topPhi = true
			}
		}
	}
	if len(ivs) > 0 {
		info.IV = fmt.Sprintf("%s = %v", ivs[0].phi.Name(), ivs[0].lin)
	}

	// ---- passes: find the set of pre-existing objects the body mutates
	// (start from "nothing is modified" and grow the set until a pass modifies nothing else:
	// the least fixed point.  Starting from "everything is modified" can confirm itself — a
	// pointer loaded from a cell assumed modified is unknown, a store through it then really
	// clobbers everything.)
	symSet := map[*Obj]bool{}
	evMark, callMark, exitMark, noteMark, loopMark := len(e.Events), len(e.Calls), len(e.Exits), len(e.Notes), len(e.Loops)
	var backSt State
	var haveBack bool
	var headerOut State
	exitEdges := map[[2]*ssa.BasicBlock]bool{}
	order := []*ssa.BasicBlock{}
	for _, b := range rpo(fr.fn) {
		if body[b] && b != h {
			order = append(order, b)
		}
	}
	savedRets := len(fr.rets)
	passes := 0
	lastSolved := false
	for {
		passes++
		e.Events, e.Calls, e.Exits, e.Notes, e.Loops = e.Events[:evMark], e.Calls[:callMark], e.Exits[:exitMark], e.Notes[:noteMark], e.Loops[:loopMark]
		fr.rets = fr.rets[:savedRets]
		lp.sym = symSet
		lp.x0 = map[*Obj]Content{}
		lp.mutated = map[*Obj]bool{}
		st := entry.clone()
		for o := range symSet {
			lp.x0[o] = entry[o]
			switch o.Kind {
			case okBig:
				st[o] = BigLayout(Layout{{W: K(INF), Sym: xName(o)}})
			case okArr:
				// stores are recorded; content otherwise kept
			case okSB:
				st[o] = SBC{Parts: []SBPart{{X: xName(o)}}}
			case okBuf:
				st[o] = topContent(o, "modified inside a loop")
				if bc, ok := entry[o].(BufC); ok && bc.B.Src == "zero" {
					// unknown inside the loop, but remembered to have been all zero before it (the
					// element-wise copy idiom is recognised from that)
					st[o] = BufC{BytesV{LenKnown: bc.B.LenKnown, Len: bc.B.Len, LenSym: bc.B.LenSym, Src: "⊤: loop head (was zero)"}}
				}
			default:
				st[o] = topContent(o, "modified inside a loop")
			}
		}
		// clear edges inside the loop
		for k := range fr.edge {
			if body[k[0]] {
				delete(fr.edge, k)
				delete(fr.edgeOK, k)
			}
		}
		for k := range exitEdges {
			delete(exitEdges, k)
		}
		fr.loop = lp
		e.activeLoops = append(e.activeLoops, lp)
		e.loopHeaders = append(e.loopHeaders, h)
		for phi, v := range phiVal {
			fr.env[phi] = v
		}
		// header, symbolic t
		lp.T = -1
		rotated := len(body) == 1 && body[h]
		var probe State
		ev0, ca0, no0 := len(e.Events), len(e.Calls), len(e.Notes)
		if rotated {
			probe = st.clone()
		}
		e.evalHeader(fr, h, st, lp)
		headerOut = st.clone()
		T, contSucc, exitSucc, solved := e.tripCount(fr, h, body, lp)
		if rotated && solved && T >= 0 {
			// a one-block loop with its test at the bottom (`for i := range n`): the block runs
			// once more than the test succeeds.  It was evaluated above only to find that count;
			// now it is evaluated for real, with the count known.
			T++
			e.Events, e.Calls, e.Notes = e.Events[:ev0], e.Calls[:ca0], e.Notes[:no0]
			lp.T = T
			for k := range st {
				delete(st, k)
			}
			for k, v := range probe {
				st[k] = v
			}
			lp.mutated = map[*Obj]bool{}
			e.evalHeader(fr, h, st, lp)
			headerOut = st.clone()
		}
		lastSolved = solved
		lp.T = T
		info.T = T
		if !solved {
			e.event("P5", Undecided, h.Instrs[len(h.Instrs)-1], "loop in %s: trip count not determined (exit test is not an induction variable against a loop-invariant bound)", fr.fn.Name())
		}
		if contSucc != nil && T != 0 {
			e.setEdgeRaw(fr, h, contSucc, st)
		}
		haveBack = false
		backSt = nil
		if T != 0 {
			for _, b := range order {
				in, ok := e.joinPreds(fr, b, body)
				if !ok {
					continue
				}
				e.evalBlock(fr, b, in)
			}
			for _, p := range h.Preds {
				if !body[p] {
					continue
				}
				k := [2]*ssa.BasicBlock{p, h}
				if !fr.edgeOK[k] {
					continue
				}
				if !haveBack {
					backSt, haveBack = fr.edge[k].clone(), true
				} else {
					backSt = joinStates(backSt, fr.edge[k])
				}
			}
		}
		e.activeLoops = e.activeLoops[:len(e.activeLoops)-1]
		e.loopHeaders = e.loopHeaders[:len(e.loopHeaders)-1]
		fr.loop = nil
		// which symbolic objects were really mutated?
		next := map[*Obj]bool{}
		for o := range lp.mutated {
			if _, pre := entry[o]; pre {
				next[o] = true
			}
		}
		stable := true
		for o := range next {
			if !symSet[o] {
				stable = false
			}
		}
		for o := range symSet {
			next[o] = true // the set only grows
		}
		if stable || passes >= 5 {
			if !stable {
				for o := range entry {
					next[o] = true
				}
				e.event("P5", Undecided, h.Instrs[0], "loop in %s: set of modified objects did not stabilise", fr.fn.Name())
			}
			_ = exitSucc
			break
		}
		symSet = next
	}
	info.Passes = passes

	// ---- recurrences at the back edge, closed forms
	lp.closed = map[string]closedForm{}
	exitSt := headerOut.clone() // contents for objects not carried
	type r2 struct {
		o    *Obj
		term Layout
		kind string
		c    int64
	}
	var pend []r2
	objs := make([]*Obj, 0, len(symSet))
	for o := range symSet {
		objs = append(objs, o)
	}
	sort.Slice(objs, func(i, j int) bool { return objs[i].ID < objs[j].ID })
	T := lp.T
	for _, o := range objs {
		x0 := lp.x0[o]
		if T == 0 || !haveBack {
			exitSt[o] = x0
			continue
		}
		switch o.Kind {
		case okBig:
			name := xName(o)
			x0b, _ := x0.(BigC)
			bc, _ := backSt[o].(BigC)
			rec := "⊤"
			switch bc.Kind {
			case bkLayout:
				l := bc.L.Norm()
				switch {
				case len(l) == 1 && l[0].Sym == name && l[0].W.A >= INF && l[0].Lo.Const() && l[0].Lo.A == 0:
					rec = "unchanged"
					lp.closed[name] = closedForm{kind: "same"}
					exitSt[o] = x0
				case len(l) == 1 && l[0].Sym == name && l[0].W.A >= INF && l[0].Lo.Const() && l[0].Lo.A > 0:
					c := l[0].Lo.A
					rec = fmt.Sprintf("R1: X' = X >> %d", c)
					if x0l, ok := x0b.asLayout(); ok {
						lp.closed[name] = closedForm{kind: "R1", x0: x0l, c: c}
						if T > 0 {
							if sh, ok := x0l.Shr(c * T); ok {
								exitSt[o] = BigLayout(sh)
							} else {
								exitSt[o] = BigTop("R1 closed form")
							}
						} else {
							exitSt[o] = BigTop("R1 with unknown trip count")
						}
					} else {
						exitSt[o] = BigTop("R1 over unknown initial content")
					}
				case !l.Mentions(name):
					rec = "R0: recomputed every iteration"
					exitSt[o] = BigTop("scratch value of the last iteration")
				case len(l) >= 2 && l[len(l)-1].Sym == name && l[len(l)-1].W.A >= INF && l[len(l)-1].Lo == (Lin{}) && !l[:len(l)-1].Mentions(name):
					// R3: X' = (X << c) + s_t
					low := l[:len(l)-1]
					if c, ok := Layout(low).Width(); ok {
						// Width() trims zero padding at the top of `low`; the shift is the declared width:
						c = 0
						okc := true
						for _, f := range low {
							if !f.W.Const() {
								okc = false
							}
							c += f.W.A
						}
						if okc {
							rec = fmt.Sprintf("R3: X' = (X << %d) + s_t", c)
							pend = append(pend, r2{o: o, term: Layout(low), kind: "R3", c: c})
							break
						}
					}
					exitSt[o] = BigTop("R3 shape not constant")
				default:
					exitSt[o] = BigTop("loop-carried big integer without recognised recurrence: " + l.String())
				}
			case bkSum:
				b := bc.Base.Norm()
				if len(b) == 1 && b[0].Sym == name && b[0].W.A >= INF && b[0].Lo == (Lin{}) && !bc.Term.Mentions(name) {
					rec = "R2: X' = X + term(t)"
					pend = append(pend, r2{o: o, term: bc.Term, kind: "R2"})
				} else {
					exitSt[o] = BigTop("sum without recognised recurrence")
				}
			default:
				exitSt[o] = BigTop("loop-carried: " + bc.Why)
			}
			info.Recs = append(info.Recs, fmt.Sprintf("obj%d: %s", o.ID, rec))
		case okArr:
			// handled below (needs the closed forms)
		case okSB:
			// handled below (needs the closed forms)
		case okBuf:
			exitSt[o] = topContent(o, "modified inside a loop")
			// buf[i] = s[i] for i = 0 … len(s)-1 with len(buf) == len(s): buf holds the bytes of s
			if bc, ok := backSt[o].(BufC); ok && bc.B.CopyOf != nil && lp.lenOf != "" && lp.lenOfFirst == bc.B.CopyOf.Idx.L.A && bc.B.CopyOf.Idx.L.B == 1 &&
				bc.B.CopyOf.Idx.L.A == 0 && bc.B.LenSym == lp.lenOf && "str:"+bc.B.CopyOf.S.String() == lp.lenOf && !breakLikeLoop(fr, h, body) {
				exitSt[o] = BufC{BytesV{Src: "conv", Str: bc.B.CopyOf.S, LenSym: bc.B.LenSym}}
			}
		default:
			exitSt[o] = topContent(o, "modified inside a loop")
		}
	}
	// R2 / R3 closed forms: need T and X0 = 0
	for _, p := range pend {
		x0b, _ := lp.x0[p.o].(BigC)
		x0l, ok := x0b.asLayout()
		if !ok || len(x0l.Norm()) != 0 || T <= 0 || T > 4096 {
			exitSt[p.o] = BigTop(p.kind + " needs a zero initial value and a known trip count")
			continue
		}
		if termMentionsX(p.term) {
			exitSt[p.o] = BigTop(p.kind + " term depends on another loop-carried value")
			continue
		}
		type piece struct {
			off int64
			l   Layout
			w   int64
		}
		var ps []piece
		good := true
		for t := int64(0); t < T && good; t++ { // one obligation per term of the closed form
			l := p.term.AtT(t)
			switch p.kind {
			case "R2":
				var off int64
				if len(l) > 0 && l[0].Sym == "" {
					off = l[0].W.A
					l = l[1:]
				}
				l = Layout(l).Norm()
				w, ok := Layout(l).DeclWidth()
				if !ok || off < 0 {
					good = false
					break
				}
				ps = append(ps, piece{off, l, w})
			case "R3":
				// X_T = s_{T-1} | s_{T-2} << c | ... : term of iteration t sits at offset c·(T-1-t)
				l = Layout(l).Norm()
				if dw, ok := Layout(l).DeclWidth(); !ok || dw > p.c {
					good = false
					break
				}
				ps = append(ps, piece{p.c * (T - 1 - t), l, p.c})
			}
		}
		if !good {
			exitSt[p.o] = BigTop(p.kind + " term shape")
			continue
		}
		sort.Slice(ps, func(i, j int) bool { return ps[i].off < ps[j].off })
		var out Layout
		pos := int64(0)
		for _, q := range ps {
			if q.off < pos {
				good = false
				break
			}
			if q.off > pos {
				out = append(out, Field{W: K(q.off - pos)})
			}
			out = append(out, q.l...)
			if lw, _ := q.l.DeclWidth(); lw < q.w {
				out = append(out, Field{W: K(q.w - lw)})
			}
			pos = q.off + q.w
		}
		if !good {
			exitSt[p.o] = BigTop(p.kind + " terms overlap")
			continue
		}
		exitSt[p.o] = BigLayout(out)
	}
	// arrays: materialise the recorded stores
	for _, o := range objs {
		if o.Kind != okArr {
			continue
		}
		var ac *ArrC
		if haveBack {
			ac, _ = backSt[o].(*ArrC)
		}
		if ac == nil || T == 0 {
			exitSt[o] = lp.x0[o]
			continue
		}
		lp.refs = e.refs
		// words[i] = tokens[i] for i = 0 … len(tokens)-1 with len(words) == len(tokens): an
		// element-wise copy of the token slice
		if T < 0 && lp.lenOf != "" && lp.lenOfFirst == 0 && ac.N.LenOf == lp.lenOf && len(ac.Stores) == 1 && ac.Top == "" && len(ac.Elems) == 0 && !breakLikeLoop(fr, h, body) {
			st0 := ac.Stores[0]
			if v, ok := st0.Val.(StrV); ok && v.Kind == skTok && v.Toks != nil && !st0.Cond &&
				st0.Idx.Kind == ikLin && st0.Idx.L == (Lin{0, 1}) && v.Idx.Kind == ikLin && v.Idx.L == st0.Idx.L &&
				fmt.Sprintf("tokens@%p", v.Toks) == lp.lenOf && everyIteration(st0.Site.Block(), lp) {
				exitSt[o] = &ArrC{N: ac.N, Alias: v.Toks, id: ac.id}
				continue
			}
		}
		exitSt[o] = e.materialise(ac, lp)
	}
	// builders: X' = X ++ parts(t)  ⇒  X_T = X_0 ++ parts(0) ++ … ++ parts(T-1)
	for _, o := range objs {
		if o.Kind != okSB {
			continue
		}
		x0, _ := lp.x0[o].(SBC)
		if !haveBack || T == 0 {
			exitSt[o] = x0
			continue
		}
		bc, _ := backSt[o].(SBC)
		if bc.Top != "" || x0.Top != "" || len(bc.Parts) == 0 || bc.Parts[0].X != xName(o) || T < 0 || T > 4096 {
			exitSt[o] = SBC{Top: "builder written in a loop without a recognised recurrence"}
			continue
		}
		lp.refs = e.refs
		out := SBC{Parts: append([]SBPart{}, x0.Parts...)}
		good := true
		for t := int64(0); t < T && good; t++ { // one obligation per appended piece
			for _, p := range bc.Parts[1:] {
				if p.X != "" {
					good = false
					break
				}
				if p.Cond != nil {
					holds, ok := condAt(*p.Cond, t)
					if !ok {
						good = false
						break
					}
					if holds != p.Pol {
						continue
					}
				}
				out.Parts = append(out.Parts, SBPart{V: lp.resolveAV(p.V, t)})
			}
		}
		if !good {
			exitSt[o] = SBC{Top: "builder parts written under a condition that cannot be resolved per iteration"}
			continue
		}
		exitSt[o] = out
	}
	// word lookups inside the loop: did every path to the back edge pass the hit edge?
	if haveBack {
		for site, o := range e.lkObj {
			if site.Block() == nil || !(body[site.Block()] || e.lkLoopHdr[site] == h) {
				continue
			}
			if e.LoopHits == nil {
				e.LoopHits = map[ssa.Instruction]bool{}
			}
			hit := false
			if c, ok := backSt[o].(CellC); ok {
				if b, ok := c.V.(BoolV); ok && b.Known && b.Val {
					hit = true
				}
			}
			e.LoopHits[site] = hit
		}
	}
	// objects created inside the loop do not survive it
	for o := range exitSt {
		if _, pre := entry[o]; !pre {
			delete(exitSt, o)
		}
	}
	e.Loops = append(e.Loops, info)

	// ---- blocks reached only by leaving the loop from inside its body (e.g. `return` on a
	// failed lookup) run in iteration context: evaluate them now, while the values defined in
	// the header still stand for iteration t.
	cand := map[*ssa.BasicBlock]bool{}
	var grow func(b *ssa.BasicBlock)
	grow = func(b *ssa.BasicBlock) {
		if cand[b] || body[b] {
			return
		}
		cand[b] = true
		for _, s := range b.Succs {
			grow(s)
		}
	}
	for k := range fr.edgeOK {
		if body[k[0]] && k[0] != h && !body[k[1]] {
			grow(k[1])
		}
	}
	for changed := true; changed; {
		changed = false
		for b := range cand {
			for _, p := range b.Preds {
				if !(cand[p] || (body[p] && p != h)) {
					delete(cand, b)
					changed = true
					break
				}
			}
		}
	}
	breakLike := false
	for k := range fr.edgeOK {
		if body[k[0]] && k[0] != h && !body[k[1]] && !cand[k[1]] {
			breakLike = true
		}
	}
	if len(cand) > 0 {
		e.activeLoops = append(e.activeLoops, lp)
		for _, b := range rpo(fr.fn) {
			if !cand[b] || done[b] {
				continue
			}
			in, ok := e.joinPreds(fr, b, nil)
			done[b] = true
			if !ok {
				continue
			}
			fr.blockLp[b] = lp
			e.evalBlockIn(fr, b, in)
		}
		e.activeLoops = e.activeLoops[:len(e.activeLoops)-1]
	}

	// ---- header at t = T for the code after the loop
	if breakLike {
		// the loop can also be left from inside its body into code shared with the normal exit:
		// nothing defined in the header has a single value there
		if lastSolved {
			// the header test alone bounds the number of iterations; leaving early only shortens
			// the run.  What the loop computed is unknown afterwards (below), termination is not.
			e.event("", Discharged, h.Instrs[0], "loop in %s can also be left from inside its body (break): its results are not summarised", fr.fn.Name())
		} else {
			e.event("P5", Undecided, h.Instrs[0], "loop in %s is left from inside its body into the code after it (break): not summarised", fr.fn.Name())
		}
		for _, in := range h.Instrs {
			if v, ok := in.(ssa.Value); ok {
				fr.env[v] = e.topOf(v.Type(), "after a loop with break")
			}
		}
		for o := range exitSt {
			exitSt[o] = topContent(o, "loop with break")
		}
	} else if T >= 0 {
		for _, iv := range ivs {
			if len(body) == 1 && body[h] && T > 0 {
				// one-block loop: the values that stand after it are those of its last run
				fr.env[iv.phi] = CInt(iv.lin.At(T - 1))
			} else {
				fr.env[iv.phi] = CInt(iv.lin.At(T))
			}
		}
		save := len(e.Events)
		e.evalHeader(fr, h, exitSt.clone(), lp)
		e.Events = e.Events[:save]
	} else {
		for _, iv := range ivs {
			fr.env[iv.phi] = TopInt("loop counter after a loop with unknown trip count")
		}
		for _, in := range h.Instrs {
			if v, ok := in.(ssa.Value); ok {
				if _, isPhi := in.(*ssa.Phi); !isPhi {
					fr.env[v] = e.topOf(v.Type(), "after loop")
				}
			}
		}
	}
	// normal exit edge(s) of the header
	if T > 0 && !haveBack {
		// the body runs at least once and never comes back to the header: the loop is only
		// ever left from inside its body, the normal exit is infeasible in this context
	} else if ifi, ok := h.Instrs[len(h.Instrs)-1].(*ssa.If); ok {
		_ = ifi
		for _, s := range h.Succs {
			if !body[s] {
				e.setEdgeRaw(fr, h, s, exitSt)
				fr.afterLp[s] = true
			}
		}
	} else {
		// loop without a test in the header: it can only be left from inside the body
		e.event("P5", Undecided, h.Instrs[len(h.Instrs)-1], "loop in %s has no exit test in its header", fr.fn.Name())
	}
	// blocks reached from inside the body keep their iteration-context edge states (set by evalBlock)

	// did the summary lose something an iteration-by-iteration evaluation could keep?
	clean = !topPhi && !breakLike && lastSolved && !lp.imprecise
	if clean && T != 0 && haveBack {
		for _, o := range objs {
			switch c := exitSt[o].(type) {
			case BigC:
				if c.Kind != bkLayout && c.Kind != bkConst && c.Why != "scratch value of the last iteration" {
					clean = false
				}
			case *ArrC:
				if c.Top != "" {
					clean = false
				}
			case SBC:
				if c.Top != "" {
					clean = false
				}
			case BufC:
				if c.B.Str == nil && !c.B.HasVal {
					clean = false
				}
			default:
				clean = false // cells, vectors, maps, hashes written in the loop are not summarised
			}
		}
	}
	if T > maxUnroll {
		clean = true // too long to evaluate one by one anyway
	}
	return clean
}

// breakLikeLoop: some edge leaves the loop from a block other than its header.
func breakLikeLoop(fr *frame, h *ssa.BasicBlock, body map[*ssa.BasicBlock]bool) bool {
	for b := range body {
		if b == h {
			continue
		}
		for _, s := range b.Succs {
			if !body[s] {
				return true
			}
		}
	}
	return false
}

func xName(o *Obj) string { return fmt.Sprintf("X%d", o.ID) }

func termMentionsX(l Layout) bool {
	for _, f := range l {
		if len(f.Sym) > 1 && f.Sym[0] == 'X' && f.Sym[1] >= '0' && f.Sym[1] <= '9' {
			return true
		}
	}
	return false
}

func (e *Eval) setEdgeRaw(fr *frame, from, to *ssa.BasicBlock, st State) {
	k := [2]*ssa.BasicBlock{from, to}
	fr.edge[k] = st.clone()
	fr.edgeOK[k] = true
}

// evalHeader evaluates the non-φ, non-terminator instructions of the header.
func (e *Eval) evalHeader(fr *frame, h *ssa.BasicBlock, st State, lp *loopCtx) {
	for _, in := range h.Instrs {
		switch in.(type) {
		case *ssa.Phi, *ssa.If, *ssa.Jump, *ssa.Return:
			continue
		}
		e.Instrs++
		e.instr(fr, in, st)
	}
}

// stepOf recognises next = phi ± c.
func stepOf(next ssa.Value, phi *ssa.Phi) (int64, bool) {
	b, ok := next.(*ssa.BinOp)
	if !ok {
		return 0, false
	}
	if b.X == ssa.Value(phi) {
		if c, ok := intConst(b.Y); ok {
			switch b.Op {
			case token.ADD:
				return c, true
			case token.SUB:
				return -c, true
			}
		}
	}
	if b.Y == ssa.Value(phi) && b.Op == token.ADD {
		if c, ok := intConst(b.X); ok {
			return c, true
		}
	}
	return 0, false
}

// tripCount solves the header test for the first t at which the loop is left.
func (e *Eval) tripCount(fr *frame, h *ssa.BasicBlock, body map[*ssa.BasicBlock]bool, lp *loopCtx) (T int64, cont, exit *ssa.BasicBlock, solved bool) {
	ifi, ok := h.Instrs[len(h.Instrs)-1].(*ssa.If)
	if !ok || len(h.Succs) != 2 {
		if len(h.Succs) == 1 {
			return -1, h.Succs[0], nil, false
		}
		return -1, nil, nil, false
	}
	contWhen := true
	cont, exit = h.Succs[0], h.Succs[1]
	if !body[cont] || cont == h && false {
		cont, exit = h.Succs[1], h.Succs[0]
		contWhen = false
	}
	if !body[cont] {
		return -1, nil, nil, false
	}
	if body[exit] {
		// both arms of the header's branch stay inside the loop: it is not the loop's exit test
		// (a loop tested at the bottom, such as `for i := range n` with more than one block)
		return -1, nil, nil, false
	}
	neg := false
	cv := ifi.Cond
	for {
		u, ok := cv.(*ssa.UnOp)
		if !ok || u.Op != token.NOT {
			break
		}
		neg = !neg
		cv = u.X
	}
	b, ok := cv.(*ssa.BinOp)
	if !ok {
		return -1, cont, exit, false
	}
	x, okx := e.val(fr, b.X).(IntV)
	y, oky := e.val(fr, b.Y).(IntV)
	op := b.Op
	if neg != !contWhen { // continue while cond == contWhen (after removing negations)
		op = negOp(op)
	}
	if !okx || !oky || x.Kind != ikLin || y.Kind != ikLin {
		// a counter against a bound that is not a constant but does not change while the loop
		// runs: the number of iterations is unknown, but it is finite
		lp.lenOf = ""
		if xv, ok := e.val(fr, b.X).(IntV); ok && op == token.LSS && xv.Kind == ikLin && xv.L.B == 1 {
			// the tested counter takes the values A, A+1, …: with the index used in the body being
			// the counter itself the loop visits every position below the bound
			if yv, ok := e.val(fr, b.Y).(IntV); ok && yv.Kind == ikRange && yv.LenOf != "" && loopInvariant(b.Y, body) {
				lp.lenOf = yv.LenOf
				lp.lenOfFirst = xv.L.A
			}
		}
		if e.countsToInvariant(b.X, b.Y, op, body, fr) || e.countsToInvariant(b.Y, b.X, flipOp(op), body, fr) {
			e.event("P5", Discharged, ifi, "loop in %s: a counter stepping by one towards a bound that is fixed while the loop runs", fr.fn.Name())
			return -1, cont, exit, true
		}
		return -1, cont, exit, false
	}
	d := x.L.Sub(y.L) // continue while d(t) op 0
	var D0, D1 int64
	switch op {
	case token.LSS:
		D0, D1 = d.A, d.B
	case token.LEQ:
		D0, D1 = d.A-1, d.B
	case token.GTR:
		D0, D1 = -d.A, -d.B
	case token.GEQ:
		D0, D1 = -d.A-1, -d.B
	case token.NEQ:
		if d.A == 0 {
			return 0, cont, exit, true
		}
		if d.B != 0 && (-d.A)%d.B == 0 && (-d.A)/d.B > 0 {
			return (-d.A) / d.B, cont, exit, true
		}
		e.event("P5", Violated, ifi, "loop in %s does not reach its exit condition (%v != %v)", fr.fn.Name(), x, y)
		return -1, cont, exit, true
	default:
		return -1, cont, exit, false
	}
	// continue while D0 + D1·t < 0
	if D0 >= 0 {
		return 0, cont, exit, true
	}
	if D1 <= 0 {
		e.event("P5", Violated, ifi, "loop in %s: the counter does not move toward its bound (%v %s %v)", fr.fn.Name(), x, b.Op, y)
		return -1, cont, exit, true
	}
	T = (-D0 + D1 - 1) / D1
	if T > 1<<20 {
		return -1, cont, exit, true
	}
	e.event("P5", Discharged, ifi, "loop in %s: %d iterations", fr.fn.Name(), T)
	return T, cont, exit, true
}

// structurallyCounting decides termination of a loop from its shape alone (no abstract
// values): the header test compares a counter — a header φ whose every in-loop edge is
// φ±c, or that φ±c itself — with a bound that cannot change while the loop runs, the
// counter moves towards the bound, and the step is 1 (or the bound is a constant, so the
// counter cannot wrap around before reaching it).
func structurallyCounting(h *ssa.BasicBlock, body map[*ssa.BasicBlock]bool) bool {
	ifi, ok := h.Instrs[len(h.Instrs)-1].(*ssa.If)
	if !ok || len(h.Succs) != 2 {
		return false
	}
	contWhen := true
	if !body[h.Succs[0]] {
		contWhen = false
		if !body[h.Succs[1]] {
			return false
		}
	}
	neg := false
	cv := ifi.Cond
	for {
		u, ok := cv.(*ssa.UnOp)
		if !ok || u.Op != token.NOT {
			break
		}
		neg = !neg
		cv = u.X
	}
	b, ok := cv.(*ssa.BinOp)
	if !ok {
		return false
	}
	op := b.Op
	if neg != !contWhen {
		op = negOp(op)
	}
	// step of a counter value: the φ itself or φ+c computed in the header
	counter := func(v ssa.Value) (step int64, ok bool) {
		phi, isPhi := v.(*ssa.Phi)
		if !isPhi {
			if bo, isBin := v.(*ssa.BinOp); isBin {
				if p, ok := bo.X.(*ssa.Phi); ok && p.Block() == h {
					if _, isC := intConst(bo.Y); isC && (bo.Op == token.ADD || bo.Op == token.SUB) {
						phi = p
					}
				}
			}
		}
		if phi == nil || phi.Block() != h {
			return 0, false
		}
		var st int64
		n := 0
		for i, p := range h.Preds {
			if !body[p] {
				continue
			}
			c, ok := stepOf(phi.Edges[i], phi)
			if !ok || c == 0 || (n > 0 && c != st) {
				return 0, false
			}
			st = c
			n++
		}
		return st, n > 0
	}
	try := func(iv, bound ssa.Value, op token.Token) bool {
		step, ok := counter(iv)
		if !ok || !loopInvariant(bound, body) {
			return false
		}
		_, constBound := intConst(bound)
		switch op {
		case token.LSS:
			return step == 1 || (step > 0 && constBound)
		case token.LEQ:
			return step > 0 && constBound
		case token.GTR:
			return step == -1 || (step < 0 && constBound)
		case token.GEQ:
			return step < 0 && constBound
		}
		return false
	}
	return try(b.X, b.Y, op) || try(b.Y, b.X, flipOp(op))
}

// countsToInvariant: `iv op bound` is the continue condition, iv moves by exactly one per
// iteration towards bound, and bound cannot change during the loop.
func (e *Eval) countsToInvariant(iv, bound ssa.Value, op token.Token, body map[*ssa.BasicBlock]bool, fr *frame) bool {
	x, ok := e.val(fr, iv).(IntV)
	if !ok || x.Kind != ikLin || x.L.Const() {
		return false
	}
	if !loopInvariant(bound, body) {
		return false
	}
	switch {
	case op == token.LSS && x.L.B == 1: // i < n ⇒ i+1 <= n: no overflow
		return true
	case op == token.GTR && x.L.B == -1:
		return true
	}
	return false
}

// loopInvariant: the SSA value has one value for the whole run of the loop — it is defined
// outside the body, or it is len/cap of such a slice, string or array (whose length cannot change).
func loopInvariant(v ssa.Value, body map[*ssa.BasicBlock]bool) bool {
	switch x := v.(type) {
	case *ssa.Const, *ssa.Parameter, *ssa.FreeVar:
		return true
	case *ssa.Call:
		if bi, ok := x.Call.Value.(*ssa.Builtin); ok && (bi.Name() == "len" || bi.Name() == "cap") && len(x.Call.Args) == 1 {
			switch x.Call.Args[0].Type().Underlying().(type) {
			case *types.Slice, *types.Array:
				return loopInvariant(x.Call.Args[0], body)
			case *types.Basic: // string
				return loopInvariant(x.Call.Args[0], body)
			case *types.Pointer: // pointer to array
				return loopInvariant(x.Call.Args[0], body)
			}
			return false
		}
	}
	if in, ok := v.(ssa.Instruction); ok && in.Block() != nil {
		return !body[in.Block()]
	}
	return false
}

// resolveAt substitutes the closed forms of loop-carried symbols at the head of iteration t.
func (lp *loopCtx) resolveAt(l Layout, t int64) (Layout, bool) {
	cur := l.AtT(t)
	for name, repl := range lp.refs {
		if cur.Mentions(name) {
			var ok bool
			cur, ok = cur.SubstSym(name, false, 0, repl)
			if !ok {
				return nil, false
			}
		}
	}
	for name, cf := range lp.closed {
		if !cur.Mentions(name) {
			continue
		}
		var repl Layout
		switch cf.kind {
		case "R1":
			var ok bool
			repl, ok = cf.x0.Shr(cf.c * t)
			if !ok {
				return nil, false
			}
		default:
			return nil, false
		}
		var ok bool
		cur, ok = cur.SubstSym(name, false, 0, repl)
		if !ok {
			return nil, false
		}
	}
	if termMentionsX(cur) {
		return nil, false
	}
	for _, f := range cur {
		if len(f.Sym) > 1 && f.Sym[0] == 'R' && f.Sym[1] >= '0' && f.Sym[1] <= '9' {
			return nil, false
		}
	}
	return cur.Norm(), true
}

func (lp *loopCtx) resolveAV(v AV, t int64) AV {
	switch x := v.(type) {
	case StrV:
		switch x.Kind {
		case skElem:
			if x.Idx.Kind == ikBits {
				if l, ok := lp.resolveAt(x.Idx.Bits, t); ok {
					x.Idx = BitsInt(l)
					return x
				}
				return TopStr("list element selected by an unresolved loop-carried value")
			}
			if x.Idx.Kind == ikLin {
				x.Idx = CInt(x.Idx.L.At(t))
			}
			return x
		case skTok:
			if x.Idx.Kind == ikLin {
				x.Idx = CInt(x.Idx.L.At(t))
			}
			return x
		case skConst:
			return x
		case skArrElem:
			if x.Idx.Kind == ikLin && x.Arr != nil {
				if i := x.Idx.L.At(t); i >= 0 && i < int64(len(x.Arr.Elems)) && x.Arr.Elems[i] != nil {
					return x.Arr.Elems[i]
				}
			}
			return TopStr("element of a local slice that was not written")
		}
		return TopStr("value stored in loop: " + x.String())
	case IntV:
		if x.Kind == ikLin {
			return CInt(x.L.At(t))
		}
	}
	return v
}

// materialise turns the stores recorded in the loop body into per-position contents.
// It enumerates the T stores (obligations about output positions), not executions.
func (e *Eval) materialise(ac *ArrC, lp *loopCtx) Content {
	n := *ac
	if len(ac.Stores) == 0 {
		return ac
	}
	N, ok := ac.N.Const()
	T := lp.T
	if !ok || N < 0 || N > 4096 || T < 0 {
		n.Top = "array written in a loop with unknown length or trip count"
		n.Stores = nil
		return &n
	}
	if len(ac.Stores) != 1 {
		n.Top = fmt.Sprintf("array written at %d sites inside one loop", len(ac.Stores))
		n.Stores = nil
		return &n
	}
	s := ac.Stores[0]
	if s.Cond {
		n.Top = "array element stored only under a condition inside the loop"
		n.Stores = nil
		return &n
	}
	if s.Idx.Kind != ikLin {
		n.Top = "array index not affine in the loop counter: " + s.Idx.String()
		n.Stores = nil
		return &n
	}
	elems := make([]AV, N)
	copy(elems, ac.Elems)
	written := make([]bool, N)
	for t := int64(0); t < T; t++ {
		p := s.Idx.L.At(t)
		if p < 0 || p >= N {
			n.Top = fmt.Sprintf("store index %v leaves [0,%d)", s.Idx, N)
			n.Stores = nil
			return &n
		}
		if written[p] {
			n.Top = fmt.Sprintf("position %d written twice", p)
			n.Stores = nil
			return &n
		}
		written[p] = true
		elems[p] = lp.resolveAV(s.Val, t)
	}
	n.Elems = elems
	n.Stores = nil
	return &n
}

// condAt evaluates a branch condition that depends only on the loop counter at iteration t.
func condAt(b BoolV, t int64) (bool, bool) {
	if b.Known {
		return b.Val, true
	}
	if b.C == nil || b.C.Kind != "intcmp" {
		return false, false
	}
	x, ok1 := b.C.A.(IntV)
	y, ok2 := b.C.B.(IntV)
	if !ok1 || !ok2 || x.Kind != ikLin || y.Kind != ikLin {
		return false, false
	}
	r := cmpHolds(x.L.At(t), b.C.Op, y.L.At(t))
	if b.Neg {
		r = !r
	}
	return r, true
}
