package an

import (
	"fmt"
	"go/constant"
	"go/token"
	"go/types"
	"math"
	"strings"

	"golang.org/x/tools/go/ssa"
)

// Ctx is one analysis context: the finite configuration under which an entry point is
// evaluated (sizes come from the gate analysis, language classes from the constant table).
type Ctx struct {
	Name       string
	Modular    map[*ssa.Function]bool   // module functions whose calls are not entered (proved separately for all arguments)
	EntLen     *int64                   // length of every []byte parameter of the entry point
	WordCount  *int64                   // value of the int parameter of the entry point
	TokCount   *int64                   // number of tokens produced by the tokeniser
	SizeKind   string                   // "L", "W" or "N": which size SizeRange bounds
	SizeRange  *[2]int64                // when the size is not a single value: an interval containing it (a class of rejected sizes)
	Lang       *IntV                    // value of every Language-typed parameter of the entry point
	ParamVal   map[*ssa.Parameter]AV    // parameters of the entry point bound to a given value (a command-line option at its default)
	ParamConst map[*ssa.Parameter]int64 // integer parameters of the entry point fixed to a constant (a predicate helper's bounds at one call site)
	IntTable   []int64                  // value of every []int parameter of the entry point (a predicate helper's table of constants)
	// Infeasible blocks (from the gate analysis) for contexts that stand for a set of values
	Infeasible map[*ssa.BasicBlock]bool
}

// Event is something the rules want to know about one evaluated instruction.
type Event struct {
	Rule   string // P1 P2 P3 P4 P5 or "" for informational
	Status Outcome
	Instr  ssa.Instruction
	Fn     *ssa.Function
	Msg    string
}

// CallRec records an evaluated call to a function outside the module (or a builtin).
type CallRec struct {
	Callee string // full name, e.g. "io.ReadFull", "(*math/big.Int).Quo", "invoke:Write"
	Instr  ssa.Instruction
	Fn     *ssa.Function
	Recv   AV
	Args   []AV
	Res    AV
	InLoop bool
	State  State // state before the call (shared, do not mutate)
}

// EdgeCond is a branch edge that dominates an exit: the condition and the direction taken.
type EdgeCond struct {
	If       *ssa.If
	Taken    bool
	Val      AV
	LoopTest bool // the branch is the exit test of a loop header
}

// Exit is a feasible Return of some frame.
type Exit struct {
	Fn        *ssa.Function
	Ret       *ssa.Return
	Vals      []AV
	Conds     []EdgeCond
	InLoop    bool // reached from inside a loop body (values may be parametric in t)
	AfterLoop bool // dominated by the normal exit of a loop of this function
	Depth     int
	State     State
	Site      ssa.Instruction // the call (in the caller) through which this function was entered; nil at depth 0
}

// State maps objects to contents.
type State map[*Obj]Content

func (s State) clone() State {
	n := make(State, len(s))
	for k, v := range s {
		n[k] = v
	}
	return n
}

type loopCtx struct {
	header     *ssa.BasicBlock
	blocks     map[*ssa.BasicBlock]bool
	T          int64 // trip count; -1 unknown
	sym        map[*Obj]bool
	x0         map[*Obj]Content
	mutated    map[*Obj]bool
	closed     map[string]closedForm // X-symbol name -> closed form
	refs       map[string]Layout
	imprecise  bool   // the summary joined what an iteration-by-iteration evaluation would tell apart
	lenOf      string // the loop runs its counter 0,1,2,… up to the length of this container
	lenOfFirst int64  // first value of that counter
}

type closedForm struct {
	kind string // "same" "R1"
	x0   Layout
	c    int64
}

type frame struct {
	fn            *ssa.Function
	env           map[ssa.Value]AV
	depth         int
	loop          *loopCtx
	blockLp       map[*ssa.BasicBlock]*loopCtx
	edge          map[[2]*ssa.BasicBlock]State
	edgeOK        map[[2]*ssa.BasicBlock]bool
	rets          []retRec
	afterLp       map[*ssa.BasicBlock]bool
	isEntry       bool
	ev            *Eval
	defers        []deferRec
	over          map[ssa.Value]AV // block-scoped refinements of integer values (dominating comparisons)
	cur           *ssa.BasicBlock
	topPhis       map[ssa.Value]AV
	loops         map[*ssa.BasicBlock]map[*ssa.BasicBlock]bool
	containsInner map[*ssa.BasicBlock]bool
	isContained   map[*ssa.BasicBlock]bool
	unroll        int                                    // > 0 while a loop is being evaluated iteration by iteration
	phiIn         map[[2]*ssa.BasicBlock]map[*ssa.Phi]AV // φ inputs recorded on edges that leave an unrolled loop
	worlds        map[any]*worldSet                      // per unrolled loop (by header): the header φ values at each distinct way out; per call of a module helper: its results at each return
}

type deferRec struct {
	instr *ssa.Defer
	fn    AV
	args  []AV
}

type retRec struct {
	vals []AV
	st   State
}

// Eval is one abstract evaluation of an entry point in a context.
type Eval struct {
	P                *Program
	G                *Globals
	Ctx              *Ctx
	objs             int
	Events           []Event
	Calls            []CallRec
	Exits            []Exit
	Relied           map[*ssa.Global]bool // globals whose initial content was used (must be initialiser-only)
	Touched          map[*ssa.Global]bool // globals used in a way the evaluator does not model (address used, unknown content loaded)
	Notes            []string
	Instrs           int
	Loops            []LoopInfo
	stack            []*ssa.Function
	initMode         bool
	builderMode      bool // evaluating a once-run builder: stores to globals are tracked locally
	GStore           map[*ssa.Global]AV
	activeLoops      []*loopCtx
	GlobalInit       map[*ssa.Global]AV
	GlobalObj        State
	Digests          map[string]DigestInfo
	refs             map[string]Layout // loop-invariant values referenced at offsets affine in t
	mapGlobals       []*Obj
	Reads            []ReadInfo
	walkToks         map[string]*TokensV       // per input string (by description): the virtual tokens of a sentence cut word by word
	QuoteRenders     []QuoteRec                // files rendered by hand in the generator (bufferRendered)
	limited          map[*Obj]limitedRead      // buffers read through io.LimitReader (refineLimited)
	errObj           map[ssa.Instruction]*Obj  // per read call: what is known about its error on the current path
	lastRets         []retRec                  // the individual returns of the function evaluated last
	lkObj            map[ssa.Instruction]*Obj  // per word lookup: did it hit on the current path?
	arrBuf           map[*Obj]*Obj             // local byte array (cell) -> the buffer object its slices share
	poolObj          map[*Obj]types.Type       // objects obtained from a typed sync.Pool: the pointer type they have
	poolBuf          map[*Obj]bool             // buffer objects backing arrays obtained from a typed sync.Pool
	loopHeaders      []*ssa.BasicBlock         // headers of the loops being evaluated (summarised or one by one), innermost last
	LoopHitsUnrolled map[ssa.Instruction]bool  // LoopHits entries that come from an iteration-by-iteration evaluation
	lkKey            map[ssa.Instruction][2]AV // per word lookup: the map and the key it was last made with
	lkSeenAct        map[ssa.Instruction]int   // per word lookup: the unrolled-loop activation it was last made in
	lkMissCont       map[ssa.Instruction]bool  // per word lookup: made again, in the same activation, where the one before had not certainly hit
	unrollActs       []int                     // activations of loops being evaluated iteration by iteration (outermost first)
	nActs            int
	lkLoopHdr        map[ssa.Instruction]*ssa.BasicBlock     // word lookups made in a function called from inside a loop: that loop's header
	rawStrParams     int                                     // number of string parameters of the entry point
	sites            []ssa.Instruction                       // call sites of the module functions being evaluated (innermost last)
	alts             map[ssa.Instruction]map[*Obj]altContent // per guarded call: object contents on its success / failure return
	LoopHits         map[ssa.Instruction]bool                // per word lookup inside a loop: every path to the back edge passed its hit edge
	outerLoop        *loopCtx                                // the summarised loop whose body made the call being evaluated
}

type LoopInfo struct {
	Fn     *ssa.Function
	Header *ssa.BasicBlock
	T      int64
	IV     string
	Recs   []string
	Passes int
}

func NewEval(p *Program, g *Globals, ctx *Ctx) *Eval {
	return &Eval{P: p, G: g, Ctx: ctx, Relied: map[*ssa.Global]bool{}, Touched: map[*ssa.Global]bool{}}
}

func (e *Eval) newObj(k ObjKind, site ssa.Instruction, note string) *Obj {
	e.objs++
	return &Obj{ID: e.objs, Kind: k, Site: site, Note: note}
}

func (e *Eval) event(rule string, st Outcome, in ssa.Instruction, format string, a ...any) {
	var fn *ssa.Function
	if in != nil {
		fn = in.Parent()
	}
	e.Events = append(e.Events, Event{Rule: rule, Status: st, Instr: in, Fn: fn, Msg: fmt.Sprintf(format, a...)})
}

func (e *Eval) note(format string, a ...any) { e.Notes = append(e.Notes, fmt.Sprintf(format, a...)) }

// ---------------------------------------------------------------- entry

// Run evaluates fn as an entry point.  Parameters are bound from the context by type.
func (e *Eval) Run(fn *ssa.Function) (res []AV, st State) {
	args := make([]AV, len(fn.Params))
	st0 := State{}
	for i, p := range fn.Params {
		args[i] = e.bindParam(p)
		if sv := e.bindStruct(p.Type(), st0, 0); sv != nil {
			if _, unknown := args[i].(TopV); unknown {
				args[i] = sv
			}
		}
		if sv, ok := args[i].(StrV); ok && sv.Kind == skRaw {
			e.rawStrParams++
		}
	}
	defer func() {
		if r := recover(); r != nil {
			e.event("X", Undecided, nil, "analyser panic in %s: %v", fn.Name(), r)
			res, st = nil, nil
		}
	}()
	rv, out := e.evalFunc(fn, args, nil, st0, 0, true)
	return rv, out
}

// bindStruct: the value of a parameter that is a struct of the module or a pointer to one (the
// receiver of a method of a new type): one value per field — the context's language for a field
// of type Language, unknown otherwise.  A pointer is taken to point to such a struct (a nil
// receiver is the caller's mistake, not an argument the properties range over).
func (e *Eval) bindStruct(t types.Type, st State, depth int) AV {
	if depth > 2 {
		return nil
	}
	ptr := false
	if pt, ok := t.Underlying().(*types.Pointer); ok {
		t, ptr = pt.Elem(), true
	}
	stt, ok := t.Underlying().(*types.Struct)
	if !ok || stt.NumFields() > 64 || !e.inModuleType(t) {
		return nil
	}
	elems := make([]AV, stt.NumFields())
	for i := range elems {
		ft := stt.Field(i).Type()
		switch {
		case e.isLanguage(ft):
			if e.Ctx != nil && e.Ctx.Lang != nil {
				elems[i] = *e.Ctx.Lang
			} else {
				elems[i] = TopInt("language field")
			}
		default:
			if _, isPtr := ft.Underlying().(*types.Pointer); !isPtr {
				if sv := e.bindStruct(ft, st, depth+1); sv != nil {
					elems[i] = sv
					continue
				}
			}
			elems[i] = e.topOf(ft, "field "+stt.Field(i).Name()+" of a parameter")
		}
	}
	if !ptr {
		return VecV{Elems: elems}
	}
	o := e.newObj(okVec, nil, "struct "+t.String()+" (parameter)")
	o.Struct = true
	e.setContentFresh(st, o, VecC{Elems: elems})
	return PtrV{O: o}
}

func (e *Eval) bindParam(p *ssa.Parameter) AV {
	t := p.Type()
	if c, ok := e.Ctx.ParamConst[p]; ok {
		return CInt(c)
	}
	if v, ok := e.Ctx.ParamVal[p]; ok && v != nil {
		return v
	}
	if gl := e.P.paramGlobal[p]; gl != nil && e.G != nil {
		// the entry point's wrapper passes the value of this package-level variable
		return e.G.load(e, gl, t)
	}
	if e.isLanguage(t) {
		if e.Ctx.Lang != nil {
			return *e.Ctx.Lang
		}
		return TopInt("language parameter")
	}
	switch u := t.Underlying().(type) {
	case *types.Basic:
		if u.Info()&types.IsInteger != 0 {
			if e.Ctx.WordCount != nil {
				return CInt(*e.Ctx.WordCount)
			}
			if e.Ctx.SizeRange != nil && e.Ctx.SizeKind == "W" {
				return RangeInt(e.Ctx.SizeRange[0], e.Ctx.SizeRange[1])
			}
			return TopInt("param " + p.Name())
		}
		if u.Info()&types.IsString != 0 {
			return StrV{Kind: skRaw, S: p.Name()}
		}
	case *types.Slice:
		if b, ok := u.Elem().Underlying().(*types.Basic); ok && b.Info()&types.IsInteger != 0 && b.Kind() != types.Uint8 && e.Ctx.IntTable != nil {
			elems := make([]AV, len(e.Ctx.IntTable))
			for i, c := range e.Ctx.IntTable {
				elems[i] = CInt(c)
			}
			return VecV{Elems: elems}
		}
		if b, ok := u.Elem().Underlying().(*types.Basic); ok && b.Kind() == types.Uint8 {
			bv := BytesV{Src: "param:" + p.Name(), Param: p}
			if e.Ctx.EntLen != nil {
				bv.LenKnown, bv.Len = true, K(*e.Ctx.EntLen)
				bv.HasVal, bv.Val = true, SymL("E", 8**e.Ctx.EntLen)
			}
			return bv
		}
	}
	return TopV{"param " + p.Name()}
}

func (e *Eval) isLanguage(t types.Type) bool {
	n, ok := t.(*types.Named)
	return ok && e.G != nil && e.G.LangType != nil && types.Identical(n, e.G.LangType)
}

// ---------------------------------------------------------------- CFG helpers

func rpo(fn *ssa.Function) []*ssa.BasicBlock {
	seen := map[*ssa.BasicBlock]bool{}
	var post []*ssa.BasicBlock
	var dfs func(b *ssa.BasicBlock)
	dfs = func(b *ssa.BasicBlock) {
		seen[b] = true
		for _, s := range b.Succs {
			if !seen[s] {
				dfs(s)
			}
		}
		post = append(post, b)
	}
	if len(fn.Blocks) > 0 {
		dfs(fn.Blocks[0])
	}
	for i, j := 0, len(post)-1; i < j; i, j = i+1, j-1 {
		post[i], post[j] = post[j], post[i]
	}
	return post
}

// naturalLoops returns header -> body (incl. header) for every back edge target.
func naturalLoops(fn *ssa.Function) map[*ssa.BasicBlock]map[*ssa.BasicBlock]bool {
	loops := map[*ssa.BasicBlock]map[*ssa.BasicBlock]bool{}
	for _, b := range fn.Blocks {
		for _, s := range b.Succs {
			if s.Dominates(b) { // back edge b -> s
				body := loops[s]
				if body == nil {
					body = map[*ssa.BasicBlock]bool{s: true}
					loops[s] = body
				}
				var walk func(x *ssa.BasicBlock)
				walk = func(x *ssa.BasicBlock) {
					if body[x] {
						return
					}
					body[x] = true
					for _, p := range x.Preds {
						walk(p)
					}
				}
				walk(b)
			}
		}
	}
	return loops
}

// ---------------------------------------------------------------- function evaluation

const maxDepth = 12

func (e *Eval) evalFunc(fn *ssa.Function, args []AV, bindings []AV, st State, depth int, isEntry bool) ([]AV, State) {
	if len(fn.Blocks) == 0 {
		return []AV{TopV{"no body: " + fn.String()}}, st
	}
	if depth > maxDepth {
		e.event("P5", Undecided, nil, "call depth exceeded entering %s", fn.Name())
		return []AV{TopV{"depth"}}, st
	}
	for _, f := range e.stack {
		if f == fn {
			e.event("P5", Violated, fn.Blocks[0].Instrs[0], "recursive call of %s", fn.Name())
			return []AV{TopV{"recursion"}}, st
		}
	}
	e.stack = append(e.stack, fn)
	defer func() { e.stack = e.stack[:len(e.stack)-1] }()

	fr := &frame{fn: fn, env: map[ssa.Value]AV{}, depth: depth, edge: map[[2]*ssa.BasicBlock]State{}, edgeOK: map[[2]*ssa.BasicBlock]bool{},
		blockLp: map[*ssa.BasicBlock]*loopCtx{}, afterLp: map[*ssa.BasicBlock]bool{}, isEntry: isEntry, ev: e}
	for i, p := range fn.Params {
		if i < len(args) {
			fr.env[p] = args[i]
		}
	}
	for i, fv := range fn.FreeVars {
		if i < len(bindings) {
			fr.env[fv] = bindings[i]
		} else {
			fr.env[fv] = TopV{"free var " + fv.Name()}
		}
	}
	loops := naturalLoops(fn)
	order := rpo(fn)
	done := map[*ssa.BasicBlock]bool{}
	// nested loop detection
	nested := map[*ssa.BasicBlock]bool{}
	for h, body := range loops {
		for h2 := range loops {
			if h2 != h && body[h2] {
				nested[h2] = true
				nested[h] = true
			}
		}
	}
	fr.loops = loops
	fr.containsInner = map[*ssa.BasicBlock]bool{}
	fr.isContained = map[*ssa.BasicBlock]bool{}
	for h1, body := range loops {
		for h2 := range loops {
			if h2 != h1 && body[h2] {
				fr.containsInner[h1] = true
				fr.isContained[h2] = true
			}
		}
	}
	entry := fn.Blocks[0]
	for _, b := range order {
		if done[b] {
			continue
		}
		var in State
		if b == entry {
			in = st.clone()
		} else {
			var ok bool
			in, ok = e.joinPreds(fr, b, nil)
			if !ok {
				continue // unreachable in this context
			}
		}
		if body, isHeader := loops[b]; isHeader {
			if !fr.isContained[b] && e.evalLoopBest(fr, b, body, in, done) {
				continue
			}
			if true {
				// (a loop in a function called from inside a loop is nested too: the iteration
				// number the symbolic values refer to would be ambiguous)
				if structurallyCounting(b, body) {
					// its results are unknown (below), but it is a counting loop: it ends
					e.event("P5", Discharged, b.Instrs[0], "loop in %s (nested, not summarised): a counter stepping towards a bound that is fixed while the loop runs", fn.Name())
				} else {
					e.event("P5", Undecided, b.Instrs[0], "nested loops in %s are outside the summarised shapes", fn.Name())
				}
				// everything becomes unknown: all objects and all loop-carried values are ⊤; the
				// blocks are then processed plainly, without back edges
				for o := range in {
					in[o] = topContent(o, "nested loop")
				}
				done[b] = true
				e.evalBlockTopPhis(fr, b, in)
				continue
			}
		}
		done[b] = true
		if e.splitReturn(fr, b) {
			continue
		}
		e.evalBlock(fr, b, in)
	}
	// join returns
	var res []AV
	var out State
	for i, r := range fr.rets {
		if i == 0 {
			res = append([]AV{}, r.vals...)
			out = r.st.clone()
			continue
		}
		for k := range res {
			if k < len(r.vals) {
				res[k] = joinAV(res[k], r.vals[k])
			}
		}
		out = joinStates(out, r.st)
	}
	// byte slices returned on different paths are different objects (or none); if what they
	// hold is the same on every path, the result is that content (as a value)
	if len(fr.rets) > 1 {
		for k := range res {
			var common *BytesV
			same := true
			sameObj := true
			var firstObj *Obj
			for i, r := range fr.rets {
				if k < len(r.vals) {
					if bv, ok := r.vals[k].(BytesV); ok {
						if i == 0 {
							firstObj = bv.Obj
						} else if bv.Obj != firstObj {
							sameObj = false
						}
					}
				}
			}
			if sameObj {
				continue // one and the same object on every path: keep its identity
			}
			for _, r := range fr.rets {
				if k >= len(r.vals) {
					same = false
					break
				}
				bv, ok := r.vals[k].(BytesV)
				if !ok {
					same = false
					break
				}
				rv := stripObj(e.resolveBytes(bv, r.st))
				rv.Src = ""
				if common == nil {
					c := rv
					common = &c
				} else if common.String() != rv.String() {
					same = false
					break
				}
			}
			if same && common != nil && common.HasVal && common.LenKnown {
				if _, already := res[k].(BytesV); !already || res[k].String() != common.String() {
					c := *common
					c.Src = "same content on every return path"
					res[k] = c
				}
			}
		}
	}
	e.lastRets = fr.rets
	if len(fr.rets) == 0 {
		return []AV{TopV{"no feasible return"}}, st
	}
	return res, out
}

func topContent(o *Obj, why string) Content {
	switch o.Kind {
	case okBig:
		return BigTop(why)
	case okHash:
		return HashC{Top: why}
	case okBuf:
		return BufC{BytesV{Src: "⊤: " + why}}
	case okArr:
		return &ArrC{Top: why}
	case okVec:
		return VecC{Top: why}
	case okMap:
		return MapC{Top: why}
	case okSB:
		return SBC{Top: why}
	}
	return CellC{TopV{why}}
}

// joinPreds joins the states of the feasible incoming edges of b (only edges from blocks in `within` if non-nil).
func (e *Eval) joinPreds(fr *frame, b *ssa.BasicBlock, within map[*ssa.BasicBlock]bool) (State, bool) {
	var cur State
	any := false
	var preds []*ssa.BasicBlock
	for _, p := range b.Preds {
		k := [2]*ssa.BasicBlock{p, b}
		if !fr.edgeOK[k] {
			continue
		}
		if within != nil && !within[p] {
			continue
		}
		s := fr.edge[k]
		preds = append(preds, p)
		if !any {
			cur = s.clone()
			any = true
		} else {
			cur = e.joinStatesE(cur, s)
		}
	}
	if len(preds) >= 2 {
		var ins []State
		for _, p := range preds {
			ins = append(ins, fr.edge[[2]*ssa.BasicBlock{p, b}])
		}
		e.joinCondErr(cur, ins)
		if len(ins) == 2 {
			e.joinByOutcome(cur, ins[0], ins[1])
		}
	}
	// `if c { sb.WriteString(x) }`: the two incoming builder contents differ by a suffix written
	// on one arm only; keep it as a conditional part instead of giving up
	if len(preds) == 2 {
		for o, c := range cur {
			if o.Kind != okSB {
				continue
			}
			if sc, ok := c.(SBC); !ok || sc.Top != "differs at merge" {
				continue
			}
			s0, ok0 := fr.edge[[2]*ssa.BasicBlock{preds[0], b}][o].(SBC)
			s1, ok1 := fr.edge[[2]*ssa.BasicBlock{preds[1], b}][o].(SBC)
			if !ok0 || !ok1 || s0.Top != "" || s1.Top != "" {
				continue
			}
			short, long, pLong, pShort := s0, s1, preds[1], preds[0]
			if len(s0.Parts) > len(s1.Parts) {
				short, long, pLong, pShort = s1, s0, preds[0], preds[1]
			}
			if len(long.Parts) == len(short.Parts) || (SBC{Parts: long.Parts[:len(short.Parts)]}).String() != short.String() {
				continue
			}
			// pLong must be the arm of an If ending pShort
			if len(pLong.Preds) != 1 || pLong.Preds[0] != pShort {
				continue
			}
			ifi, ok := pShort.Instrs[len(pShort.Instrs)-1].(*ssa.If)
			if !ok {
				continue
			}
			bv, ok := e.val(fr, ifi.Cond).(BoolV)
			if !ok {
				continue
			}
			pol := pShort.Succs[0] == pLong
			n := SBC{Parts: append([]SBPart{}, short.Parts...)}
			good := true
			for _, part := range long.Parts[len(short.Parts):] {
				if part.Cond != nil || part.X != "" {
					good = false
				}
				cb := bv
				n.Parts = append(n.Parts, SBPart{V: part.V, Cond: &cb, Pol: pol})
			}
			if good {
				cur[o] = n
			}
		}
	}
	return cur, any
}

// joinStatesE joins two states and keeps one correlation the plain join loses: a cell that
// holds the error of call s on the side where s is known to have failed, and something else
// on the side where s is known to have succeeded (`if err == nil { err = cerr }`), holds
// "the error of s if it failed, otherwise that something else".
func (e *Eval) joinStatesE(a, b State) State {
	out := joinStates(a, b)
	for o, ca := range a {
		cb, ok := b[o]
		if !ok || ca.String() == cb.String() {
			continue
		}
		cellA, okA := ca.(CellC)
		cellB, okB := cb.(CellC)
		if !okA || !okB {
			continue
		}
		try := func(x, y CellC, sx, sy State) bool {
			ex, ok := x.V.(ErrV)
			if !ok || ex.Kind != ekFrom || ex.Site == nil {
				return false
			}
			ey, ok := y.V.(ErrV)
			if !ok {
				return false
			}
			so := e.errObj[ex.Site]
			if so == nil {
				return false
			}
			known := func(s State) (bool, bool) {
				c, ok := s[so].(CellC)
				if !ok {
					return false, false
				}
				bv, ok := c.V.(BoolV)
				return bv.Val, ok && bv.Known
			}
			vx, kx := known(sx)
			vy, ky := known(sy)
			if !kx || !ky || vx || !vy {
				return false // need: failed on x's side, succeeded on y's side
			}
			els := ey
			out[o] = CellC{ErrV{Kind: ekCond, From: ex.From, Site: ex.Site, Else: &els}}
			return true
		}
		if !try(cellA, cellB, a, b) {
			try(cellB, cellA, b, a)
		}
	}
	return out
}

// joinByOutcome: two paths merge that differ in the known outcome of one fallible call S — on
// one it failed, on the other it succeeded (`if err != nil { cleanup() }` with err the error
// of S).  The outcome cells of other calls that differ between the two (a cleanup call made on
// the failing side only) are kept as alternatives tied to S's outcome, and put back when that
// outcome is known again (applyOutcome): "S succeeded" then also means "the cleanup was not run".
func (e *Eval) joinByOutcome(out, s0, s1 State) {
	if len(e.errObj) == 0 {
		return
	}
	known := func(s State, o *Obj) (val, ok bool) {
		c, isCell := s[o].(CellC)
		if !isCell {
			return false, false
		}
		bv, isB := c.V.(BoolV)
		return bv.Val, isB && bv.Known
	}
	var S ssa.Instruction
	var okS, errS State
	n := 0
	for site, o := range e.errObj {
		v0, k0 := known(s0, o)
		v1, k1 := known(s1, o)
		if !k0 || !k1 || v0 == v1 {
			continue
		}
		n++
		S = site
		if v0 {
			okS, errS = s0, s1
		} else {
			okS, errS = s1, s0
		}
	}
	if n != 1 {
		return
	}
	for _, o := range e.errObj {
		if o == e.errObj[S] {
			continue
		}
		a, inOK := okS[o]
		b, inErr := errS[o]
		if !inOK && !inErr {
			continue
		}
		if inOK && inErr && a.String() == b.String() {
			continue
		}
		tag := fmt.Sprintf("differs with the outcome of call %p", S)
		ph := topContent(o, tag)
		out[o] = ph
		if e.alts == nil {
			e.alts = map[ssa.Instruction]map[*Obj]altContent{}
		}
		if e.alts[S] == nil {
			e.alts[S] = map[*Obj]altContent{}
		}
		alt := altContent{placeholder: ph.String()}
		if inOK {
			alt.ok = a
		}
		if inErr {
			alt.err = b
		}
		e.alts[S][o] = alt
	}
}

// joinCondErr looks, at a merge of several paths, for error cells that the pairwise join
// lost and that still have the form "the error of call S if S failed, otherwise W":
//
//	if cerr := f.Close(); cerr != nil && err == nil { err = cerr }
//
// reaches its end over three paths — Close succeeded (err untouched: the error of S, tested or
// not), Close failed and S succeeded (err = cerr), both failed (err untouched, S failed).
// On every path the cell holds either the error of S, or — S known to have succeeded — one
// and the same other value W; where it holds the error of S and S may have succeeded, the
// value is then nil, which must also be what W is there (W is nil, or the error of a call
// known to have succeeded on that path).
func (e *Eval) joinCondErr(out State, ins []State) {
	for o, c := range out {
		cc, ok := c.(CellC)
		if o.Kind != okCell || !ok {
			continue
		}
		if _, isTop := cc.V.(TopV); !isTop {
			continue
		}
		vals := make([]ErrV, len(ins))
		all := true
		for i, s := range ins {
			ci, ok := s[o].(CellC)
			if !ok {
				all = false
				break
			}
			ev, ok := ci.V.(ErrV)
			if !ok {
				all = false
				break
			}
			vals[i] = ev
		}
		if !all {
			continue
		}
		known := func(s State, site ssa.Instruction) (val, ok bool) {
			so := e.errObj[site]
			if so == nil {
				return false, false
			}
			c, isCell := s[so].(CellC)
			if !isCell {
				return false, false
			}
			bv, isB := c.V.(BoolV)
			return bv.Val, isB && bv.Known
		}
		for _, cand := range vals {
			if cand.Kind != ekFrom || cand.Site == nil {
				continue
			}
			S := cand.Site
			var W *ErrV
			good := true
			var needNil []State
			for i, v := range vals {
				succ, kn := known(ins[i], S)
				if v.Kind == ekFrom && v.Site == S {
					if !(kn && !succ) {
						needNil = append(needNil, ins[i])
					}
					continue
				}
				if !kn || !succ {
					good = false
					break
				}
				if W == nil {
					w := v
					W = &w
				} else if W.String() != v.String() {
					good = false
					break
				}
			}
			if !good || W == nil {
				continue
			}
			for _, s := range needNil {
				switch {
				case W.Kind == ekNil:
				case W.Kind == ekFrom && W.Site != nil:
					if succ, kn := known(s, W.Site); !kn || !succ {
						good = false
					}
				default:
					good = false
				}
			}
			if !good {
				continue
			}
			els := *W
			if len(needNil) > 0 {
				els.NonNil = false
			}
			out[o] = CellC{ErrV{Kind: ekCond, From: cand.From, Site: S, Else: &els}}
			break
		}
	}
}

// skippedOrOK is what the outcome cell of a fallible call holds after a merge of a path on
// which the call succeeded with a path that did not make the call at all: no failure was
// passed over, but the step cannot be said to have been carried out.
var skippedOrOK AV = CStr("not executed, or executed successfully")

func isSkippedOrOK(v AV) bool {
	s, ok := v.(StrV)
	return ok && s.Kind == skConst && s.S == skippedOrOK.(StrV).S
}

func isOutcomeCell(o *Obj) bool {
	return o.Kind == okCell && strings.HasPrefix(o.Note, "outcome of ")
}

// outcomeOneSided: the outcome cell exists on one path only.
func outcomeOneSided(c Content) Content {
	cc, ok := c.(CellC)
	if !ok {
		return c
	}
	if b, isB := cc.V.(BoolV); isB && b.Known && b.Val {
		return CellC{skippedOrOK}
	}
	if isSkippedOrOK(cc.V) {
		return c
	}
	return CellC{BoolV{}} // failed or untested on the path that made the call
}

func joinStates(a, b State) State {
	out := State{}
	for o, ca := range a {
		cb, ok := b[o]
		if !ok {
			if isOutcomeCell(o) {
				out[o] = outcomeOneSided(ca)
				continue
			}
			if o.Kind == okCell && o.Note == "lookup-hit" {
				out[o] = CellC{BoolV{}} // the other path did not look the token up at all
				continue
			}
			// object unknown on the other path: it cannot be referenced after the merge unless via φ
			out[o] = ca
			continue
		}
		if ca.String() == cb.String() {
			out[o] = ca
		} else if isOutcomeCell(o) {
			// succeeded on one side, skipped-or-succeeded on the other: still no failure passed over
			okSide := func(c Content) bool {
				cc, isC := c.(CellC)
				if !isC {
					return false
				}
				if bv, isB := cc.V.(BoolV); isB && bv.Known && bv.Val {
					return true
				}
				return isSkippedOrOK(cc.V)
			}
			if okSide(ca) && okSide(cb) {
				out[o] = CellC{skippedOrOK}
			} else {
				out[o] = CellC{BoolV{}}
			}
		} else {
			out[o] = topContent(o, "differs at merge")
		}
	}
	for o, cb := range b {
		if _, ok := a[o]; !ok {
			if isOutcomeCell(o) {
				out[o] = outcomeOneSided(cb)
				continue
			}
			if o.Kind == okCell && o.Note == "lookup-hit" {
				out[o] = CellC{BoolV{}}
				continue
			}
			out[o] = cb
		}
	}
	return out
}

func joinAV(a, b AV) AV {
	if a == nil {
		return b
	}
	if b == nil {
		return a
	}
	ia, oka := a.(IntV)
	ib, okb := b.(IntV)
	if oka && okb && ia.Tab != ib.Tab {
		ia.Tab, ib.Tab = nil, nil
		a, b = ia, ib
	}
	if a.String() == b.String() {
		return a
	}
	if oka && okb {
		l1, h1, ok1 := ia.Bounds(0)
		l2, h2, ok2 := ib.Bounds(0)
		if ok1 && ok2 {
			return RangeInt(minI(l1, l2), maxI(h1, h2))
		}
		return TopInt("join")
	}
	if oka || okb {
		return TopInt("join")
	}
	if ea, ok := a.(ErrV); ok {
		if eb, ok := b.(ErrV); ok {
			if ea.Kind == ekFresh && eb.Kind == ekFresh && ea.Site != nil && ea.Site == eb.Site && ea.Format == eb.Format && len(ea.Args) == len(eb.Args) {
				// the same fmt.Errorf reached with different operands (one per iteration of an
				// unrolled loop): still that error, operands joined
				j := ea
				j.Args = make([]AV, len(ea.Args))
				for i := range ea.Args {
					j.Args[i] = joinAV(ea.Args[i], eb.Args[i])
				}
				return j
			}
			return ErrV{Kind: ekUnknown, NonNil: ea.Kind != ekNil && eb.Kind != ekNil && (ea.Kind != ekFrom || ea.NonNil) && (eb.Kind != ekFrom || eb.NonNil) && ea.Kind != ekUnknown && eb.Kind != ekUnknown}
		}
	}
	short := func(v AV) string {
		s := v.String()
		if len(s) > 60 {
			s = s[:60] + "…"
		}
		return s
	}
	if sa, ok := a.(StrV); ok {
		if sb, ok := b.(StrV); ok && sa.Kind == skTok && sb.Kind == skTok && sa.Toks != nil && sa.Toks == sb.Toks {
			// two tokens of the same split: a token of it, at one of the two positions
			j := sa
			j.Idx, _ = joinAV(sa.Idx, sb.Idx).(IntV)
			return j
		}
		return TopStr("join of " + short(a) + " | " + short(b))
	}
	if _, ok := a.(BoolV); ok {
		return BoolV{}
	}
	return TopV{"join of " + short(a) + " | " + short(b)}
}

// evalBlock runs the transfer functions of b and sets its outgoing edge states.
func (e *Eval) evalBlock(fr *frame, b *ssa.BasicBlock, st State) {
	if e.Ctx != nil && e.Ctx.Infeasible != nil && e.Ctx.Infeasible[b] {
		return
	}
	if lp := fr.blockLp[b]; lp != nil && fr.loop == nil && !e.loopActive(lp) {
		// a block reached by leaving a loop from inside its body: values are still parametric in t
		e.activeLoops = append(e.activeLoops, lp)
		defer func() { e.activeLoops = e.activeLoops[:len(e.activeLoops)-1] }()
	}
	e.evalBlockIn(fr, b, st)
}

// splitReturn: b only merges result variables and returns them (φ-nodes and a return, the
// shape of `result = …` on every branch followed by one `return result, err`).  Instead of
// joining what the branches computed, each feasible way into b is an exit of its own, with
// the values the φ-nodes take on that edge and the conditions that lead there.
func (e *Eval) splitReturn(fr *frame, b *ssa.BasicBlock) bool {
	if len(b.Succs) != 0 || fr.loop != nil || fr.blockLp[b] != nil || len(e.activeLoops) > 0 || fr.unroll > 0 {
		return false
	}
	if e.Ctx != nil && e.Ctx.Infeasible != nil && e.Ctx.Infeasible[b] {
		return false
	}
	var ret *ssa.Return
	nphi := 0
	for _, in := range b.Instrs {
		switch x := in.(type) {
		case *ssa.Phi:
			nphi++
		case *ssa.DebugRef:
		case *ssa.Return:
			ret = x
		default:
			return false
		}
	}
	if ret == nil || nphi == 0 {
		return false
	}
	var feasible []int
	for i, p := range b.Preds {
		if fr.edgeOK[[2]*ssa.BasicBlock{p, b}] {
			feasible = append(feasible, i)
		}
	}
	if len(feasible) < 2 || len(feasible) > 16 {
		return false
	}
	for _, i := range feasible {
		p := b.Preds[i]
		st := fr.edge[[2]*ssa.BasicBlock{p, b}].clone()
		vals := make([]AV, len(ret.Results))
		for k, r := range ret.Results {
			v := r
			if phi, ok := r.(*ssa.Phi); ok && phi.Block() == b && i < len(phi.Edges) {
				v = phi.Edges[i]
			}
			vals[k] = e.errOnPath(e.val(fr, v), st)
		}
		conds := e.controlling(fr, p)
		if ifi, ok := p.Instrs[len(p.Instrs)-1].(*ssa.If); ok && len(p.Succs) == 2 && p.Succs[0] != p.Succs[1] {
			conds = append([]EdgeCond{{If: ifi, Taken: p.Succs[0] == b, Val: e.val(fr, ifi.Cond)}}, conds...)
		}
		fr.rets = append(fr.rets, retRec{vals, st})
		e.Exits = append(e.Exits, Exit{Fn: fr.fn, Ret: ret, Vals: vals, Conds: conds, InLoop: false, AfterLoop: fr.afterLp[p] || e.afterLoop(fr, p) || fr.afterLp[b], Depth: fr.depth, State: st, Site: e.curSite()})
	}
	// the φ-nodes keep their joined value for anything that might still ask
	for _, in := range b.Instrs {
		if phi, ok := in.(*ssa.Phi); ok {
			var cur AV
			for _, i := range feasible {
				if i < len(phi.Edges) {
					cur = joinAV(cur, e.val(fr, phi.Edges[i]))
				}
			}
			fr.env[phi] = cur
		}
	}
	return true
}

// runDefers runs the deferred calls registered on the way to x, last in first out; closures
// of the module are evaluated, anything else makes what it was given unknown.  The result is
// one state per combination of return paths of the closures (joined beyond eight).
func (e *Eval) runDefers(fr *frame, x *ssa.RunDefers, st State) []State {
	states := []State{st.clone()}
	for i := len(fr.defers) - 1; i >= 0; i-- {
		d := fr.defers[i]
		// only the defers executed on every path to this point (a defer statement further down,
		// or on another branch, has not run)
		db := d.instr.Block()
		if db != x.Block() && !db.Dominates(x.Block()) {
			continue
		}
		cc := d.instr.Call
		var callee *ssa.Function
		var bindings []AV
		if fv, ok := d.fn.(FuncV); ok {
			callee, bindings = fv.Fn, fv.Bindings
		} else if sc := cc.StaticCallee(); sc != nil {
			callee = sc
		}
		inMod := callee != nil && len(callee.Blocks) > 0 && (callee.Pkg != nil && e.P.InModule(callee.Pkg) || callee.Parent() != nil && callee.Parent().Pkg != nil && e.P.InModule(callee.Parent().Pkg))
		var next []State
		for _, s := range states {
			if inMod && !cc.IsInvoke() {
				_, out := e.evalFunc(callee, d.args, bindings, s, fr.depth+1, false)
				if rets := e.lastRets; len(rets) > 1 && len(rets) <= 4 {
					for _, r := range rets {
						next = append(next, r.st.clone())
					}
				} else {
					next = append(next, out)
				}
				continue
			}
			if name := calleeNameOfCommon(cc); !(strings.HasSuffix(name, ".Close") || name == "invoke:Close") {
				for _, a := range d.args {
					e.escape(fr, s, a, "deferred call")
				}
			}
			for _, b := range bindings {
				e.escape(fr, s, b, "deferred closure")
			}
			next = append(next, s)
		}
		states = next
		if len(states) > 8 {
			out := states[0]
			for _, o := range states[1:] {
				out = joinStates(out, o)
			}
			states = []State{out}
		}
	}
	return states
}

func calleeNameOfCommon(cc ssa.CallCommon) string {
	if cc.IsInvoke() {
		return "invoke:" + cc.Method.Name()
	}
	if f := cc.StaticCallee(); f != nil {
		return f.String()
	}
	return "dynamic"
}

// evalBlockTopPhis evaluates the header of a loop that is not summarised: its φs are unknown.
func (e *Eval) evalBlockTopPhis(fr *frame, b *ssa.BasicBlock, st State) {
	top := map[ssa.Value]AV{}
	for _, in := range b.Instrs {
		if phi, ok := in.(*ssa.Phi); ok {
			top[phi] = e.topOf(phi.Type(), "value carried round a loop that is not summarised")
		}
	}
	fr.topPhis = top
	e.evalBlock(fr, b, st)
	fr.topPhis = nil
}

func (e *Eval) loopActive(lp *loopCtx) bool {
	for _, l := range e.activeLoops {
		if l == lp {
			return true
		}
	}
	return false
}

func (e *Eval) evalBlockIn(fr *frame, b *ssa.BasicBlock, st State) {
	savedOver, savedCur := fr.over, fr.cur
	fr.over = nil
	fr.over = e.refinements(fr, b)
	fr.cur = b
	defer func() { fr.over, fr.cur = savedOver, savedCur }()
	e.evalInstrs(fr, b, b.Instrs, st)
}

// evalInstrs runs the transfer functions of a suffix of b's instructions.
func (e *Eval) evalInstrs(fr *frame, b *ssa.BasicBlock, instrs []ssa.Instruction, st State) {
	for k, in := range instrs {
		e.Instrs++
		if e.Instrs > 3000000 {
			panic("evaluation budget exceeded (3,000,000 abstract instructions in one context)")
		}
		switch x := in.(type) {
		case *ssa.RunDefers:
			// the deferred closures may end on several paths (`if cerr := f.Close(); err == nil
			// { err = cerr }`): what follows — reading the result cells and returning — is done
			// once per such path, so that a returned value stays tied to the outcomes it depends on
			states := e.runDefers(fr, x, st)
			if len(states) == 1 {
				for k := range st {
					delete(st, k)
				}
				for k, v := range states[0] {
					st[k] = v
				}
				continue
			}
			for _, s := range states {
				e.evalInstrs(fr, b, instrs[k+1:], s)
			}
			return
		case *ssa.Phi:
			if v, ok := fr.topPhis[x]; ok {
				fr.env[x] = v
			} else {
				fr.env[x] = e.evalPhi(fr, x)
			}
		case *ssa.If:
			c := e.val(fr, x.Cond)
			bv, _ := c.(BoolV)
			t, f := true, true
			if bv.Known {
				t, f = bv.Val, !bv.Val
			}
			if t {
				e.setEdge(fr, b, b.Succs[0], refineOnEdge(fr, st, x.Cond, bv, true))
			}
			if f {
				e.setEdge(fr, b, b.Succs[1], refineOnEdge(fr, st, x.Cond, bv, false))
			}
		case *ssa.Jump:
			e.setEdge(fr, b, b.Succs[0], st)
		case *ssa.Return:
			vals := make([]AV, len(x.Results))
			for i, r := range x.Results {
				vals[i] = e.errOnPath(e.val(fr, r), st)
			}
			fr.rets = append(fr.rets, retRec{vals, st})
			lp := fr.loop
			if lp == nil {
				lp = fr.blockLp[b]
			}
			e.Exits = append(e.Exits, Exit{Fn: fr.fn, Ret: x, Vals: vals, Conds: e.controlling(fr, b), InLoop: lp != nil || fr.unroll > 0, AfterLoop: fr.afterLp[b] || e.afterLoop(fr, b), Depth: fr.depth, State: st, Site: e.curSite()})
		case *ssa.Panic:
			e.event("P1", Violated, x, "reachable panic(%v)", e.val(fr, x.X))
		default:
			e.instr(fr, in, st)
		}
	}
}

// loopOf: the loop being summarised around the instruction under evaluation — of this frame,
// or of the caller whose loop body made the call.
func (e *Eval) loopOf(fr *frame) *loopCtx {
	if fr.loop != nil {
		return fr.loop
	}
	return e.outerLoop
}

func (e *Eval) afterLoop(fr *frame, b *ssa.BasicBlock) bool {
	for d := b; d != nil; d = d.Idom() {
		if fr.afterLp[d] {
			return true
		}
	}
	return false
}

func (e *Eval) curSite() ssa.Instruction {
	if n := len(e.sites); n > 0 {
		return e.sites[n-1]
	}
	return nil
}

// inModuleType: a named type declared in the module under analysis.
func (e *Eval) inModuleType(t types.Type) bool {
	n, ok := t.(*types.Named)
	if !ok || n.Obj().Pkg() == nil {
		return false
	}
	for _, pk := range e.P.Pkgs {
		if pk.Types == n.Obj().Pkg() {
			return true
		}
	}
	return false
}

// isTargetEquals: fn is `func (recv) Is(target error) bool { return target == G }` (or with the
// operands the other way round) for a package-level variable G; G, else nil.
func isTargetEquals(fn *ssa.Function) *ssa.Global {
	if len(fn.Blocks) != 1 || len(fn.Params) != 2 {
		return nil
	}
	var g *ssa.Global
	var cmp *ssa.BinOp
	for _, in := range fn.Blocks[0].Instrs {
		switch x := in.(type) {
		case *ssa.DebugRef:
		case *ssa.UnOp:
			if lg := loadedGlobal(x); lg != nil && g == nil {
				g = lg
			} else {
				return nil
			}
		case *ssa.BinOp:
			if cmp != nil || x.Op != token.EQL {
				return nil
			}
			cmp = x
		case *ssa.Return:
			if cmp == nil || g == nil || len(x.Results) != 1 || x.Results[0] != ssa.Value(cmp) {
				return nil
			}
			a, b := cmp.X, cmp.Y
			if a != ssa.Value(fn.Params[1]) {
				a, b = b, a
			}
			if a != ssa.Value(fn.Params[1]) || loadedGlobal(b) != g {
				return nil
			}
			return g
		default:
			return nil
		}
	}
	return nil
}

// customError: the conversion to an interface of a value whose (module) type implements
// error.  The message is what its Error method returns for this very value (evaluated
// abstractly); Unwrap giving a sentinel makes it a wrapper of that sentinel; an Is method
// makes what it matches unknown.
func (e *Eval) customError(fr *frame, x *ssa.MakeInterface, v AV, st State) (AV, bool) {
	t := x.X.Type()
	base := t
	if p, ok := t.(*types.Pointer); ok {
		base = p.Elem()
	}
	if !e.inModuleType(base) {
		return nil, false
	}
	ms := e.P.SSA.MethodSets.MethodSet(t)
	var errM, unwrapM, isM *ssa.Function
	hasAs := false
	for i := 0; i < ms.Len(); i++ {
		switch ms.At(i).Obj().Name() {
		case "Error":
			errM = e.P.SSA.MethodValue(ms.At(i))
		case "Unwrap":
			unwrapM = e.P.SSA.MethodValue(ms.At(i))
		case "Is":
			isM = e.P.SSA.MethodValue(ms.At(i))
		case "As":
			hasAs = true
		}
	}
	if errM == nil || errM.Signature.Params().Len() != 0 || errM.Signature.Results().Len() != 1 {
		return nil, false
	}
	// `func (e *T) Is(target error) bool { return target == ErrKind }`: the value matches the
	// package-level error ErrKind and nothing else — what an error wrapping ErrKind matches
	var isKind *ssa.Global
	if isM != nil && !hasAs && unwrapM == nil {
		isKind = isTargetEquals(isM)
	}
	if isM != nil && isKind == nil || hasAs {
		return ErrV{Kind: ekUnknown, NonNil: true, From: base.String() + " (has an Is/As method)", Site: x}, true
	}
	out := ErrV{Kind: ekFresh, Site: x, NonNil: true}
	if isKind != nil {
		out.Kind, out.G = ekWrap, isKind
	}
	if len(errM.Blocks) > 0 && fr.depth < maxDepth-1 {
		save := len(e.Events)
		res, _ := e.evalFunc(errM, []AV{v}, nil, st.clone(), fr.depth+1, false)
		e.Events = e.Events[:save]
		if len(res) == 1 {
			if sv, ok := res[0].(StrV); ok {
				switch sv.Kind {
				case skConst:
					out.Format = sv.S
				case skConcat:
					for _, p := range sv.Parts {
						if ps, ok := p.(StrV); ok && ps.Kind == skConst {
							out.Format += strings.ReplaceAll(ps.S, "%", "%%")
						} else {
							out.Format += "%v"
							out.Args = append(out.Args, p)
						}
					}
				default:
					out.Format = "%v"
					out.Args = []AV{sv}
				}
			}
		}
	}
	if unwrapM != nil && len(unwrapM.Blocks) > 0 && fr.depth < maxDepth-1 {
		save := len(e.Events)
		res, _ := e.evalFunc(unwrapM, []AV{v}, nil, st.clone(), fr.depth+1, false)
		e.Events = e.Events[:save]
		if len(res) == 1 {
			switch w := res[0].(type) {
			case ErrV:
				if w.Kind == ekSentinel || w.Kind == ekWrap {
					out.Kind, out.G = ekWrap, w.G
				} else if w.Kind != ekNil {
					return ErrV{Kind: ekUnknown, NonNil: true, From: base.String() + " (Unwrap)", Site: x}, true
				}
			default:
				return ErrV{Kind: ekUnknown, NonNil: true, From: base.String() + " (Unwrap)", Site: x}, true
			}
		}
	}
	return out, true
}

// altContent is what an object holds after a call, depending on whether the call failed.
type altContent struct {
	ok, err     Content
	placeholder string
}

// refineOnEdge: on the edge where an error value was compared with nil, remember the outcome
// for that SSA value (so `return "", err` after `if err != nil` is known non-nil).
func refineOnEdge(fr *frame, st State, cond ssa.Value, bv BoolV, taken bool) State {
	if len(fr.ev.limited) > 0 {
		st = fr.ev.refineLimited(fr, st, cond, taken)
	}
	if len(fr.worlds) > 0 {
		st = fr.ev.refineWorlds(fr, st, cond, taken)
	}
	if !bv.Known && bv.C != nil && bv.C.Kind == "lookupok" && bv.C.Site != nil {
		if o := fr.ev.lkObj[bv.C.Site]; o != nil {
			n := st.clone()
			n[o] = CellC{KBool(taken != bv.Neg)}
			return n
		}
		return st
	}
	if bv.Known || bv.C == nil || bv.C.Kind != "isnil" {
		return st
	}
	ev, ok := bv.C.A.(ErrV)
	if !ok || ev.Kind != ekFrom || ev.Site == nil {
		return st
	}
	isNil := (bv.C.Op == token.EQL) == (taken != bv.Neg)
	e := fr.ev
	n := st.clone()
	if e.errObj == nil {
		e.errObj = map[ssa.Instruction]*Obj{}
	}
	o := e.errObj[ev.Site]
	if o == nil {
		o = e.newObj(okCell, ev.Site, "outcome of "+ev.From)
		e.errObj[ev.Site] = o
	}
	e.applyOutcome(n, ev.Site, isNil)
	return n
}

// refineWorlds: a branch, after an unrolled loop, on one of the loop's header φ-nodes: on the
// edge taken, the objects that nothing has touched since the loop hold what they held on the
// ways out of the loop that agree with the branch (see worldSet).
func (e *Eval) refineWorlds(fr *frame, st State, cond ssa.Value, taken bool) State {
	for _, ws := range fr.worlds {
		if _, known := worldAgrees(ws.alts[0], cond, taken); !known {
			continue
		}
		if fr.cur != nil && ws.body[fr.cur] {
			continue
		}
		var sel []int
		for i, w := range ws.alts {
			if ok, _ := worldAgrees(w, cond, taken); ok {
				sel = append(sel, i)
			}
		}
		if len(sel) == 0 || len(sel) == len(ws.alts) {
			continue
		}
		var j State
		for _, i := range sel {
			if j == nil {
				j = ws.states[i].clone()
			} else {
				j = e.joinStatesE(j, ws.states[i])
			}
		}
		n := st.clone()
		for o, c := range j {
			cur, ok := st[o]
			if !ok || cur == nil || c == nil {
				continue
			}
			if want, ok := ws.joined[o]; ok && cur.String() == want {
				n[o] = c
			}
		}
		st = n
	}
	return st
}

// QuoteRec: a hand-rendered file, the buffer it was rendered into and the state at that point.
type QuoteRec struct {
	Render *QuoteRender
	Buf    ResV
	State  State
}

// limitedRead: a buffer filled by ReadAll(io.LimitReader(body, N)).
type limitedRead struct {
	N   int64
	URL AV
}

// refineLimited: on an edge where len(b) is known to be below the limit N of the LimitReader b
// was read through, nothing was cut off: b holds the whole download.
func (e *Eval) refineLimited(fr *frame, st State, cond ssa.Value, taken bool) State {
	hold := taken
	for {
		u, ok := cond.(*ssa.UnOp)
		if !ok || u.Op != token.NOT {
			break
		}
		hold, cond = !hold, u.X
	}
	bo, ok := cond.(*ssa.BinOp)
	if !ok {
		return st
	}
	lhs, rhs, op := bo.X, bo.Y, bo.Op
	if _, isC := intConst(lhs); isC {
		lhs, rhs, op = rhs, lhs, flipOp(op)
	}
	k, isC := intConst(rhs)
	if !isC {
		return st
	}
	if !hold {
		switch op {
		case token.GTR:
			op = token.LEQ
		case token.GEQ:
			op = token.LSS
		case token.LSS:
			op = token.GEQ
		case token.LEQ:
			op = token.GTR
		case token.EQL:
			op = token.NEQ
		case token.NEQ:
			op = token.EQL
		}
	}
	var ub int64
	switch op {
	case token.LEQ, token.EQL:
		ub = k
	case token.LSS:
		ub = k - 1
	default:
		return st
	}
	for {
		cv, ok := lhs.(*ssa.Convert)
		if !ok {
			break
		}
		lhs = cv.X
	}
	call, ok := lhs.(*ssa.Call)
	if !ok || !isBuiltinCall(call, "len") {
		return st
	}
	b, ok := e.val(fr, call.Call.Args[0]).(BytesV)
	if !ok || b.Obj == nil {
		return st
	}
	lr, ok := e.limited[b.Obj]
	if !ok || ub >= lr.N {
		return st
	}
	if bc, ok := st[b.Obj].(BufC); !ok || !strings.HasPrefix(bc.B.Src, "⊤: at most the first") {
		return st // already refined, or written since
	}
	n := st.clone()
	n[b.Obj] = BufC{BytesV{Src: "download", Str: StrV{Kind: skSrc, S: "download", X: lr.URL}}}
	return n
}

// applyOutcome records in n that the fallible call at site succeeded (isNil) or failed, and
// puts back what depends on it.
func (e *Eval) applyOutcome(n State, site ssa.Instruction, isNil bool) {
	if e.errObj == nil {
		e.errObj = map[ssa.Instruction]*Obj{}
	}
	o := e.errObj[site]
	if o == nil {
		o = e.newObj(okCell, site, "outcome of call")
		e.errObj[site] = o
	}
	n[o] = CellC{KBool(isNil)}
	for obj, alt := range e.alts[site] {
		if cur, ok := n[obj]; ok && cur.String() == alt.placeholder {
			v := alt.err
			if isNil {
				v = alt.ok
			}
			if v == nil {
				delete(n, obj) // on that side the object did not exist (a call that was not made)
			} else {
				n[obj] = v
			}
		}
	}
	if isNil {
		for obj, c := range n {
			if bc, ok := c.(BufC); ok && bc.B.Pending == site {
				b := bc.B
				b.Pending = nil
				n[obj] = BufC{b}
			}
		}
	}
}

// errOnPath sharpens an error value with what the current path knows about the call it came from.
func (e *Eval) errOnPath(v AV, st State) AV {
	ev, ok := v.(ErrV)
	if !ok || ev.Kind != ekFrom || ev.Site == nil {
		return v
	}
	if o := e.errObj[ev.Site]; o != nil {
		if c, ok := st[o].(CellC); ok {
			if b, ok := c.V.(BoolV); ok && b.Known {
				if b.Val {
					return ErrV{Kind: ekNil}
				}
				ev.NonNil = true
				return ev
			}
		}
	}
	return v
}

func (e *Eval) setEdge(fr *frame, from, to *ssa.BasicBlock, st State) {
	k := [2]*ssa.BasicBlock{from, to}
	fr.edge[k] = st.clone()
	fr.edgeOK[k] = true
	if fr.loop != nil && !fr.loop.blocks[to] {
		// leaving the loop from inside its body: the target runs in iteration context
		if from != fr.loop.header {
			fr.blockLp[to] = fr.loop
		}
	} else if lp := fr.blockLp[from]; lp != nil && fr.loop == nil {
		fr.blockLp[to] = lp
	}
}

// ctrlEdge is a branch edge that dominates a block: the block is reached only with the
// condition of If having the value Taken.
type ctrlEdge struct {
	If       *ssa.If
	Taken    bool
	LoopTest bool
}

// ctrlEdges returns the branch edges that dominate b (nearest first); purely structural, cached.
func (e *Eval) ctrlEdges(b *ssa.BasicBlock) []ctrlEdge {
	if e.P != nil {
		if c, ok := e.P.ctrl[b]; ok {
			return c
		}
	}
	var out []ctrlEdge
	for x := b; x != nil; x = x.Idom() {
		d := x.Idom()
		if d == nil {
			break
		}
		ifi, ok := d.Instrs[len(d.Instrs)-1].(*ssa.If)
		if !ok {
			continue
		}
		// x must be reachable from d only through exactly one of d's two edges
		viaT, viaF := reachesOnlyVia(d, d.Succs[0], x), reachesOnlyVia(d, d.Succs[1], x)
		if viaT == viaF {
			continue
		}
		isLoop := false
		for _, p := range d.Preds {
			if d.Dominates(p) {
				isLoop = true
			}
		}
		out = append(out, ctrlEdge{If: ifi, Taken: viaT, LoopTest: isLoop})
	}
	if e.P != nil {
		if e.P.ctrl == nil {
			e.P.ctrl = map[*ssa.BasicBlock][]ctrlEdge{}
		}
		e.P.ctrl[b] = out
	}
	return out
}

// controlling returns the branch edges that dominate b (nearest first) with the abstract
// value of each condition.
func (e *Eval) controlling(fr *frame, b *ssa.BasicBlock) []EdgeCond {
	var out []EdgeCond
	for _, c := range e.ctrlEdges(b) {
		out = append(out, EdgeCond{If: c.If, Taken: c.Taken, Val: e.val(fr, c.If.Cond), LoopTest: c.LoopTest})
	}
	return out
}

// relation is `X op Y` known to hold (integer operands).
type relation struct {
	X, Y ssa.Value
	Op   token.Token
}

// relationsAt lists the integer comparisons that hold on entry to b because of the branch
// edges dominating it (farthest first).  SSA values are immutable, so a comparison of two
// SSA values that held on a dominating edge still holds in b.
func (e *Eval) relationsAt(b *ssa.BasicBlock) []relation {
	var out []relation
	edges := e.ctrlEdges(b)
	for i := len(edges) - 1; i >= 0; i-- {
		c := edges[i]
		cv := c.If.Cond
		hold := c.Taken
		for {
			u, ok := cv.(*ssa.UnOp)
			if !ok || u.Op != token.NOT {
				break
			}
			hold = !hold
			cv = u.X
		}
		bo, ok := cv.(*ssa.BinOp)
		if !ok {
			continue
		}
		switch bo.Op {
		case token.LSS, token.LEQ, token.GTR, token.GEQ, token.EQL, token.NEQ:
		default:
			continue
		}
		if bt, ok := bo.X.Type().Underlying().(*types.Basic); !ok || bt.Info()&types.IsInteger == 0 {
			continue
		}
		op := bo.Op
		if !hold {
			op = negOp(op)
		}
		out = append(out, relation{bo.X, bo.Y, op})
	}
	return out
}

// refinements computes, for block b, sharper ranges for integer SSA values that the
// dominating comparisons constrain (only values currently known as ⊤ or as a range are
// touched; exact, symbolic and per-iteration values keep their representation).
func (e *Eval) refinements(fr *frame, b *ssa.BasicBlock) map[ssa.Value]AV {
	rels := e.relationsAt(b)
	if len(e.ctrlEdges(b)) == 0 {
		return nil
	}
	var over map[ssa.Value]AV
	// after an unrolled loop: a dominating branch on one of its header φ-nodes (`if failed`)
	// keeps the ways out of the loop on which that value agrees with the branch taken; what the
	// other φ-nodes held on those ways out is what they hold here
	for _, ws := range fr.worlds {
		if ws.body[b] {
			continue
		}
		sel := make([]int, len(ws.alts))
		for i := range sel {
			sel[i] = i
		}
		type decided struct {
			cond ssa.Value
			hold bool
		}
		var by []decided
		for _, c := range e.ctrlEdges(b) {
			if ws.body[c.If.Block()] {
				continue
			}
			if _, known := worldAgrees(ws.alts[0], c.If.Cond, c.Taken); !known {
				continue
			}
			if ws.site != nil && !instrDominates(ws.site, c.If) {
				continue // the test comes before the call whose returns these are (an earlier iteration's value)
			}
			var keep []int
			for _, i := range sel {
				if ok, _ := worldAgrees(ws.alts[i], c.If.Cond, c.Taken); ok {
					keep = append(keep, i)
				}
			}
			if len(keep) < len(sel) {
				cv, hold := c.If.Cond, c.Taken
				for {
					u, ok := cv.(*ssa.UnOp)
					if !ok || u.Op != token.NOT {
						break
					}
					hold, cv = !hold, u.X
				}
				by = append(by, decided{cv, hold})
			}
			sel = keep
		}
		if len(sel) == 0 || len(sel) == len(ws.alts) {
			continue
		}
		if over == nil {
			over = map[ssa.Value]AV{}
		}
		for v := range ws.alts[0] {
			var j AV
			for _, i := range sel {
				j = joinAV(j, ws.alts[i][v])
			}
			if j != nil {
				over[v] = j
			}
		}
		// a flag that says "some word was not found": where the ways out it selects are exactly
		// those on which a word lookup had missed, the flag stands for that lookup's outcome —
		// which is what the rules on exits ask about
		if len(by) == 1 && ws.lks != nil {
			if _, isBool := over[by[0].cond].(BoolV); isBool {
				inSel := map[int]bool{}
				for _, i := range sel {
					inSel[i] = true
				}
				for site, o := range e.lkObj {
					missSel, hitRest := true, true
					for i := range ws.alts {
						known, val := false, false
						if c, ok := ws.states[i][o].(CellC); ok {
							if bv, ok := c.V.(BoolV); ok && bv.Known {
								known, val = true, bv.Val
							}
						}
						if inSel[i] && !(known && !val) {
							missSel = false
						}
						if !inSel[i] && !(known && val) {
							hitRest = false
						}
					}
					hitSel, missRest := true, true
					for i := range ws.alts {
						known, val := false, false
						if c, ok := ws.states[i][o].(CellC); ok {
							if bv, ok := c.V.(BoolV); ok && bv.Known {
								known, val = true, bv.Val
							}
						}
						if inSel[i] && !(known && val) {
							hitSel = false
						}
						if !inSel[i] && !(known && !val) {
							missRest = false
						}
					}
					if !(missSel && hitRest) && !(hitSel && missRest) {
						continue
					}
					// the key and the map of the lookups on the ways out where it missed
					var mAV, kAV AV
					for i := range ws.alts {
						if (missSel && hitRest) == inSel[i] {
							if mk, ok := ws.lks[i][site]; ok {
								mAV, kAV = joinAV(mAV, mk[0]), joinAV(kAV, mk[1])
							}
						}
					}
					// value(cond) == hold  ⇔  this block is reached  ⇔  (missSel: the lookup missed)
					neg := by[0].hold == (missSel && hitRest)
					over[by[0].cond] = BoolV{C: &Cond{Kind: "lookupok", A: mAV, B: kAV, Site: site}, Neg: neg}
					break
				}
			}
		}
	}
	cur := func(v ssa.Value) AV {
		if a, ok := over[v]; ok {
			return a
		}
		return e.val(fr, v)
	}
	bounds := func(v ssa.Value) (lo, hi int64, refinable, ok bool) {
		a, isInt := cur(v).(IntV)
		tlo, thi, _, _, tok := e.typeRange(v.Type())
		if !isInt {
			if _, isTop := cur(v).(TopV); isTop && tok {
				return tlo, thi, true, true
			}
			return 0, 0, false, false
		}
		switch a.Kind {
		case ikTop:
			if tok {
				return tlo, thi, true, true
			}
		case ikRange:
			return a.Lo, a.Hi, true, true
		case ikLin:
			if a.L.Const() {
				return a.L.A, a.L.A, false, true
			}
		}
		return 0, 0, false, false
	}
	apply := func(x ssa.Value, op token.Token, y ssa.Value) {
		if _, isConst := x.(*ssa.Const); isConst {
			return
		}
		xlo, xhi, refinable, ok := bounds(x)
		if !ok || !refinable {
			return
		}
		ylo, yhi, _, ok := bounds(y)
		if !ok {
			return
		}
		nlo, nhi := xlo, xhi
		switch op {
		case token.LSS:
			if yhi == math.MinInt64 {
				return
			}
			if yhi-1 < nhi {
				nhi = yhi - 1
			}
		case token.LEQ:
			if yhi < nhi {
				nhi = yhi
			}
		case token.GTR:
			if ylo == math.MaxInt64 {
				return
			}
			if ylo+1 > nlo {
				nlo = ylo + 1
			}
		case token.GEQ:
			if ylo > nlo {
				nlo = ylo
			}
		case token.EQL:
			if ylo > nlo {
				nlo = ylo
			}
			if yhi < nhi {
				nhi = yhi
			}
		case token.NEQ:
			if ylo == yhi {
				if nlo == ylo && nlo < nhi {
					nlo++
				} else if nhi == ylo && nlo < nhi {
					nhi--
				}
			}
		}
		if nlo > nhi || (nlo == xlo && nhi == xhi) {
			return // infeasible here (keep the unrefined value: still an over-approximation) or nothing learnt
		}
		if over == nil {
			over = map[ssa.Value]AV{}
		}
		if nlo == nhi {
			over[x] = CInt(nlo)
		} else {
			over[x] = RangeInt(nlo, nhi)
		}
	}
	for _, r := range rels {
		apply(r.X, r.Op, r.Y)
		apply(r.Y, flipOp(r.Op), r.X)
	}
	// `offset := length - len(b)` with b the minimal big-endian bytes of a value that fits
	// `length` bytes, on the edge where offset <= 0: b already has the full length, so it is
	// the fixed-width encoding (the early return of a padByteSlice helper)
	for _, r := range rels {
		for _, side := range []struct {
			x  ssa.Value
			op token.Token
			y  ssa.Value
		}{{r.X, r.Op, r.Y}, {r.Y, flipOp(r.Op), r.X}} {
			xv, ok := e.val(fr, side.x).(IntV)
			if !ok || xv.Kind != ikMinLen || xv.ML == nil || xv.ML.Coef != -1 {
				continue
			}
			c, isC := intConst(side.y)
			if !isC {
				continue
			}
			// x = Const - |Min|; the relation must force |Min| >= Const
			forces := (side.op == token.LEQ && c <= 0) || (side.op == token.LSS && c <= 1) || (side.op == token.EQL && c == 0)
			w, okw := xv.ML.Val.Width()
			if !forces || !okw || (w+7)/8 > xv.ML.Const {
				continue
			}
			// find the slice whose length is subtracted
			bo, isBin := side.x.(*ssa.BinOp)
			if !isBin || bo.Op != token.SUB {
				continue
			}
			sl := lenOperand(bo.Y)
			if sl == nil {
				continue
			}
			if bv, ok := e.val(fr, sl).(BytesV); ok && bv.Min && bv.HasVal {
				if over == nil {
					over = map[ssa.Value]AV{}
				}
				over[sl] = BytesV{LenKnown: true, Len: K(xv.ML.Const), HasVal: true, Val: xv.ML.Val, Src: "minimal bytes known to have the full length"}
			}
		}
	}
	// what is learnt about one len(v) holds for every len(v) of the same slice or string value
	for v, a := range over {
		if base := lenOperand(v); base != nil {
			if refs := base.Referrers(); refs != nil {
				for _, ref := range *refs {
					if c, ok := ref.(*ssa.Call); ok && ssa.Value(c) != v && lenOperand(c) == base {
						if _, done := over[c]; !done {
							over[c] = a
						}
					}
				}
			}
		}
	}
	// n, err := io.ReadFull(r, buf): where err is known to be nil, n == len(buf)
	for _, c := range e.ctrlEdges(b) {
		cv := c.If.Cond
		hold := c.Taken
		for {
			u, ok := cv.(*ssa.UnOp)
			if !ok || u.Op != token.NOT {
				break
			}
			hold = !hold
			cv = u.X
		}
		bo, ok := cv.(*ssa.BinOp)
		if !ok || (bo.Op != token.EQL && bo.Op != token.NEQ) {
			continue
		}
		var errv ssa.Value
		switch {
		case isNilConst(bo.Y):
			errv = bo.X
		case isNilConst(bo.X):
			errv = bo.Y
		default:
			continue
		}
		if (bo.Op == token.EQL) != hold {
			continue // the non-nil edge
		}
		ex, ok := errv.(*ssa.Extract)
		if !ok || ex.Index != 1 {
			continue
		}
		call, ok := ex.Tuple.(*ssa.Call)
		if !ok || calleeName(call) != "io.ReadFull" || len(call.Call.Args) != 2 {
			continue
		}
		buf, ok := e.val(fr, call.Call.Args[1]).(BytesV)
		if !ok || !buf.LenKnown {
			continue
		}
		for _, ref := range *call.Referrers() {
			if nx, ok := ref.(*ssa.Extract); ok && nx.Index == 0 {
				if over == nil {
					over = map[ssa.Value]AV{}
				}
				over[nx] = LinInt(buf.Len)
			}
		}
	}
	// v, ok := m[k]: on the edge where ok is false, v is the zero value of its type
	for _, c := range e.ctrlEdges(b) {
		cv := c.If.Cond
		hold := c.Taken
		for {
			u, ok := cv.(*ssa.UnOp)
			if !ok || u.Op != token.NOT {
				break
			}
			hold = !hold
			cv = u.X
		}
		ex, ok := cv.(*ssa.Extract)
		if !ok || ex.Index != 1 || hold {
			continue
		}
		lk, ok := ex.Tuple.(*ssa.Lookup)
		if !ok || !lk.CommaOk || lk.Referrers() == nil {
			continue
		}
		for _, ref := range *lk.Referrers() {
			vx, ok := ref.(*ssa.Extract)
			if !ok || vx.Index != 0 {
				continue
			}
			if bt, ok := vx.Type().Underlying().(*types.Basic); ok && bt.Info()&types.IsInteger != 0 {
				if over == nil {
					over = map[ssa.Value]AV{}
				}
				over[vx] = CInt(0)
			}
		}
	}
	return over
}

// structLowerBound reads a lower bound of an integer off the shape of its definition: a
// constant, a value plus a constant, or a φ all of whose edges are bounded — an edge that is
// the φ itself plus a positive constant (a counter going up) cannot lower it.  (A counter
// cannot wrap around here: the callers also require it to be below a length.)
func structLowerBound(v ssa.Value, seen map[ssa.Value]bool) (int64, bool) {
	if c, ok := intConst(v); ok {
		return c, true
	}
	if seen[v] || len(seen) > 16 {
		return 0, false
	}
	seen[v] = true
	defer delete(seen, v)
	switch x := v.(type) {
	case *ssa.BinOp:
		if x.Op == token.ADD {
			if k, ok := intConst(x.Y); ok {
				if lb, ok := structLowerBound(x.X, seen); ok {
					return addOv(lb, k)
				}
			}
			if k, ok := intConst(x.X); ok {
				if lb, ok := structLowerBound(x.Y, seen); ok {
					return addOv(lb, k)
				}
			}
		}
	case *ssa.Phi:
		lo := int64(math.MaxInt64)
		n := 0
		for _, ed := range x.Edges {
			// ed == x + k (k > 0), possibly through one more +const
			if step, ok := stepOf(ed, x); ok && step > 0 {
				continue
			}
			if bo, ok := ed.(*ssa.BinOp); ok && bo.Op == token.ADD {
				if k, isC := intConst(bo.Y); isC && k >= 0 {
					if inner, ok := bo.X.(*ssa.BinOp); ok {
						if step, ok := stepOf(inner, x); ok && step > 0 {
							continue
						}
					}
				}
			}
			lb, ok := structLowerBound(ed, seen)
			if !ok {
				return 0, false
			}
			if lb < lo {
				lo = lb
			}
			n++
		}
		if n > 0 {
			return lo, true
		}
	case *ssa.Convert:
		if bt, ok := x.Type().Underlying().(*types.Basic); ok && bt.Info()&types.IsUnsigned != 0 {
			return 0, true
		}
	}
	return 0, false
}

// lenOperand: v is len(x) of a slice, string or array value x; returns x.
func lenOperand(v ssa.Value) ssa.Value {
	c, ok := v.(*ssa.Call)
	if !ok {
		return nil
	}
	bi, ok := c.Call.Value.(*ssa.Builtin)
	if !ok || bi.Name() != "len" || len(c.Call.Args) != 1 {
		return nil
	}
	switch c.Call.Args[0].Type().Underlying().(type) {
	case *types.Slice, *types.Basic, *types.Array:
		return c.Call.Args[0]
	}
	return nil
}

// everyIteration: block b is executed in every iteration of the loop (it dominates every
// back edge).
func everyIteration(b *ssa.BasicBlock, lp *loopCtx) bool {
	if lp == nil || lp.header == nil {
		return false
	}
	n := 0
	for _, p := range lp.header.Preds {
		if lp.blocks[p] {
			n++
			if !b.Dominates(p) {
				return false
			}
		}
	}
	return n > 0
}

// relSlice: the dominating comparisons establish 0 <= lo <= hi <= len(x.X) for a slice
// expression whose low bound is absent or a non-negative constant.
func (e *Eval) relSlice(fr *frame, x *ssa.Slice, lo, hi IntV) bool {
	base := x.X
	lc := int64(0)
	if x.Low != nil {
		c, ok := intConst(x.Low)
		if !ok || c < 0 {
			return false
		}
		lc = c
	}
	isLenOfBase := func(v ssa.Value) bool {
		c, ok := v.(*ssa.Call)
		if !ok {
			return false
		}
		bi, ok := c.Call.Value.(*ssa.Builtin)
		return ok && bi.Name() == "len" && len(c.Call.Args) == 1 && c.Call.Args[0] == base
	}
	// least length the comparisons guarantee, and whether hi (an SSA value) is known <= len
	minLen := int64(0)
	hiBelow := false
	for _, r := range e.relationsAt(x.Block()) {
		a, op, b := r.X, r.Op, r.Y
		if isLenOfBase(b) {
			a, b, op = b, a, flipOp(op)
		}
		if !isLenOfBase(a) {
			continue
		}
		if k, ok := intConst(b); ok {
			switch op {
			case token.GTR:
				if k+1 > minLen {
					minLen = k + 1
				}
			case token.GEQ, token.EQL:
				if k > minLen {
					minLen = k
				}
			}
		}
		if x.High != nil && b == x.High && (op == token.GEQ || op == token.GTR) {
			hiBelow = true // len(base) >= hi
		}
	}
	if c, ok := x.High.(*ssa.Call); ok && lc == 0 && x.Max == nil {
		// x[:len(x)] and x[:cap(x)] are always within bounds
		if bi, ok := c.Call.Value.(*ssa.Builtin); ok && (bi.Name() == "len" || bi.Name() == "cap") && len(c.Call.Args) == 1 && c.Call.Args[0] == base {
			return true
		}
	}
	switch {
	case x.High == nil:
		return lc <= minLen
	default:
		if hc, ok := intConst(x.High); ok {
			return lc <= hc && hc <= minLen
		}
		if !hiBelow {
			return false
		}
		// lo <= hi: lo is 0, or hi's abstract lower bound is at least lo
		if lc == 0 {
			l, _, ok := hi.Bounds(fr.T())
			return ok && l >= 0 || e.nonNegByRelations(x.Block(), x.High)
		}
		l, _, ok := hi.Bounds(fr.T())
		return ok && l >= lc
	}
}

// nonNegByRelations: a dominating comparison says v >= 0.
func (e *Eval) nonNegByRelations(b *ssa.BasicBlock, v ssa.Value) bool {
	if bt, ok := v.Type().Underlying().(*types.Basic); ok && bt.Info()&types.IsUnsigned != 0 {
		return true
	}
	for _, r := range e.relationsAt(b) {
		x, op, y := r.X, r.Op, r.Y
		if y == v {
			x, y, op = y, x, flipOp(op)
		}
		if x != v {
			continue
		}
		if c, ok := intConst(y); ok && ((op == token.GEQ && c >= 0) || (op == token.GTR && c >= -1)) {
			return true
		}
	}
	return false
}

// relBound: the dominating comparisons establish 0 <= idx < len(base) for these SSA values.
// sameCellLoads: base is `*p` for a variable cell p (a captured variable or a local) of a
// function that never stores to p and calls nothing but builtins: every other load of p in
// that function yields the same value (nothing can run in between that changes it).
func sameCellLoads(base ssa.Value) []ssa.Value {
	ld, ok := base.(*ssa.UnOp)
	if !ok || ld.Op != token.MUL {
		return nil
	}
	switch ld.X.(type) {
	case *ssa.FreeVar, *ssa.Alloc:
	default:
		return nil
	}
	fn := ld.Parent()
	var out []ssa.Value
	for _, b := range fn.Blocks {
		for _, in := range b.Instrs {
			switch x := in.(type) {
			case *ssa.Store:
				if x.Addr == ld.X {
					return nil
				}
			case ssa.CallInstruction:
				if _, isBuiltin := x.Common().Value.(*ssa.Builtin); !isBuiltin {
					return nil
				}
			case *ssa.UnOp:
				if x.Op == token.MUL && x.X == ld.X && x != ld {
					out = append(out, x)
				}
			}
		}
	}
	if al, ok := ld.X.(*ssa.Alloc); ok {
		// a local cell: its address must not be used for anything but loads (no closure captures it)
		for _, ref := range *al.Referrers() {
			if u, ok := ref.(*ssa.UnOp); !ok || u.Op != token.MUL {
				if _, isDbg := ref.(*ssa.DebugRef); !isDbg {
					return nil
				}
			}
		}
	}
	return out
}

func (e *Eval) relBound(fr *frame, b *ssa.BasicBlock, idx, base ssa.Value, idxAV IntV, strict bool) bool {
	if idx == nil || base == nil || b == nil {
		return false
	}
	// values whose length is known to equal len(base): base itself and every u with a
	// dominating `len(u) == len(base)`
	sameLen := map[ssa.Value]bool{base: true}
	for _, r := range e.relationsAt(b) {
		if r.Op != token.EQL {
			continue
		}
		u, w := lenOperand(r.X), lenOperand(r.Y)
		if u != nil && w != nil {
			if sameLen[u] {
				sameLen[w] = true
			}
			if sameLen[w] {
				sameLen[u] = true
			}
		}
	}
	if mk, ok := base.(*ssa.MakeSlice); ok {
		// base = make([]T, len(u)): as long as u
		if u := lenOperand(mk.Len); u != nil {
			sameLen[u] = true
		}
	}
	for _, v := range sameCellLoads(base) {
		sameLen[v] = true
	}
	isLenOfBase := func(v ssa.Value) bool {
		u := lenOperand(v)
		return u != nil && sameLen[u]
	}
	below, nonNeg := false, false
	if bt, ok := idx.Type().Underlying().(*types.Basic); ok && bt.Info()&types.IsUnsigned != 0 {
		nonNeg = true
	}
	if c, isConst := intConst(idx); isConst {
		// a constant index: some dominating comparison says len(base) > c
		if c < 0 {
			return false
		}
		for _, r := range e.relationsAt(b) {
			x, op, y := r.X, r.Op, r.Y
			if isLenOfBase(y) {
				x, y, op = y, x, flipOp(op)
			}
			if !isLenOfBase(x) {
				continue
			}
			if k, ok := intConst(y); ok {
				if (op == token.GTR && k >= c) || (op == token.GEQ && k > c) || (op == token.EQL && k > c) {
					return true
				}
			}
		}
		return false
	}
	switch idxAV.Kind {
	case ikLin:
		if idxAV.L.A >= 0 && idxAV.L.B >= 0 {
			nonNeg = true
		}
	case ikRange:
		if idxAV.Lo >= 0 {
			nonNeg = true
		}
	case ikBits:
		nonNeg = true
	}
	if !nonNeg {
		if lb, ok := structLowerBound(idx, map[ssa.Value]bool{}); ok && lb >= 0 {
			nonNeg = true
		}
	}
	for _, r := range e.relationsAt(b) {
		x, op, y := r.X, r.Op, r.Y
		if y == idx || isLenOfBase(x) {
			x, y, op = y, x, flipOp(op)
		}
		if x != idx {
			continue
		}
		if isLenOfBase(y) {
			if op == token.LSS || (!strict && op == token.LEQ) {
				below = true
			}
			continue
		}
		if c, ok := intConst(y); ok {
			if (op == token.GEQ && c >= 0) || (op == token.GTR && c >= -1) {
				nonNeg = true
			}
		}
	}
	return below && nonNeg
}

// reachesOnlyVia: x is dominated by d; report whether succ s of d leads to x
// and the other successor does not (without passing through d again).
func reachesOnlyVia(d, s, x *ssa.BasicBlock) bool {
	other := d.Succs[0]
	if other == s {
		other = d.Succs[1]
	}
	if s == other {
		return false
	}
	return reaches(s, x, d) && !reaches(other, x, d)
}

func reaches(from, to, avoid *ssa.BasicBlock) bool {
	seen := map[*ssa.BasicBlock]bool{}
	var walk func(b *ssa.BasicBlock) bool
	walk = func(b *ssa.BasicBlock) bool {
		if b == to {
			return true
		}
		if seen[b] || b == avoid {
			return false
		}
		seen[b] = true
		for _, s := range b.Succs {
			if walk(s) {
				return true
			}
		}
		return false
	}
	return walk(from)
}

func (e *Eval) evalPhi(fr *frame, x *ssa.Phi) AV {
	b := x.Block()
	var cur AV
	for i, p := range b.Preds {
		if !fr.edgeOK[[2]*ssa.BasicBlock{p, b}] {
			continue
		}
		v := e.val(fr, x.Edges[i])
		if rec, ok := fr.phiIn[[2]*ssa.BasicBlock{p, b}]; ok {
			if pv, ok := rec[x]; ok && pv != nil {
				v = pv // the edge leaves an unrolled loop: the value as it stood whenever it was taken
			}
		}
		if cur == nil {
			cur = v
		} else {
			cur = joinAV(cur, v)
		}
	}
	if cur == nil {
		return TopV{"phi without feasible edge"}
	}
	if v := e.emptyArmJoin(fr, x); v != nil {
		return v
	}
	return cur
}

// emptyArmJoin recognises `if s != "" { t = X + s } else { t = X }` (either order, also with
// len(s) as the test): on the arm where the untouched string parameter s is empty, X is X + s,
// so the merged value is X + s on both arms.  Returns nil when the φ-node is not of that form.
func (e *Eval) emptyArmJoin(fr *frame, x *ssa.Phi) AV {
	b := x.Block()
	var ps []*ssa.BasicBlock
	var vs []AV
	for i, p := range b.Preds {
		if !fr.edgeOK[[2]*ssa.BasicBlock{p, b}] {
			continue
		}
		if _, ok := fr.phiIn[[2]*ssa.BasicBlock{p, b}]; ok {
			return nil
		}
		ps = append(ps, p)
		vs = append(vs, e.val(fr, x.Edges[i]))
	}
	if len(ps) != 2 {
		return nil
	}
	for k := 0; k < 2; k++ {
		full, ok := vs[k].(StrV)
		if !ok || full.Kind != skConcat || len(full.Parts) < 2 {
			continue
		}
		for i, part := range full.Parts {
			raw, ok := part.(StrV)
			if !ok || raw.Kind != skRaw {
				continue
			}
			var rest AV
			if len(full.Parts) == 2 {
				rest = full.Parts[1-i]
			} else {
				r := full
				r.Parts = append(append([]AV{}, full.Parts[:i]...), full.Parts[i+1:]...)
				rest = r
			}
			if rest.String() != vs[1-k].String() {
				continue
			}
			if e.emptyOnEdge(fr, ps[1-k], b, raw.S) {
				return full
			}
		}
	}
	return nil
}

// emptyOnEdge: the edge p→b is taken only when the untouched string parameter named name is "".
func (e *Eval) emptyOnEdge(fr *frame, p, b *ssa.BasicBlock, name string) bool {
	edges := e.ctrlEdges(p)
	if ifi, ok := p.Instrs[len(p.Instrs)-1].(*ssa.If); ok && len(p.Succs) == 2 && p.Succs[0] != p.Succs[1] {
		edges = append([]ctrlEdge{{If: ifi, Taken: p.Succs[0] == b}}, edges...)
	}
	isParam := func(v ssa.Value) bool {
		sv, ok := e.val(fr, v).(StrV)
		return ok && sv.Kind == skRaw && sv.S == name
	}
	for _, c := range edges {
		cv, hold := c.If.Cond, c.Taken
		for {
			u, ok := cv.(*ssa.UnOp)
			if !ok || u.Op != token.NOT {
				break
			}
			hold, cv = !hold, u.X
		}
		bo, ok := cv.(*ssa.BinOp)
		if !ok {
			continue
		}
		lhs, rhs, op := bo.X, bo.Y, bo.Op
		if _, isC := lhs.(*ssa.Const); isC {
			lhs, rhs = rhs, lhs
			switch op {
			case token.LSS:
				op = token.GTR
			case token.GTR:
				op = token.LSS
			case token.LEQ:
				op = token.GEQ
			case token.GEQ:
				op = token.LEQ
			}
		}
		k, isC := rhs.(*ssa.Const)
		if !isC || k.Value == nil {
			continue
		}
		if !hold {
			switch op {
			case token.EQL:
				op = token.NEQ
			case token.NEQ:
				op = token.EQL
			case token.GTR:
				op = token.LEQ
			case token.LEQ:
				op = token.GTR
			case token.LSS:
				op = token.GEQ
			case token.GEQ:
				op = token.LSS
			}
		}
		if k.Value.Kind() == constant.String && constant.StringVal(k.Value) == "" && isParam(lhs) {
			if op == token.EQL || op == token.LEQ {
				return true
			}
			continue
		}
		call, ok := lhs.(*ssa.Call)
		if !ok || len(call.Call.Args) != 1 {
			continue
		}
		if bi, ok := call.Call.Value.(*ssa.Builtin); !ok || bi.Name() != "len" || !isParam(call.Call.Args[0]) {
			continue
		}
		n, exact := constant.Int64Val(k.Value)
		if !exact {
			continue
		}
		// len(s) == 0, len(s) <= 0, len(s) < 1
		if (n == 0 && (op == token.EQL || op == token.LEQ)) || (n == 1 && op == token.LSS) {
			return true
		}
	}
	return false
}

// ---------------------------------------------------------------- values

func (e *Eval) val(fr *frame, v ssa.Value) AV {
	switch c := v.(type) {
	case *ssa.Const:
		return e.constVal(c)
	case *ssa.Global:
		if c.Pkg != nil && e.Touched != nil && e.P.InModule(c.Pkg) {
			// the address of a package variable used as a value (a method called on it, a
			// field or element of it addressed): what it holds matters to this evaluation
			e.Touched[c] = true
		}
		return PtrV{G: c}
	case *ssa.Function:
		return FuncV{Fn: c}
	case *ssa.Builtin:
		return TopV{"builtin " + c.Name()}
	}
	if fr.over != nil {
		if a, ok := fr.over[v]; ok {
			return a
		}
	}
	if a, ok := fr.env[v]; ok && a != nil {
		return a
	}
	return TopV{"unevaluated " + v.Name()}
}

func (e *Eval) constVal(c *ssa.Const) AV {
	if c.Value == nil {
		if isErrorType(c.Type()) {
			return ErrV{Kind: ekNil}
		}
		if _, isStruct := c.Type().Underlying().(*types.Struct); isStruct {
			return e.zeroOf(c.Type())
		}
		return NilV{T: c.Type().String()}
	}
	switch c.Value.Kind() {
	case constant.Int:
		if n, ok := constant.Int64Val(c.Value); ok {
			return CInt(n)
		}
		return TopInt("constant beyond int64")
	case constant.String:
		return CStr(constant.StringVal(c.Value))
	case constant.Bool:
		return KBool(constant.BoolVal(c.Value))
	}
	return TopV{"const " + c.Value.String()}
}

func isErrorType(t types.Type) bool {
	n, ok := t.(*types.Named)
	return ok && n.Obj().Pkg() == nil && n.Obj().Name() == "error"
}

// typeRange returns the value range of an integer type under the configuration.
func (e *Eval) typeRange(t types.Type) (lo, hi int64, unsigned bool, bits int, ok bool) {
	b, isB := t.Underlying().(*types.Basic)
	if !isB || b.Info()&types.IsInteger == 0 {
		return
	}
	ib := e.P.Cfg.IntBits()
	switch b.Kind() {
	case types.Int8:
		return math.MinInt8, math.MaxInt8, false, 8, true
	case types.Int16:
		return math.MinInt16, math.MaxInt16, false, 16, true
	case types.Int32:
		return math.MinInt32, math.MaxInt32, false, 32, true
	case types.Int64:
		return math.MinInt64, math.MaxInt64, false, 64, true
	case types.Int, types.UntypedInt:
		if ib == 32 {
			return math.MinInt32, math.MaxInt32, false, 32, true
		}
		return math.MinInt64, math.MaxInt64, false, 64, true
	case types.Uint8:
		return 0, math.MaxUint8, true, 8, true
	case types.Uint16:
		return 0, math.MaxUint16, true, 16, true
	case types.Uint32:
		return 0, math.MaxUint32, true, 32, true
	case types.Uint64:
		return 0, math.MaxInt64, true, 64, true // upper half not representable: checked by callers
	case types.Uint, types.Uintptr:
		if ib == 32 {
			return 0, math.MaxUint32, true, 32, true
		}
		return 0, math.MaxInt64, true, 64, true
	}
	return
}

// fit checks a computed constant against the result type; values that wrap become ⊤.
func (e *Eval) fit(v IntV, t types.Type, T int64) IntV {
	lo, hi, _, _, ok := e.typeRange(t)
	if !ok {
		return v
	}
	if v.Kind == ikLin || v.Kind == ikRange {
		a, b, okb := v.Bounds(T)
		if !okb {
			if v.Kind == ikLin && !v.L.Const() {
				return v // affine in t with unknown T: kept symbolic; uses are checked where they matter
			}
			return TopInt("unbounded")
		}
		if a < lo || b > hi {
			return TopInt(fmt.Sprintf("wraps around in %s", t))
		}
	}
	return v
}

// T is the trip count of the innermost loop being summarised (0: none; -1: unknown).
func (fr *frame) T() int64 {
	if n := len(fr.ev.activeLoops); n > 0 {
		return fr.ev.activeLoops[n-1].T
	}
	return 0
}

// ---------------------------------------------------------------- instructions

func (e *Eval) instr(fr *frame, in ssa.Instruction, st State) {
	switch x := in.(type) {
	case *ssa.DebugRef:
	case *ssa.Alloc:
		fr.env[x] = e.alloc(fr, x, st)
	case *ssa.BinOp:
		fr.env[x] = e.binop(fr, x)
	case *ssa.UnOp:
		fr.env[x] = e.unop(fr, x, st)
	case *ssa.Call:
		fr.env[x] = e.call(fr, x, st)
	case *ssa.Extract:
		if t, ok := e.val(fr, x.Tuple).(TupleV); ok && x.Index < len(t) {
			fr.env[x] = t[x.Index]
		} else {
			fr.env[x] = e.topOf(x.Type(), "extract")
		}
	case *ssa.Convert:
		fr.env[x] = e.convert(fr, x, st)
	case *ssa.ChangeType:
		fr.env[x] = e.val(fr, x.X)
	case *ssa.ChangeInterface:
		fr.env[x] = e.val(fr, x.X)
	case *ssa.MakeInterface:
		v := e.val(fr, x.X)
		if ev, ok := e.customError(fr, x, v, st); ok {
			v = ev
		}
		fr.env[x] = v
	case *ssa.MakeSlice:
		fr.env[x] = e.makeSlice(fr, x, st)
	case *ssa.MakeMap:
		o := e.newObj(okMap, x, "map")
		e.setContentFresh(st, o, MapC{})
		fr.env[x] = CMapV{O: o}
	case *ssa.MakeClosure:
		f := FuncV{Fn: x.Fn.(*ssa.Function)}
		for _, b := range x.Bindings {
			f.Bindings = append(f.Bindings, e.val(fr, b))
		}
		fr.env[x] = f
	case *ssa.Slice:
		fr.env[x] = e.slice(fr, x, st)
	case *ssa.IndexAddr:
		fr.env[x] = e.indexAddr(fr, x, st)
	case *ssa.Index:
		fr.env[x] = e.index(fr, x, st)
	case *ssa.Lookup:
		fr.env[x] = e.lookup(fr, x, st)
	case *ssa.FieldAddr:
		base := e.val(fr, x.X)
		if rv, ok := base.(ResV); ok && rv.Kind == "http.Response" {
			if pt, ok := x.X.Type().Underlying().(*types.Pointer); ok {
				if stt, ok := pt.Elem().Underlying().(*types.Struct); ok && stt.Field(x.Field).Name() == "Body" {
					fr.env[x] = PtrV{Ext: ResV{Kind: "http.Body", A: rv.A, Site: rv.Site}}
					break
				}
			}
		}
		if rv, ok := base.(ResV); ok && rv.Kind == "http.Request" && rv.O != nil {
			if pt, ok := x.X.Type().Underlying().(*types.Pointer); ok {
				if stt, ok := pt.Elem().Underlying().(*types.Struct); ok && stt.Field(x.Field).Name() != "URL" {
					// headers, body, method …: no longer the plain GET of the URL
					e.setContent(fr, st, rv.O, CellC{KBool(true)})
				}
			}
		}
		if p, ok := base.(PtrV); ok && p.O != nil && p.O.Kind == okVec && p.O.Struct {
			if vc, ok := st[p.O].(VecC); ok && x.Field < len(vc.Elems) {
				if af, ok := vc.Elems[x.Field].(ArrFieldV); ok {
					fr.env[x] = PtrV{O: af.O} // the address of the array the field holds
					break
				}
				fr.env[x] = PtrV{Elem: &ElemRef{Base: base, Idx: CInt(int64(x.Field))}}
				break
			}
		}
		if p, ok := base.(PtrV); ok && p.Elem != nil {
			// a field of an element of a package-level table of structs
			if gp, ok := p.Elem.Base.(PtrV); ok && gp.G != nil && e.initMode {
				// the package initialiser fills the table in place: element Idx, field x.Field
				fr.env[x] = PtrV{Elem: &ElemRef{Base: base, Idx: CInt(int64(x.Field))}}
				break
			}
			if vec, ok := p.Elem.Base.(VecV); ok {
				if c, ok := p.Elem.Idx.Const(); ok && c >= 0 && c < int64(len(vec.Elems)) {
					if sv, ok := vec.Elems[c].(VecV); ok && x.Field < len(sv.Elems) {
						fr.env[x] = PtrV{Elem: &ElemRef{Base: sv, Idx: CInt(int64(x.Field))}}
						break
					}
				}
				// the element is not a single one: the field of each candidate, joined when loaded
				var fields []AV
				okAll := len(vec.Elems) > 0
				for _, el := range vec.Elems {
					sv, ok := el.(VecV)
					if !ok || x.Field >= len(sv.Elems) {
						okAll = false
						break
					}
					fields = append(fields, sv.Elems[x.Field])
				}
				if okAll {
					fr.env[x] = PtrV{Elem: &ElemRef{Base: VecV{fields}, Idx: p.Elem.Idx}}
					break
				}
			}
		}
		e.escape(fr, st, base, "field address")
		fr.env[x] = TopV{"field address"}
	case *ssa.Field:
		if v, ok := e.val(fr, x.X).(VecV); ok && x.Field < len(v.Elems) && v.Elems[x.Field] != nil {
			fr.env[x] = v.Elems[x.Field]
			break
		}
		fr.env[x] = e.topOf(x.Type(), "field")
	case *ssa.Store:
		e.store(fr, x, st)
	case *ssa.MapUpdate:
		m := e.val(fr, x.Map)
		if _, isNil := m.(NilV); isNil {
			e.event("P4", Violated, x, "assignment to entry in nil map")
		} else {
			e.event("P4", Discharged, x, "map update on %v", m)
		}
		if _, isC := m.(CMapV); !isC {
			if _, isG := m.(MapV); !isG {
				e.clobber(fr, st, "assignment into a map that is not resolved", okMap)
			}
		}
		if cm, ok := m.(CMapV); ok {
			if mc, ok := st[cm.O].(MapC); ok && mc.Top != "" {
				e.setContent(fr, st, cm.O, mc) // still a mutation (loop summarisation tracks it)
			}
			if mc, ok := st[cm.O].(MapC); ok && mc.Top == "" {
				k, okk := mapKey(e.val(fr, x.Key))
				if !okk || len(e.activeLoops) > 0 && len(mc.Keys) > 64 {
					e.setContent(fr, st, cm.O, MapC{Top: "entries not constant"})
				} else if okk {
					n := MapC{Keys: append([]string{}, mc.Keys...), Vals: append([]AV{}, mc.Vals...)}
					found := false
					for i := range n.Keys {
						if n.Keys[i] == k {
							n.Vals[i] = e.val(fr, x.Value)
							found = true
						}
					}
					if !found {
						n.Keys = append(n.Keys, k)
						n.Vals = append(n.Vals, e.val(fr, x.Value))
					}
					e.setContent(fr, st, cm.O, n)
				}
			}
		}
	case *ssa.TypeAssert:
		if pv, ok := e.val(fr, x.X).(PtrV); ok && pv.O != nil && e.poolObj[pv.O] != nil && types.Identical(e.poolObj[pv.O], x.AssertedType) {
			// what a typed sync.Pool yields, asserted to the type it holds
			e.event("P1", Discharged, x, "type assertion of a value from a sync.Pool that only ever holds %v", x.AssertedType)
			if x.CommaOk {
				fr.env[x] = TupleV{pv, KBool(true)}
			} else {
				fr.env[x] = pv
			}
			break
		}
		if !x.CommaOk {
			// whether it panics depends on the dynamic type, which is not tracked
			e.event("P1", Undecided, x, "type assertion without comma-ok: panics unless the value holds a %v, which is not established", x.AssertedType)
		}
		fr.env[x] = e.topOf(x.Type(), "type assertion")
	case *ssa.Defer:
		var args []AV
		for _, a := range x.Call.Args {
			args = append(args, e.val(fr, a))
		}
		fr.defers = append(fr.defers, deferRec{instr: x, fn: e.val(fr, x.Call.Value), args: args})
		e.event("", Discharged, x, "defer")
	case *ssa.RunDefers:
		for k := range st {
			_ = k
		}
		states := e.runDefers(fr, x, st)
		out := states[0]
		for _, o := range states[1:] {
			out = joinStates(out, o)
		}
		for k := range st {
			delete(st, k)
		}
		for k, v := range out {
			st[k] = v
		}
	case *ssa.Go:
		e.event("E2", Violated, x, "go statement")
	case *ssa.Send, *ssa.Select:
		e.event("E2", Violated, x, "channel operation")
	case *ssa.Range:
		fr.env[x] = TopV{"range iterator"}
	case *ssa.Next:
		fr.env[x] = TupleV{BoolV{}, TopV{"range key"}, TopV{"range value"}}
	case *ssa.MakeChan:
		e.event("E2", Violated, x, "channel creation")
		fr.env[x] = TopV{"chan"}
	case *ssa.SliceToArrayPointer:
		fr.env[x] = TopV{"slice to array pointer"}
	case *ssa.MultiConvert:
		fr.env[x] = e.topOf(x.Type(), "multiconvert")
	default:
		if v, ok := in.(ssa.Value); ok {
			fr.env[v] = e.topOf(v.Type(), fmt.Sprintf("%T", in))
		}
	}
}

func (e *Eval) topOf(t types.Type, why string) AV {
	if t == nil {
		return TopV{why}
	}
	if isErrorType(t) {
		return ErrV{Kind: ekUnknown}
	}
	switch u := t.Underlying().(type) {
	case *types.Basic:
		switch {
		case u.Info()&types.IsInteger != 0:
			return TopInt(why)
		case u.Info()&types.IsString != 0:
			return TopStr(why)
		case u.Info()&types.IsBoolean != 0:
			return BoolV{}
		}
	case *types.Slice:
		if b, ok := u.Elem().Underlying().(*types.Basic); ok && b.Kind() == types.Uint8 {
			return BytesV{Src: "⊤: " + why}
		}
	case *types.Tuple:
		tv := make(TupleV, u.Len())
		for i := range tv {
			tv[i] = e.topOf(u.At(i).Type(), why)
		}
		return tv
	}
	return TopV{why}
}

// escape: an object handed to code the analysis does not model becomes unknown.
func (e *Eval) escape(fr *frame, st State, v AV, why string) {
	switch x := v.(type) {
	case PtrV:
		if x.O != nil {
			e.setContent(fr, st, x.O, topContent(x.O, why))
		}
		if x.Elem != nil {
			e.escape(fr, st, x.Elem.Base, why)
		}
	case BytesV:
		if x.Obj != nil {
			e.setContent(fr, st, x.Obj, topContent(x.Obj, why))
		}
		if x.WinOf != nil {
			e.setContent(fr, st, x.WinOf, topContent(x.WinOf, why))
		}
	case SliceV:
		e.setContent(fr, st, x.O, topContent(x.O, why))
	case CMapV:
		if _, local := st[x.O]; local {
			e.setContent(fr, st, x.O, topContent(x.O, why))
		}
	case HashV:
		e.setContent(fr, st, x.O, topContent(x.O, why))
	case FuncV:
		for _, b := range x.Bindings {
			e.escape(fr, st, b, why)
		}
	case TupleV:
		for _, y := range x {
			e.escape(fr, st, y, why)
		}
	case *TokensV:
		var in ssa.Instruction
		if fr != nil && fr.cur != nil && len(fr.cur.Instrs) > 0 {
			in = fr.cur.Instrs[0]
		}
		e.event("U", Undecided, in, "the token slice (%v) is handed to code that may reorder or overwrite it (%s): the tokens looked up afterwards may not be the tokens of the input", x, why)
	}
}

// clobber: a write through a pointer or slice the analysis cannot resolve may hit any
// tracked object of that kind; all of them become unknown.
func (e *Eval) clobber(fr *frame, st State, why string, kinds ...ObjKind) {
	for o := range st {
		for _, k := range kinds {
			if o.Kind == k {
				e.setContent(fr, st, o, topContent(o, why))
			}
		}
	}
}

func (e *Eval) setContent(fr *frame, st State, o *Obj, c Content) {
	st[o] = c
	for _, lp := range e.activeLoops {
		lp.mutated[o] = true
	}
}

func (e *Eval) alloc(fr *frame, x *ssa.Alloc, st State) AV {
	et := x.Type().Underlying().(*types.Pointer).Elem()
	if isBigInt(et) {
		o := e.newObj(okBig, x, "new(big.Int)")
		e.setContentFresh(st, o, BigLayout(Layout{}))
		return PtrV{O: o}
	}
	if at, ok := et.Underlying().(*types.Array); ok {
		if b, ok := at.Elem().Underlying().(*types.Basic); ok && b.Kind() == types.Uint8 {
			o := e.newObj(okCell, x, "byte array")
			e.setContentFresh(st, o, CellC{BytesV{LenKnown: true, Len: K(at.Len()), HasVal: true, Val: Layout{}, Src: "zero"}})
			return PtrV{O: o}
		}
		if at.Len() <= 4096 {
			o := e.newObj(okVec, x, "array")
			elems := make([]AV, at.Len())
			if _, basic := at.Elem().Underlying().(*types.Basic); basic {
				for i := range elems {
					elems[i] = e.zeroOf(at.Elem())
				}
			}
			e.setContentFresh(st, o, VecC{Elems: elems})
			return PtrV{O: o}
		}
	}
	if isNamed(et, "bytes", "Buffer") && x.Parent() != nil && x.Parent().Pkg != e.P.Gen && (x.Parent().Parent() == nil || x.Parent().Parent().Pkg != e.P.Gen) {
		// in the library a bytes.Buffer is used as a string builder
		o := e.newObj(okSB, x, "bytes.Buffer")
		e.setContentFresh(st, o, SBC{})
		return PtrV{O: o}
	}
	if isNamed(et, "bytes", "Buffer") {
		// a local bytes.Buffer: tracked for the generator (render into memory, then write the file)
		o := e.newObj(okCell, x, "bytes.Buffer")
		e.setContentFresh(st, o, CellC{CStr("")})
		return ResV{Kind: "bytes.Buffer", O: o, Site: x}
	}
	if isNamed(et, "strings", "Builder") {
		o := e.newObj(okSB, x, "strings.Builder")
		e.setContentFresh(st, o, SBC{})
		return PtrV{O: o}
	}
	if stt, ok := et.Underlying().(*types.Struct); ok && stt.NumFields() <= 64 && e.inModuleType(et) {
		// a struct of the module: one abstract value per field
		o := e.newObj(okVec, x, "struct "+et.String())
		o.Struct = true
		elems := make([]AV, stt.NumFields())
		for i := range elems {
			if at, ok := stt.Field(i).Type().Underlying().(*types.Array); ok {
				if b, ok := at.Elem().Underlying().(*types.Basic); ok && b.Kind() == types.Uint8 {
					// a byte array kept in the struct (a fixed buffer next to its cursor): an
					// object of its own, like a local array
					fo := e.newObj(okCell, x, "byte array field "+stt.Field(i).Name())
					e.setContentFresh(st, fo, CellC{BytesV{LenKnown: true, Len: K(at.Len()), HasVal: true, Val: Layout{}, Src: "zero"}})
					elems[i] = ArrFieldV{O: fo}
					continue
				}
			}
			elems[i] = e.zeroOf(stt.Field(i).Type())
		}
		e.setContentFresh(st, o, VecC{Elems: elems})
		return PtrV{O: o}
	}
	o := e.newObj(okCell, x, "local "+x.Comment)
	e.setContentFresh(st, o, CellC{nil})
	return PtrV{O: o}
}

func isNamed(t types.Type, pkg, name string) bool {
	n, ok := t.(*types.Named)
	return ok && n.Obj().Pkg() != nil && n.Obj().Pkg().Path() == pkg && n.Obj().Name() == name
}

// setContentFresh installs the content of a newly allocated object (not a mutation of a carried object).
func (e *Eval) setContentFresh(st State, o *Obj, c Content) { st[o] = c }

func isBigInt(t types.Type) bool {
	n, ok := t.(*types.Named)
	return ok && n.Obj().Pkg() != nil && n.Obj().Pkg().Path() == "math/big" && n.Obj().Name() == "Int"
}

func (e *Eval) makeSlice(fr *frame, x *ssa.MakeSlice, st State) AV {
	n, _ := e.val(fr, x.Len).(IntV)
	c, _ := e.val(fr, x.Cap).(IntV)
	e.checkNonNeg(fr, x, n, "make: length")
	if x.Cap != x.Len {
		e.checkNonNeg(fr, x, c, "make: capacity")
	}
	et := x.Type().Underlying().(*types.Slice).Elem()
	if b, ok := et.Underlying().(*types.Basic); ok {
		switch {
		case b.Kind() == types.Uint8:
			o := e.newObj(okBuf, x, "make([]byte)")
			bv := BytesV{Src: "zero", HasVal: true, Val: Layout{}}
			if n.Kind == ikLin {
				bv.LenKnown, bv.Len = true, n.L
			}
			if n.Kind == ikMinLen {
				bv.LenMin = n.ML
			}
			if n.Kind == ikRange && n.LenOf != "" {
				bv.LenSym = n.LenOf
			}
			e.setContentFresh(st, o, BufC{bv})
			r := bv
			r.Obj = o
			return r
		case b.Info()&types.IsString != 0:
			o := e.newObj(okArr, x, "make([]string)")
			e.setContentFresh(st, o, &ArrC{N: n, id: o.ID})
			return SliceV{O: o}
		}
	}
	// any other element type, constant length: a vector with one abstract value per element
	if c, ok := n.Const(); ok && c >= 0 && c <= 4096 {
		o := e.newObj(okVec, x, "make("+x.Type().String()+")")
		elems := make([]AV, c)
		for i := range elems {
			elems[i] = e.zeroOf(et)
		}
		e.setContentFresh(st, o, VecC{Elems: elems})
		return SliceV{O: o}
	}
	return TopV{"make " + x.Type().String()}
}

func (e *Eval) checkNonNeg(fr *frame, in ssa.Instruction, n IntV, what string) {
	lo, hi, ok := n.Bounds(fr.T())
	switch {
	case !ok:
		e.event("P3", Undecided, in, "%s %v not bounded", what, n)
	case lo < 0:
		e.event("P3", Violated, in, "%s can be negative (%v)", what, n)
	case hi > 1<<32:
		e.event("P3", Undecided, in, "%s can be huge (%v)", what, n)
	default:
		e.event("P3", Discharged, in, "%s in [%d,%d]", what, lo, hi)
	}
}

func (e *Eval) convert(fr *frame, x *ssa.Convert, st State) AV {
	a := e.val(fr, x.X)
	from, to := x.X.Type().Underlying(), x.Type().Underlying()
	if isIntType(to) && isIntType(from) {
		iv, _ := a.(IntV)
		lo, hi, uns, _, _ := e.typeRange(x.Type())
		switch iv.Kind {
		case ikLin, ikRange:
			l, h, ok := iv.Bounds(fr.T())
			if !ok {
				if iv.Kind == ikLin {
					return iv
				}
				return TopInt("conversion of unbounded value")
			}
			if l < lo || h > hi {
				if uns && l < 0 {
					e.event("P3", Violated, x, "conversion of a possibly negative value %v to %s wraps around", iv, x.Type())
				}
				return TopInt(fmt.Sprintf("conversion to %s wraps", x.Type()))
			}
			return iv
		case ikBits:
			w, ok := iv.Bits.Width()
			_, _, _, bits, _ := e.typeRange(x.Type())
			if ok && ((uns && w <= int64(bits)) || (!uns && w < int64(bits))) {
				return iv
			}
			if uns && bits > 0 {
				// conversion to a narrower unsigned type keeps the low bits
				if l, ok := iv.Bits.Low(int64(bits)); ok {
					return BitsInt(l)
				}
			}
			return TopInt("conversion truncates bits")
		}
		return iv
	}
	// string <-> []byte
	if s, ok := a.(StrV); ok {
		if sl, ok := to.(*types.Slice); ok {
			if b, ok := sl.Elem().Underlying().(*types.Basic); ok && b.Kind() == types.Uint8 {
				bv := BytesV{Src: "conv", Str: s}
				if s.Kind == skConst {
					bv.LenKnown, bv.Len = true, K(int64(len(s.S)))
				}
				// a fresh, writable copy of the string's bytes: an object, so that a later store
				// through it is seen by whoever reads it afterwards
				o := e.newObj(okBuf, x, "[]byte(string)")
				e.setContentFresh(st, o, BufC{bv})
				bv.Obj = o
				return bv
			}
		}
	}
	if b, ok := a.(BytesV); ok {
		if bb, ok := to.(*types.Basic); ok && bb.Info()&types.IsString != 0 {
			// the bytes of a known string, unmodified since, are that string
			if cur := e.resolveBytes(b, st); cur.Str != nil && cur.Pending == nil {
				if sv, ok := cur.Str.(StrV); ok {
					return sv
				}
			}
			return StrV{Kind: skTop, S: "string(" + b.String() + ")"}
		}
	}
	return e.topOf(x.Type(), "convert")
}

func (e *Eval) binop(fr *frame, x *ssa.BinOp) AV {
	a, b := e.val(fr, x.X), e.val(fr, x.Y)
	switch x.Op {
	case token.EQL, token.NEQ, token.LSS, token.GTR, token.LEQ, token.GEQ:
		return e.compare(fr, x, a, b)
	}
	if sa, ok := a.(StrV); ok {
		if sb, ok := b.(StrV); ok && x.Op == token.ADD {
			if sa.Kind == skConst && sb.Kind == skConst {
				return CStr(sa.S + sb.S)
			}
			var parts []AV
			for _, s := range []StrV{sa, sb} {
				if s.Kind == skConcat {
					parts = append(parts, s.Parts...)
				} else {
					parts = append(parts, s)
				}
			}
			return StrV{Kind: skConcat, Parts: parts}
		}
		return TopStr("string op")
	}
	ia, oka := a.(IntV)
	ib, okb := b.(IntV)
	if !oka || !okb {
		if bva, ok := a.(BoolV); ok {
			if bvb, ok := b.(BoolV); ok && bva.Known && bvb.Known {
				switch x.Op {
				case token.AND:
					return KBool(bva.Val && bvb.Val)
				case token.OR:
					return KBool(bva.Val || bvb.Val)
				}
			}
			return BoolV{}
		}
		return e.topOf(x.Type(), "binop "+x.Op.String())
	}
	r := e.arith(fr, x, ia, ib)
	if lp := e.loopOf(fr); lp != nil && r.Kind == ikTop && ia.Kind != ikTop && ib.Kind != ikTop {
		// the summary (operands as functions of the iteration number) has no form for this
		// operation; an iteration-by-iteration evaluation computes with the numbers themselves
		lp.imprecise = true
	}
	return e.fit(r, x.Type(), fr.T())
}

// maskRun: c = ((1<<w)-1) << lo, a single run of w ones starting at bit lo.
func maskRun(c int64) (lo, w int64, ok bool) {
	if c <= 0 {
		return 0, 0, false
	}
	for c&1 == 0 {
		c >>= 1
		lo++
	}
	k, ok := maskWidth(c)
	return lo, k, ok
}

func (e *Eval) arith(fr *frame, x *ssa.BinOp, a, b IntV) IntV {
	if x.Op == token.ADD && (a.Sep != nil || b.Sep != nil) {
		s, o := a, b
		if s.Sep == nil {
			s, o = b, a
		}
		if c, ok := o.Const(); ok && o.Sep == nil && c >= 0 && c < 16 {
			r := RangeInt(s.Lo+c, s.Hi)
			ref := *s.Sep
			ref.Off += c
			r.Sep = &ref
			return r
		}
	}
	if a.Kind == ikMinLen || b.Kind == ikMinLen {
		ca, aC := a.Const()
		cb, bC := b.Const()
		switch {
		case x.Op == token.ADD && a.Kind == ikMinLen && bC:
			m := *a.ML
			m.Const += cb
			return IntV{Kind: ikMinLen, ML: &m}
		case x.Op == token.ADD && b.Kind == ikMinLen && aC:
			m := *b.ML
			m.Const += ca
			return IntV{Kind: ikMinLen, ML: &m}
		case x.Op == token.SUB && a.Kind == ikMinLen && bC:
			m := *a.ML
			m.Const -= cb
			return IntV{Kind: ikMinLen, ML: &m}
		case x.Op == token.SUB && b.Kind == ikMinLen && aC:
			m := *b.ML
			m.Const, m.Coef = ca-m.Const, -m.Coef
			return IntV{Kind: ikMinLen, ML: &m}
		case x.Op == token.SUB && a.Kind == ikMinLen && b.Kind == ikMinLen && a.ML.Sym == b.ML.Sym && a.ML.Coef == b.ML.Coef:
			return CInt(a.ML.Const - b.ML.Const)
		}
		la, ha, oka := a.Bounds(0)
		lb, hb, okb := b.Bounds(0)
		if oka && okb && x.Op == token.ADD {
			return RangeInt(la+lb, ha+hb)
		}
		if oka && okb && x.Op == token.SUB {
			return RangeInt(la-hb, ha-lb)
		}
		return TopInt("arithmetic on a value-dependent length")
	}
	T := fr.T()
	ca, aConst := a.Const()
	cb, bConst := b.Const()
	switch x.Op {
	case token.ADD:
		if a.Kind == ikLin && b.Kind == ikLin {
			return LinInt(a.L.Add(b.L))
		}
		if a.Kind == ikBits && b.Kind == ikBits {
			if l, ok := AddDisjoint(a.Bits, b.Bits); ok {
				return BitsInt(l)
			}
		}
		if aConst && ca == 0 && b.Kind == ikBits {
			return b
		}
		if bConst && cb == 0 && a.Kind == ikBits {
			return a
		}
		return rangeArith(a, b, T, func(p, q int64) (int64, bool) { return addOv(p, q) })
	case token.SUB:
		if a.Kind == ikLin && b.Kind == ikLin {
			return LinInt(a.L.Sub(b.L))
		}
		return rangeArith(a, IntV{Kind: ikRange, Lo: negBound(b, T, true), Hi: negBound(b, T, false)}, T, func(p, q int64) (int64, bool) { return addOv(p, q) })
	case token.MUL:
		for _, pr := range [][2]IntV{{a, b}, {b, a}} {
			if c, ok := pr[1].Const(); ok && pr[0].Kind == ikBits {
				if k, ok := log2exact(c); ok {
					return BitsInt(pr[0].Bits.Shl(K(k)))
				}
			}
		}
		if a.Kind == ikLin && bConst {
			if r, ok := mulOv(a.L.A, cb); ok {
				if r2, ok := mulOv(a.L.B, cb); ok {
					return LinInt(Lin{r, r2})
				}
			}
			return TopInt("overflow")
		}
		if b.Kind == ikLin && aConst {
			if r, ok := mulOv(b.L.A, ca); ok {
				if r2, ok := mulOv(b.L.B, ca); ok {
					return LinInt(Lin{r, r2})
				}
			}
			return TopInt("overflow")
		}
		if l1, h1, ok := a.Bounds(T); ok {
			if l2, h2, ok := b.Bounds(T); ok && a.Kind != ikBits && b.Kind != ikBits {
				// interval product: the extremes are among the four corner products
				lo, hi := int64(math.MaxInt64), int64(math.MinInt64)
				for _, pq := range [][2]int64{{l1, l2}, {l1, h2}, {h1, l2}, {h1, h2}} {
					r, ok := mulOv(pq[0], pq[1])
					if !ok {
						return TopInt("product overflows")
					}
					if r < lo {
						lo = r
					}
					if r > hi {
						hi = r
					}
				}
				return RangeInt(lo, hi)
			}
		}
		return TopInt("product of non-constants")
	case token.QUO, token.REM:
		lo, hi, ok := b.Bounds(T)
		switch {
		case !ok:
			e.event("P3", Undecided, x, "divisor %v not bounded", b)
		case lo <= 0 && hi >= 0:
			e.event("P3", Violated, x, "integer divisor can be zero (%v)", b)
		default:
			e.event("P3", Discharged, x, "integer divisor %v is non-zero", b)
		}
		if aConst && bConst && cb != 0 {
			if x.Op == token.QUO {
				return CInt(ca / cb)
			}
			return CInt(ca % cb)
		}
		if a.Kind == ikBits && bConst {
			if k, ok := log2exact(cb); ok {
				if x.Op == token.QUO {
					if l, ok := a.Bits.Shr(k); ok {
						return BitsInt(l)
					}
				} else if l, ok := a.Bits.Low(k); ok {
					return BitsInt(l)
				}
			}
		}
		if bConst && cb > 0 {
			if l, h, ok := a.Bounds(T); ok && a.Kind != ikLin {
				if x.Op == token.QUO {
					return RangeInt(l/cb, h/cb)
				}
				if l >= 0 {
					return RangeInt(0, minI(h, cb-1))
				}
				return RangeInt(-(cb - 1), cb-1)
			}
		}
		return TopInt("quotient of non-constants")
	case token.SHL, token.SHR:
		lo, hi, ok := b.Bounds(T)
		_, _, _, bits, _ := e.typeRange(x.Type())
		switch {
		case !ok:
			e.event("P3", Undecided, x, "shift count %v not bounded", b)
			return TopInt("shift by unknown")
		case lo < 0:
			e.event("P3", Violated, x, "shift count can be negative (%v)", b)
			return TopInt("negative shift")
		default:
			e.event("P3", Discharged, x, "shift count in [%d,%d]", lo, hi)
		}
		if aConst && bConst {
			if cb >= int64(bits) {
				if x.Op == token.SHL || ca >= 0 {
					return CInt(0)
				}
				return CInt(-1)
			}
			if x.Op == token.SHL {
				r := ca << uint(cb)
				if r>>uint(cb) != ca {
					return TopInt("shift overflows")
				}
				return CInt(r)
			}
			return CInt(ca >> uint(cb))
		}
		if a.Kind == ikBits && bConst && x.Op == token.SHR {
			if l, ok := a.Bits.Shr(cb); ok {
				return BitsInt(l)
			}
		}
		if a.Kind == ikBits && bConst && x.Op == token.SHL {
			sh := a.Bits.Shl(K(cb))
			// a machine integer keeps only the low bits of the shifted value
			tlo, _, _, tb, okT := e.typeRange(x.Type())
			if okT && tb > 0 {
				w, okw := sh.DeclWidth()
				switch {
				case okw && w <= int64(tb) && (tlo == 0 || w < int64(tb)):
					// fits: nothing is lost (and, for a signed type, the sign bit stays clear)
				case tlo == 0:
					if low, ok := sh.Low(int64(tb)); ok {
						return BitsInt(low)
					}
					return TopInt("shift overflows")
				default:
					return TopInt("shift overflows a signed integer")
				}
			}
			return BitsInt(sh)
		}
		if bConst && cb < int64(bits) && a.Kind == ikRange {
			// an interval shifted by a constant
			if x.Op == token.SHR {
				return RangeInt(a.Lo>>uint(cb), a.Hi>>uint(cb))
			}
			l, okl := mulOv(a.Lo, int64(1)<<uint(cb))
			h, okh := mulOv(a.Hi, int64(1)<<uint(cb))
			if okl && okh && cb < 62 {
				return e.fit(RangeInt(l, h), x.Type(), T)
			}
		}
		return TopInt("shift of non-constant")
	case token.AND:
		if aConst && bConst {
			return CInt(ca & cb)
		}
		if aConst && !bConst {
			a, b, ca, cb, aConst, bConst = b, a, cb, ca, bConst, aConst
		}
		if bConst && cb >= 0 {
			if a.Kind == ikBits {
				if k, ok := maskWidth(cb); ok {
					if l, ok := a.Bits.Low(k); ok {
						return BitsInt(l)
					}
				}
				// a run of ones that does not start at bit 0 (0xf0, 0xfc…): those bits stay where
				// they are, the bits below them become zero
				if lo, w, ok := maskRun(cb); ok && lo > 0 {
					if l, ok := a.Bits.Slice(lo, w); ok {
						out := Layout{{W: K(lo)}}
						out = append(out, l...)
						return BitsInt(out.Norm())
					}
				}
			}
			return RangeInt(0, cb)
		}
		return TopInt("and")
	case token.OR, token.XOR:
		if aConst && bConst {
			if x.Op == token.OR {
				return CInt(ca | cb)
			}
			return CInt(ca ^ cb)
		}
		if a.Kind == ikBits && b.Kind == ikBits {
			// disjoint supports: or, xor and + coincide
			if l, ok := AddDisjoint(a.Bits, b.Bits); ok {
				return BitsInt(l)
			}
		}
		if aConst && ca == 0 && b.Kind == ikBits {
			return b
		}
		if bConst && cb == 0 && a.Kind == ikBits {
			return a
		}
		return TopInt("or/xor")
	case token.AND_NOT:
		if aConst && bConst {
			return CInt(ca &^ cb)
		}
	}
	return TopInt("binop " + x.Op.String())
}

func maskWidth(m int64) (int64, bool) {
	for k := int64(0); k < 63; k++ {
		if m == (int64(1)<<uint(k))-1 {
			return k, true
		}
	}
	return 0, false
}

func log2exact(n int64) (int64, bool) {
	for k := int64(0); k < 63; k++ {
		if n == int64(1)<<uint(k) {
			return k, true
		}
	}
	return 0, false
}

func addOv(a, b int64) (int64, bool) {
	if (b > 0 && a > math.MaxInt64-b) || (b < 0 && a < math.MinInt64-b) {
		return 0, false
	}
	return a + b, true
}
func mulOv(a, b int64) (int64, bool) {
	if a == 0 || b == 0 {
		return 0, true
	}
	p := a * b
	if p/b != a || (a == -1 && b == math.MinInt64) || (b == -1 && a == math.MinInt64) {
		return 0, false
	}
	return p, true
}

func negBound(v IntV, T int64, low bool) int64 {
	lo, hi, ok := v.Bounds(T)
	if !ok {
		if low {
			return math.MinInt64
		}
		return math.MaxInt64
	}
	if low {
		if hi == math.MinInt64 {
			return math.MaxInt64
		}
		return -hi
	}
	if lo == math.MinInt64 {
		return math.MaxInt64
	}
	return -lo
}

func rangeArith(a, b IntV, T int64, f func(p, q int64) (int64, bool)) IntV {
	l1, h1, ok1 := a.Bounds(T)
	l2, h2, ok2 := b.Bounds(T)
	if !ok1 || !ok2 {
		return TopInt("unbounded operand")
	}
	lo, okl := f(l1, l2)
	hi, okh := f(h1, h2)
	if !okl || !okh {
		return TopInt("overflow")
	}
	return RangeInt(lo, hi)
}

// compareInd: `ind op k` for an indicator (1 iff its condition holds, else 0) and a constant.
func (e *Eval) compareInd(x *ssa.BinOp, iv IndV, other AV, op token.Token) AV {
	other2, ok := other.(IntV)
	k, isConst := other2.Const()
	if !ok || !isConst {
		return BoolV{C: &Cond{Kind: "other", Desc: fmt.Sprintf("%v %s %v", iv, op, other)}}
	}
	at1, at0 := cmpHolds(1, op, k), cmpHolds(0, op, k)
	switch {
	case at1 && at0:
		return KBool(true)
	case !at1 && !at0:
		return KBool(false)
	case at1:
		return BoolV{C: iv.C}
	default:
		return BoolV{C: iv.C, Neg: true}
	}
}

// sentenceNonEmpty: s is the one string argument of the entry point (or its NFKD form) in a
// context where the tokeniser yields at least two tokens.
func (e *Eval) sentenceNonEmpty(s StrV) bool {
	if s.Kind == skNFKD {
		inner, ok := s.X.(StrV)
		if !ok {
			return false
		}
		s = inner
	}
	if s.Kind != skRaw || e.rawStrParams != 1 || e.Ctx == nil {
		return false
	}
	switch {
	case e.Ctx.TokCount != nil:
		return *e.Ctx.TokCount >= 2
	case e.Ctx.SizeRange != nil && e.Ctx.SizeKind == "N":
		return e.Ctx.SizeRange[0] >= 2
	}
	return false
}

func (e *Eval) compare(fr *frame, x *ssa.BinOp, a, b AV) AV {
	T := fr.T()
	if x.Op == token.EQL || x.Op == token.NEQ {
		// `ok == false`, `true != found`: the other operand, negated or not
		if ba, ok := a.(BoolV); ok {
			if bb, ok := b.(BoolV); ok {
				if ba.Known && !bb.Known {
					ba, bb = bb, ba
				}
				if bb.Known {
					same := bb.Val == (x.Op == token.EQL) // the result is ba itself
					switch {
					case ba.Known:
						return KBool(ba.Val == same)
					case ba.C == nil:
						return BoolV{}
					case same:
						return ba
					default:
						ba.Neg = !ba.Neg
						return ba
					}
				}
			}
		}
	}
	if cv, ok := a.(CmpV); ok {
		if ib, ok := b.(IntV); ok {
			if c, ok := ib.Const(); ok && c == 0 {
				return BoolV{C: &Cond{Kind: "bigcmp", Op: x.Op, A: cv.A, B: cv.B}}
			}
		}
		return BoolV{C: &Cond{Kind: "other", Desc: fmt.Sprintf("%v %s %v", a, x.Op, b)}}
	}
	if iv, ok := b.(IndV); ok {
		if _, isInd := a.(IndV); !isInd {
			// constant on the left: same comparison with the sides exchanged
			return e.compareInd(x, iv, a, flipOp(x.Op))
		}
	}
	if iv, ok := a.(IndV); ok {
		return e.compareInd(x, iv, b, x.Op)
	}
	if ia, ok := a.(IntV); ok {
		if ib, ok := b.(IntV); ok {
			// decide if every possible pair gives the same answer (for every t of the current loop)
			l1, h1, ok1 := ia.Bounds(T)
			l2, h2, ok2 := ib.Bounds(T)
			if ok1 && ok2 {
				all, none := true, true
				check := func(p, q int64) {
					if cmpHolds(p, x.Op, q) {
						none = false
					} else {
						all = false
					}
				}
				switch x.Op {
				case token.EQL, token.NEQ:
					if h1 < l2 || h2 < l1 { // disjoint
						return KBool(x.Op == token.NEQ)
					}
					if l1 == h1 && l2 == h2 && l1 == l2 {
						return KBool(x.Op == token.EQL)
					}
					all, none = false, false
				default:
					check(l1, l2)
					check(l1, h2)
					check(h1, l2)
					check(h1, h2)
				}
				if all {
					return KBool(true)
				}
				if none {
					return KBool(false)
				}
			}
			return BoolV{C: &Cond{Kind: "intcmp", Op: x.Op, A: ia, B: ib}}
		}
	}
	if sa, ok := a.(StrV); ok {
		if sb, ok := b.(StrV); ok {
			// the sentence that the tokeniser cuts into at least two tokens is not empty (nor is
			// its NFKD form: normalisation never deletes a character)
			if (x.Op == token.EQL || x.Op == token.NEQ) && (sa.Kind == skConst && sa.S == "" && e.sentenceNonEmpty(sb) || sb.Kind == skConst && sb.S == "" && e.sentenceNonEmpty(sa)) {
				return KBool(x.Op == token.NEQ)
			}
			if sa.Kind == skConst && sb.Kind == skConst {
				switch x.Op {
				case token.EQL:
					return KBool(sa.S == sb.S)
				case token.NEQ:
					return KBool(sa.S != sb.S)
				}
			}
			return BoolV{C: &Cond{Kind: "strcmp", Op: x.Op, A: sa, B: sb}}
		}
	}
	// nil comparisons
	isNil := func(v AV) bool {
		switch y := v.(type) {
		case NilV:
			return true
		case ErrV:
			return y.Kind == ekNil
		}
		return false
	}
	if isNil(b) || isNil(a) {
		o := a
		if isNil(a) {
			o = b
		}
		if isNil(o) {
			return KBool(x.Op == token.EQL)
		}
		if ev, ok := o.(ErrV); ok {
			switch ev.Kind {
			case ekSentinel, ekWrap, ekFresh:
				return KBool(x.Op == token.NEQ)
			}
			if ev.NonNil {
				return KBool(x.Op == token.NEQ)
			}
		}
		if lv, ok := o.(*ListV); ok && lv != nil && len(lv.Elems) > 0 {
			// a package-level word list (a literal with elements, never assigned: E1): not nil
			if lv.G != nil {
				e.Relied[lv.G] = true
			}
			return KBool(x.Op == token.NEQ)
		}
		if gv, ok := o.(GlobalValV); ok && e.G != nil && gv.G != nil {
			// the value of an interface-typed package variable whose declaration gives it a
			// non-nil value (the randomness source) and that nothing but tests assigns (E1, F3b)
			if iv, ok := e.G.Init[gv.G]; ok && iv != nil {
				if _, isNilV := iv.(NilV); !isNilV {
					if _, isTop := iv.(TopV); !isTop {
						e.Relied[gv.G] = true
						return KBool(x.Op == token.NEQ)
					}
				}
			}
		}
		if pv, ok := o.(PtrV); ok && (pv.G != nil || pv.O != nil || pv.Elem != nil) {
			// the address of a variable, of an allocated object, or of an element: not nil
			return KBool(x.Op == token.NEQ)
		}
		if mv, ok := o.(MapV); ok {
			if e.G != nil && mv.G != nil && e.G.MapNonNil[mv.G] {
				return KBool(x.Op == token.NEQ) // T3: read only after it was built with make
			}
			return BoolV{C: &Cond{Kind: "isnil", Op: x.Op, A: o}}
		}
		return BoolV{C: &Cond{Kind: "isnil", Op: x.Op, A: o}}
	}
	if ba, ok := a.(BoolV); ok {
		if bb, ok := b.(BoolV); ok && ba.Known && bb.Known {
			return KBool((ba.Val == bb.Val) == (x.Op == token.EQL))
		}
	}
	return BoolV{C: &Cond{Kind: "ifaceeq", Op: x.Op, A: a, B: b}}
}

func (e *Eval) unop(fr *frame, x *ssa.UnOp, st State) AV {
	a := e.val(fr, x.X)
	switch x.Op {
	case token.NOT:
		if b, ok := a.(BoolV); ok {
			if b.Known {
				return KBool(!b.Val)
			}
			b.Neg = !b.Neg
			return b
		}
		return BoolV{}
	case token.SUB:
		if i, ok := a.(IntV); ok && i.Kind == ikLin {
			return e.fit(LinInt(Lin{-i.L.A, -i.L.B}), x.Type(), fr.T())
		}
		return e.topOf(x.Type(), "negation")
	case token.XOR:
		if i, ok := a.(IntV); ok {
			if c, ok := i.Const(); ok {
				return e.fit(CInt(^c), x.Type(), fr.T())
			}
		}
		return e.topOf(x.Type(), "complement")
	case token.MUL:
		return e.load(fr, x, a, st)
	case token.ARROW:
		e.event("E2", Violated, x, "channel receive")
	}
	return e.topOf(x.Type(), "unop")
}

func (e *Eval) load(fr *frame, x *ssa.UnOp, a AV, st State) AV {
	p, ok := a.(PtrV)
	if !ok {
		return e.topOf(x.Type(), "load through "+a.String())
	}
	switch {
	case p.Ext != nil:
		return p.Ext
	case p.G != nil:
		return e.loadGlobal(fr, p.G, x.Type())
	case p.O != nil:
		switch c := st[p.O].(type) {
		case CellC:
			if c.V == nil {
				return e.zeroOf(x.Type())
			}
			if bv, ok := c.V.(BytesV); ok && bv.Obj != nil {
				if _, isArr := x.Type().Underlying().(*types.Array); isArr {
					// the array copied by value: its current content, no longer tied to the buffer
					return stripObj(e.resolveBytes(bv, st))
				}
			}
			if _, isErr := c.V.(ErrV); isErr {
				// an error kept in a variable (a named result read by a deferred clean-up): what
				// this path knows about the call it came from still holds
				return e.errOnPath(c.V, st)
			}
			return c.V
		case VecC:
			return VecV{append([]AV{}, c.Elems...)}
		case BigC:
			return TopV{"big.Int copied by value"}
		}
		return e.topOf(x.Type(), "load of object")
	case p.Elem != nil:
		return e.loadElem(fr, x, p.Elem, st)
	}
	return e.topOf(x.Type(), "load")
}

func (e *Eval) zeroOf(t types.Type) AV {
	if isErrorType(t) {
		return ErrV{Kind: ekNil}
	}
	switch u := t.Underlying().(type) {
	case *types.Basic:
		switch {
		case u.Info()&types.IsInteger != 0:
			return CInt(0)
		case u.Info()&types.IsString != 0:
			return CStr("")
		case u.Info()&types.IsBoolean != 0:
			return KBool(false)
		}
	case *types.Slice, *types.Map, *types.Pointer, *types.Interface, *types.Signature:
		return NilV{T: t.String()}
	case *types.Struct:
		if u.NumFields() <= 64 {
			elems := make([]AV, u.NumFields())
			for i := range elems {
				elems[i] = e.zeroOf(u.Field(i).Type())
			}
			return VecV{elems}
		}
	}
	return TopV{"zero " + t.String()}
}

func (e *Eval) loadElem(fr *frame, x ssa.Instruction, el *ElemRef, st State) AV {
	switch b := el.Base.(type) {
	case *ListV:
		return StrV{Kind: skElem, List: b, Idx: el.Idx}
	case *TokensV:
		return StrV{Kind: skTok, Toks: b, Idx: el.Idx}
	case BytesV:
		// one byte of a byte string with known content
		src := e.resolveBytes(b, st)
		if c, ok := el.Idx.Const(); ok && src.ConstAt != nil && src.LenKnown && src.Len.Const() && c >= 0 && c < src.Len.A {
			if x, has := src.ConstAt[c]; has {
				return CInt(x)
			}
			return CInt(0) // never stored: still the zero the array started with
		}
		if c, ok := el.Idx.Const(); ok && src.LenKnown && src.Len.Const() && src.HasVal && !src.Min && c >= 0 && c < src.Len.A {
			if v, ok := src.Val.Slice(8*(src.Len.A-1-c), 8); ok {
				return BitsInt(v)
			}
		}
		return RangeInt(0, 255)
	case VecV:
		if c, ok := el.Idx.Const(); ok && c >= 0 && c < int64(len(b.Elems)) && b.Elems[c] != nil {
			return b.Elems[c]
		}
		// unknown index: join of all elements
		if fr.loop != nil {
			fr.loop.imprecise = true // an iteration-by-iteration evaluation would know which element
		}
		var cur AV
		for _, v := range b.Elems {
			cur = joinAV(cur, v)
		}
		if r, ok := cur.(IntV); ok && r.Kind == ikRange && el.Idx.Kind == ikLin {
			// an index affine in the iteration number into a table of constants
			vals := make([]int64, len(b.Elems))
			all := true
			for i, v := range b.Elems {
				iv, ok := v.(IntV)
				c, okc := iv.Const()
				if !ok || !okc {
					all = false
					break
				}
				vals[i] = c
			}
			if all {
				r.Tab = &TabRef{Vals: vals, Idx: el.Idx.L}
				return r
			}
		}
		if cur != nil {
			return cur
		}
	case PtrV:
		if b.O != nil {
			if vc, ok := st[b.O].(VecC); ok {
				if c, ok := el.Idx.Const(); ok && c >= 0 && c < int64(len(vc.Elems)) && vc.Elems[c] != nil {
					return vc.Elems[c]
				}
				if _, isConst := el.Idx.Const(); !isConst && fr.loop != nil {
					// which element depends on the iteration: an iteration-by-iteration evaluation
					// of the enclosing loop would know
					fr.loop.imprecise = true
				}
			}
			if cc, ok := st[b.O].(CellC); ok {
				if bv, ok := cc.V.(BytesV); ok {
					return e.loadElem(fr, x, &ElemRef{Base: bv, Idx: el.Idx}, st)
				}
			}
		}
	case SliceV:
		if ac, ok := st[b.O].(*ArrC); ok && ac.Top == "" && fr.loop == nil {
			if c, ok := el.Idx.Const(); ok && c >= 0 && c < int64(len(ac.Elems)) && ac.Elems[c] != nil {
				return ac.Elems[c]
			}
		}
		if vc, ok := st[b.O].(VecC); ok && len(vc.Elems) > 0 {
			if c, ok := el.Idx.Const(); ok && c >= 0 && c < int64(len(vc.Elems)) && vc.Elems[c] != nil {
				return vc.Elems[c]
			}
			// an index that is not a constant: the join of the elements — an iteration-by-iteration
			// evaluation of the enclosing loop would know which one
			if fr.loop != nil {
				fr.loop.imprecise = true
			}
			var cur AV
			for _, v := range vc.Elems {
				cur = joinAV(cur, v)
			}
			if cur != nil {
				return cur
			}
		}
		if ac, ok := st[b.O].(*ArrC); ok && ac.Top == "" && len(ac.Stores) == 0 && len(ac.Elems) > 0 && el.Idx.Kind == ikLin && !el.Idx.L.Const() {
			// a fully written slice read back in a later loop: the element of that iteration
			snap := *ac
			return StrV{Kind: skArrElem, Arr: &snap, Idx: el.Idx}
		}
	}
	if v, ok := x.(ssa.Value); ok {
		return e.topOf(v.Type(), "element load")
	}
	return TopV{"element load"}
}

// ---------------------------------------------------------------- indexing

func (e *Eval) lenOf(fr *frame, a AV, st State) IntV {
	switch v := a.(type) {
	case BytesV:
		if v.Obj != nil {
			if bc, ok := st[v.Obj].(BufC); ok && bc.B.LenKnown && !v.LenKnown {
				return LinInt(bc.B.Len)
			}
		}
		if v.LenKnown {
			return LinInt(v.Len)
		}
		if v.LenMin != nil {
			return IntV{Kind: ikMinLen, ML: v.LenMin}
		}
		if v.LenSym != "" {
			n := RangeInt(0, math.MaxInt32)
			n.LenOf = v.LenSym
			return n
		}
		if v.Param != nil && e.Ctx != nil && e.Ctx.SizeRange != nil && e.Ctx.SizeKind == "L" {
			return RangeInt(e.Ctx.SizeRange[0], e.Ctx.SizeRange[1])
		}
		return RangeInt(0, math.MaxInt32)
	case *ListV:
		return CInt(int64(len(v.Elems)))
	case *TokensV:
		n := v.N
		if n.Kind == ikRange {
			n.LenOf = fmt.Sprintf("tokens@%p", v)
		}
		return n
	case SliceV:
		if ac, ok := st[v.O].(*ArrC); ok {
			return ac.N
		}
		if vc, ok := st[v.O].(VecC); ok {
			if len(vc.Elems) == 0 {
				// contents unknown (⊤): the length is that of the array allocated
				if al, ok := v.O.Site.(*ssa.Alloc); ok {
					if at, ok := al.Type().Underlying().(*types.Pointer).Elem().Underlying().(*types.Array); ok {
						return CInt(at.Len())
					}
				}
				return RangeInt(0, math.MaxInt32)
			}
			return CInt(int64(len(vc.Elems)))
		}
	case VecV:
		return CInt(int64(len(v.Elems)))
	case StrV:
		if v.Kind == skConst {
			return CInt(int64(len(v.S)))
		}
		n := RangeInt(0, math.MaxInt32)
		n.LenOf = "str:" + v.String()
		return n
	case NilV:
		return CInt(0)
	case MapV:
		return RangeInt(0, math.MaxInt32)
	case CMapV:
		if mc, ok := st[v.O].(MapC); ok && mc.Top == "" {
			return CInt(int64(len(mc.Keys)))
		}
		return RangeInt(0, math.MaxInt32)
	}
	return TopInt("len of " + a.String())
}

func (e *Eval) boundsCheck(fr *frame, in ssa.Instruction, idx IntV, n IntV, what string) {
	lo, hi, ok := idx.Bounds(fr.T())
	nlo, _, nok := n.Bounds(fr.T())
	if !(ok && nok && lo >= 0 && hi < nlo) {
		// relational: the dominating comparisons say 0 <= index < len(this very slice)
		var iv, bv ssa.Value
		switch x := in.(type) {
		case *ssa.IndexAddr:
			iv, bv = x.Index, x.X
		case *ssa.Index:
			iv, bv = x.Index, x.X
		case *ssa.Lookup:
			iv, bv = x.Index, x.X
		}
		if iv != nil && e.relBound(fr, in.Block(), iv, bv, idx, true) {
			e.event("P2", Discharged, in, "%s: the index is compared with len of the same value on every path here and is not negative", what)
			return
		}
	}
	switch {
	case !ok || !nok:
		e.event("P2", Undecided, in, "%s: index %v against length %v cannot be bounded", what, idx, n)
	case lo < 0 || hi >= nlo:
		e.event("P2", Violated, in, "%s: index %v can leave [0,%v)", what, idx, n)
	default:
		e.event("P2", Discharged, in, "%s: index in [%d,%d] < %d", what, lo, hi, nlo)
	}
}

func (e *Eval) indexAddr(fr *frame, x *ssa.IndexAddr, st State) AV {
	base := e.val(fr, x.X)
	idx, _ := e.val(fr, x.Index).(IntV)
	if _, ok := e.val(fr, x.Index).(IntV); !ok {
		idx = TopInt("index")
	}
	var n IntV
	switch b := base.(type) {
	case PtrV:
		switch {
		case b.G != nil:
			// pointer to a global array
			if at, ok := b.G.Type().Underlying().(*types.Pointer).Elem().Underlying().(*types.Array); ok {
				n = CInt(at.Len())
				e.boundsCheck(fr, x, idx, n, "array "+b.G.Name())
				if e.initMode {
					return PtrV{Elem: &ElemRef{Base: base, Idx: idx}} // the initialiser fills the array in place
				}
				if vec := e.G.vecOf(e, b.G); vec != nil {
					return PtrV{Elem: &ElemRef{Base: *vec, Idx: idx}}
				}
				return PtrV{Elem: &ElemRef{Base: base, Idx: idx}}
			}
		case b.O != nil:
			switch c := st[b.O].(type) {
			case VecC:
				n = CInt(int64(len(c.Elems)))
				e.boundsCheck(fr, x, idx, n, "local array")
				return PtrV{Elem: &ElemRef{Base: base, Idx: idx}}
			case CellC:
				if bv, ok := c.V.(BytesV); ok && bv.LenKnown {
					e.boundsCheck(fr, x, idx, LinInt(bv.Len), "byte array")
					return PtrV{Elem: &ElemRef{Base: base, Idx: idx}}
				}
			}
		}
	default:
		n = e.lenOf(fr, base, st)
		e.boundsCheck(fr, x, idx, n, "slice "+shortAV(base))
		if l, ok := base.(*ListV); ok {
			e.Calls = append(e.Calls, CallRec{Callee: "listindex", Instr: x, Fn: fr.fn, Args: []AV{l, idx}, InLoop: len(e.activeLoops) > 0})
		}
		return PtrV{Elem: &ElemRef{Base: base, Idx: idx}}
	}
	e.event("P2", Undecided, x, "index into %v not modelled", base)
	return PtrV{Elem: &ElemRef{Base: base, Idx: idx}}
}

func shortAV(a AV) string {
	s := a.String()
	if len(s) > 60 {
		return s[:60] + "…"
	}
	return s
}

func (e *Eval) index(fr *frame, x *ssa.Index, st State) AV {
	base := e.val(fr, x.X)
	idx, ok := e.val(fr, x.Index).(IntV)
	if !ok {
		idx = TopInt("index")
	}
	n := e.lenOf(fr, base, st)
	if at, ok := x.X.Type().Underlying().(*types.Array); ok {
		n = CInt(at.Len())
	}
	e.boundsCheck(fr, x, idx, n, "index "+shortAV(base))
	if s, ok := base.(StrV); ok && s.Kind == skConst {
		if c, ok := idx.Const(); ok && c >= 0 && c < int64(len(s.S)) {
			return CInt(int64(s.S[c]))
		}
	}
	if s, ok := base.(StrV); ok {
		// one byte of a string
		b := RangeInt(0, 255)
		b.SB = &StrByte{S: s, Idx: idx}
		return b
	}
	return e.loadElem(fr, x, &ElemRef{Base: base, Idx: idx}, st)
}

func (e *Eval) slice(fr *frame, x *ssa.Slice, st State) AV {
	base := e.val(fr, x.X)
	if sv, ok := base.(StrV); ok && x.Max == nil {
		// rest[:end] / rest[end+1:] with end the position of the next separator in what is left
		// of a sentence cut word by word: the next token / what is left after it
		if toks, k, ok := e.cursorOf(sv); ok && sv.Kind != skTok {
			pick := func(v ssa.Value) (*SepRef, bool) {
				if v == nil {
					return nil, false
				}
				iv, ok := e.val(fr, v).(IntV)
				return iv.Sep, ok && iv.Sep != nil
			}
			n, okN := toks.N.Const()
			if hi, ok := pick(x.High); ok && x.Low == nil && hi.Toks == toks && hi.K == k && hi.Off == 0 {
				e.event("P2", Discharged, x, "slice up to the position strings.IndexByte found in the same string")
				return StrV{Kind: skTok, Toks: toks, Idx: CInt(k)}
			}
			if lo, ok := pick(x.Low); ok && x.High == nil && lo.Toks == toks && lo.K == k && okN {
				if sep, isC := toks.Sep.(StrV); isC && sep.Kind == skConst && lo.Off == int64(len(sep.S)) {
					e.event("P2", Discharged, x, "slice from just after the separator strings.IndexByte found in the same string")
					if k+1 >= n-1 {
						return StrV{Kind: skTok, Toks: toks, Idx: CInt(k + 1)} // the last token: nothing follows it
					}
					return StrV{Kind: skCursor, Toks: toks, Idx: CInt(k + 1)}
				}
			}
		}
	}
	get := func(v ssa.Value, def IntV) IntV {
		if v == nil {
			return def
		}
		if i, ok := e.val(fr, v).(IntV); ok {
			return i
		}
		return TopInt("slice bound")
	}
	// resolve pointer-to-array operands
	if p, ok := base.(PtrV); ok && p.O != nil {
		switch c := st[p.O].(type) {
		case CellC:
			if bv, ok := c.V.(BytesV); ok {
				base = e.arrayBuffer(fr, x, p.O, bv, st)
			}
		case VecC:
			if x.Low == nil && x.High == nil {
				return SliceV{O: p.O}
			}
			// arr[:0] of a local array of plain values: an empty slice to append to (a pre-sized
			// buffer on the stack).  What is appended lives in vectors of its own; the array
			// itself is no longer known, should anything read it directly
			if hi, ok := e.val(fr, x.High).(IntV); ok && x.High != nil && x.Max == nil && !p.O.Struct {
				lo := int64(0)
				if x.Low != nil {
					if l, ok := e.val(fr, x.Low).(IntV); ok {
						if c, isC := l.Const(); isC {
							lo = c
						} else {
							lo = -1
						}
					}
				}
				if h, isC := hi.Const(); isC && h > 0 && lo == 0 && h <= int64(len(c.Elems)) {
					// wordBuf[:n] of a local [N]string that nothing has written yet: n empty strings
					// to be filled in, like make([]string, n) (the array itself is not followed further)
					if al, isAlloc := x.X.(*ssa.Alloc); isAlloc && isStringSlice(x.Type()) {
						fresh := true
						for _, el := range c.Elems {
							if sv, ok := el.(StrV); !ok || sv.Kind != skConst || sv.S != "" {
								fresh = false
							}
						}
						nSlices := 0
						for _, ref := range *al.Referrers() {
							if _, isSl := ref.(*ssa.Slice); isSl {
								nSlices++
							} else if _, dbg := ref.(*ssa.DebugRef); !dbg {
								fresh = false // the array is also used directly
							}
						}
						if fresh && nSlices == 1 {
							e.setContent(fr, st, p.O, topContent(p.O, "backing array of a slice"))
							o := e.newObj(okArr, x, "slice of a local [N]string")
							e.setContentFresh(st, o, &ArrC{N: CInt(h), id: o.ID})
							return SliceV{O: o}
						}
					}
				}
				if h, isC := hi.Const(); isC && h == 0 && lo == 0 {
					if _, isAlloc := x.X.(*ssa.Alloc); isAlloc {
						e.setContent(fr, st, p.O, topContent(p.O, "backing array of a slice that is appended to"))
						o := e.newObj(okVec, x, "empty slice of a local array")
						o.Grown = true
						e.setContentFresh(st, o, VecC{})
						return SliceV{O: o}
					}
				}
			}
		}
	}
	n := e.lenOf(fr, base, st)
	if pt, ok := x.X.Type().Underlying().(*types.Pointer); ok {
		if at, ok := pt.Elem().Underlying().(*types.Array); ok {
			n = CInt(at.Len())
		}
	}
	lo := get(x.Low, CInt(0))
	hi := get(x.High, n)
	// 0 <= lo <= hi <= cap (we use len; slicing up to cap of a longer backing array is not modelled)
	l1, h1, ok1 := lo.Bounds(fr.T())
	l2, h2, ok2 := hi.Bounds(fr.T())
	nl, _, okn := n.Bounds(fr.T())
	full := x.Low == nil && x.High == nil
	perT := false
	if T := fr.T(); !full && T > 0 && T <= 4096 && !(ok1 && ok2 && okn && l1 >= 0 && h1 <= l2 && h2 <= nl) {
		// bounds that are functions of the iteration number alone: check every iteration
		perT = true
		for t := int64(0); t < T; t++ {
			a, oka := lo.At(t)
			b, okb := hi.At(t)
			c, okc := n.At(t)
			if !oka || !okb || !okc || a < 0 || a > b || b > c {
				perT = false
				break
			}
		}
	}
	relOK := false
	if !full && !perT && !(ok1 && ok2 && okn && l1 >= 0 && h1 <= l2 && h2 <= nl) {
		relOK = e.relSlice(fr, x, lo, hi)
	}
	switch {
	case full:
		e.event("P2", Discharged, x, "full slice")
	case relOK:
		e.event("P2", Discharged, x, "slice bounds [%v:%v]: the dominating comparisons bound them by len of the same value", lo, hi)
	case perT:
		e.event("P2", Discharged, x, "slice bounds [%v:%v] within %v in each of the %d iterations", lo, hi, n, fr.T())
	case !ok1 || !ok2 || !okn:
		e.event("P2", Undecided, x, "slice bounds [%v:%v] of %v (len %v) cannot be bounded", lo, hi, shortAV(base), n)
	case (l1 < 0 || h1 > l2 || h2 > nl) && func() bool { _, nh, _ := n.Bounds(fr.T()); return nh != nl }():
		// the length itself is only known as an interval: nothing definite either way
		e.event("P2", Undecided, x, "slice bounds [%v:%v] are not shown to stay within [0,%v]", lo, hi, n)
	case l1 < 0 || h1 > l2 || h2 > nl:
		e.event("P2", Violated, x, "slice bounds [%v:%v] can leave [0,%v]", lo, hi, n)
	default:
		e.event("P2", Discharged, x, "slice bounds [%d..%d : %d..%d] within %d", l1, h1, l2, h2, nl)
	}
	switch b := base.(type) {
	case BytesV:
		cl, okl := lo.Const()
		ch, okh := hi.Const()
		src := e.resolveBytes(b, st)
		src.Obj = nil
		if full {
			return b
		}
		if okl && okh && src.LenKnown && src.Len.Const() && src.HasVal && !src.Min {
			total := src.Len.A
			if cl >= 0 && cl <= ch && ch <= total {
				v, ok := src.Val.Slice(8*(total-ch), 8*(ch-cl))
				if ok {
					r := BytesV{LenKnown: true, Len: K(ch - cl), HasVal: true, Val: v, Src: src.Src}
					if b.Obj != nil && cl == 0 && ch == total {
						r.Obj = b.Obj
					} else if b.Obj != nil || b.WinOf != nil {
						return e.window(b, cl, ch, st)
					}
					return r
				}
			}
		}
		r := BytesV{Src: "⊤: slice of " + b.Src}
		if okl && okh {
			r.LenKnown, r.Len = true, K(ch-cl)
		}
		if okl && okh && cl >= 0 && cl <= ch && (b.Obj != nil || (b.WinOf != nil && b.WinConst)) {
			if w := e.window(b, cl, ch, st); w.WinConst {
				return w
			}
		}
		if b.Obj != nil || b.WinOf != nil {
			// a window into a mutable buffer: writes through it change (and, unless recognised, blur) the buffer
			r.Obj = nil
			r.Src = "⊤: window into buffer"
			r.WinOf = b.Obj
			if b.WinOf != nil {
				r.WinOf = b.WinOf
			}
			if x.High == nil && b.Obj != nil {
				w := lo
				r.WinLo = &w
			}
		}
		if b.Param != nil {
			r.Param = b.Param
		}
		return r
	case StrV:
		if b.Kind == skConst {
			cl, okl := lo.Const()
			ch, okh := hi.Const()
			if okl && okh && cl >= 0 && cl <= ch && ch <= int64(len(b.S)) {
				return CStr(b.S[cl:ch])
			}
		}
		return TopStr("substring")
	case SliceV:
		if full {
			return b
		}
	case *TokensV, *ListV:
		if full {
			return base
		}
	case LimbsV:
		return b // any sub-slice of the limbs still shares the integer's memory
	}
	return e.topOf(x.Type(), "slice of "+shortAV(base))
}

// window is the sub-slice [lo, hi) of a buffer-backed byte slice: a view, not a snapshot —
// what it holds is read from the buffer whenever it is needed (resolveBytes), so that writes
// through the buffer, through this window or through another one are seen.
func (e *Eval) window(b BytesV, lo, hi int64, st State) BytesV {
	r := BytesV{LenKnown: true, Len: K(hi - lo), Src: "window", WinConst: true, WinN: hi - lo}
	switch {
	case b.Obj != nil:
		r.WinOf, r.WinOff = b.Obj, lo
	case b.WinOf != nil && b.WinConst:
		r.WinOf, r.WinOff = b.WinOf, b.WinOff+lo
	default:
		return BytesV{Src: "⊤: slice of " + b.Src}
	}
	return r
}

// arrayBuffer: a local byte array whose slice is taken becomes a buffer object (the array
// and every slice of it share it); the array variable keeps a value that points there.
func (e *Eval) arrayBuffer(fr *frame, x ssa.Instruction, cell *Obj, bv BytesV, st State) BytesV {
	if bv.Obj != nil {
		return e.resolveBytes(bv, st)
	}
	if bv.WinOf != nil || bv.Param != nil || !bv.LenKnown {
		return bv
	}
	if e.arrBuf == nil {
		e.arrBuf = map[*Obj]*Obj{}
	}
	bo := e.arrBuf[cell]
	if bo == nil {
		bo = e.newObj(okBuf, x, "backing array of "+cell.Note)
		e.arrBuf[cell] = bo
		if e.poolObj[cell] != nil {
			if e.poolBuf == nil {
				e.poolBuf = map[*Obj]bool{}
			}
			e.poolBuf[bo] = true
		}
	}
	content := bv
	content.Obj = nil
	e.setContent(fr, st, bo, BufC{content})
	alias := content
	alias.Obj = bo
	e.setContent(fr, st, cell, CellC{alias})
	return alias
}

func (e *Eval) lookup(fr *frame, x *ssa.Lookup, st State) AV {
	m := e.val(fr, x.X)
	k := e.val(fr, x.Index)
	if s, ok := m.(StrV); ok { // string indexing
		idx, _ := k.(IntV)
		e.boundsCheck(fr, x, idx, e.lenOf(fr, s, st), "string index")
		b := RangeInt(0, 255)
		b.SB = &StrByte{S: s, Idx: idx}
		return b
	}
	var val AV = e.topOf(x.Type(), "map value")
	okv := BoolV{C: &Cond{Kind: "lookupok", A: m, B: k, Site: x}}
	if _, isWordMap := m.(MapV); isWordMap {
		// what the current path knows about this lookup having found its key: nothing yet
		if e.lkObj == nil {
			e.lkObj = map[ssa.Instruction]*Obj{}
		}
		if e.lkObj[x] == nil {
			e.lkObj[x] = e.newObj(okCell, x, "lookup-hit")
		}
		if n := len(e.loopHeaders); n > 0 && x.Block() != nil {
			// made while a loop is being evaluated (possibly in a function the loop calls): that
			// loop's verdict on "every way round passed the hit edge" covers it
			if e.lkLoopHdr == nil {
				e.lkLoopHdr = map[ssa.Instruction]*ssa.BasicBlock{}
			}
			if x.Parent() != e.loopHeaders[n-1].Parent() {
				e.lkLoopHdr[x] = e.loopHeaders[n-1]
			}
		}
		if len(e.unrollActs) > 0 {
			// made again in the same run of a loop: what is known of the one before must be
			// "found" — otherwise a miss did not end the validation
			act := e.unrollActs[0]
			if e.lkSeenAct == nil {
				e.lkSeenAct = map[ssa.Instruction]int{}
			}
			if e.lkSeenAct[x] == act {
				hit := false
				if c, ok := st[e.lkObj[x]].(CellC); ok {
					if b, ok := c.V.(BoolV); ok && b.Known && b.Val {
						hit = true
					}
				}
				if !hit {
					if e.lkMissCont == nil {
						e.lkMissCont = map[ssa.Instruction]bool{}
					}
					e.lkMissCont[x] = true
				}
			}
			e.lkSeenAct[x] = act
		}
		if e.lkKey == nil {
			e.lkKey = map[ssa.Instruction][2]AV{}
		}
		e.lkKey[x] = [2]AV{m, k}
		e.setContentFresh(st, e.lkObj[x], CellC{BoolV{}})
	}
	switch mv := m.(type) {
	case CMapV:
		mc, ok := st[mv.O].(MapC)
		if !ok {
			mc, ok = e.G.Objs[mv.O].(MapC)
		}
		if ok && mc.Top == "" {
			if ks, okk := mapKey(k); okk {
				if v, found := mc.get(ks); found {
					val, okv = v, KBool(true)
				} else {
					okv = KBool(false)
					if tup, ok := x.Type().(*types.Tuple); ok {
						val = e.zeroOf(tup.At(0).Type())
					} else {
						val = e.zeroOf(x.Type())
					}
				}
			} else {
				var cur AV
				for _, v := range mc.Vals {
					cur = joinAV(cur, v)
				}
				if cur != nil {
					val = joinAV(cur, e.zeroOf(func() types.Type {
						if tup, ok := x.Type().(*types.Tuple); ok {
							return tup.At(0).Type()
						}
						return x.Type()
					}()))
				}
			}
		}
	case MapV:
		// the value found in a word->index map: an 11-bit (list-length) symbol indexed by the token
		if ks, isStr := k.(StrV); isStr && ks.Kind == skTok && ks.Idx.Kind == ikLin {
			w := e.G.mapValueBits(mv.G)
			if w > 0 {
				val = BitsInt(Layout{{W: K(w), Sym: "I", HasIdx: true, Idx: ks.Idx.L}})
			}
		}
	case NilV:
		okv = KBool(false)
		if tup, ok := x.Type().(*types.Tuple); ok {
			val = e.zeroOf(tup.At(0).Type())
		} else {
			val = e.zeroOf(x.Type())
		}
	}
	e.Calls = append(e.Calls, CallRec{Callee: "lookup", Instr: x, Fn: fr.fn, Args: []AV{m, k}, Res: val, InLoop: len(e.activeLoops) > 0})
	if x.CommaOk {
		return TupleV{val, okv}
	}
	return val
}

func (e *Eval) store(fr *frame, x *ssa.Store, st State) {
	addr := e.val(fr, x.Addr)
	v := e.val(fr, x.Val)
	p, ok := addr.(PtrV)
	if !ok {
		e.escape(fr, st, v, "store through unknown pointer")
		e.clobber(fr, st, "store through a pointer that is not resolved", okCell, okVec, okBuf, okArr)
		return
	}
	switch {
	case p.G != nil:
		if e.initMode {
			if e.GlobalInit == nil {
				e.GlobalInit = map[*ssa.Global]AV{}
			}
			e.GlobalInit[p.G] = v
			if pv, ok := v.(PtrV); ok && pv.O != nil {
				if e.GlobalObj == nil {
					e.GlobalObj = State{}
				}
				e.GlobalObj[pv.O] = st[pv.O]
			}
			if cm, ok := v.(CMapV); ok {
				if e.GlobalObj == nil {
					e.GlobalObj = State{}
				}
				e.GlobalObj[cm.O] = st[cm.O]
				e.mapGlobals = append(e.mapGlobals, cm.O)
			}
			return
		}
		if e.builderMode {
			if e.GStore == nil {
				e.GStore = map[*ssa.Global]AV{}
			}
			e.GStore[p.G] = v
			return
		}
		e.event("E1", Violated, x, "store to package-level variable %s", p.G.Name())
		e.escape(fr, st, v, "stored to global")
	case p.O != nil:
		if p.O.Kind == okCell {
			if cc, ok := st[p.O].(CellC); ok {
				if cur, ok := cc.V.(BytesV); ok && cur.Obj != nil && e.arrBuf[p.O] == cur.Obj {
					// a whole array value assigned to an array whose slices are out: they see it
					if nv, ok := v.(BytesV); ok {
						nv = stripObj(e.resolveBytes(nv, st))
						e.setContent(fr, st, cur.Obj, BufC{nv})
					} else {
						e.setContent(fr, st, cur.Obj, topContent(cur.Obj, "whole-array store"))
					}
					return
				}
			}
			e.setContent(fr, st, p.O, CellC{v})
			return
		}
		if vv, ok := v.(VecV); ok && p.O.Kind == okVec {
			// a whole struct (or array) value assigned: field by field
			if cur, ok := st[p.O].(VecC); ok && (len(cur.Elems) == len(vv.Elems) || len(cur.Elems) == 0) {
				e.setContent(fr, st, p.O, VecC{Elems: append([]AV{}, vv.Elems...)})
				return
			}
		}
		e.setContent(fr, st, p.O, topContent(p.O, "whole-object store"))
	case p.Elem != nil:
		e.storeElem(fr, x, p.Elem, v, st)
	}
}

func (e *Eval) storeElem(fr *frame, x *ssa.Store, el *ElemRef, v AV, st State) {
	if bp, ok := el.Base.(PtrV); ok && bp.Elem != nil && e.initMode {
		// field el.Idx of element bp.Elem.Idx of a package-level array of structs, in its initialiser
		if gp, ok := bp.Elem.Base.(PtrV); ok && gp.G != nil {
			if at, ok := gp.G.Type().Underlying().(*types.Pointer).Elem().Underlying().(*types.Array); ok && at.Len() <= 4096 {
				if stt, ok := at.Elem().Underlying().(*types.Struct); ok {
					i, oki := bp.Elem.Idx.Const()
					f, okf := el.Idx.Const()
					if oki && okf && i >= 0 && i < at.Len() && f >= 0 && f < int64(stt.NumFields()) {
						if e.GlobalInit == nil {
							e.GlobalInit = map[*ssa.Global]AV{}
						}
						cur, _ := e.GlobalInit[gp.G].(VecV)
						if cur.Elems == nil {
							cur.Elems = make([]AV, at.Len())
							for k := range cur.Elems {
								cur.Elems[k] = e.zeroOf(at.Elem())
							}
						} else {
							cur.Elems = append([]AV{}, cur.Elems...)
						}
						sv, _ := cur.Elems[i].(VecV)
						if len(sv.Elems) == stt.NumFields() {
							ne := append([]AV{}, sv.Elems...)
							ne[f] = v
							cur.Elems[i] = VecV{ne}
							e.GlobalInit[gp.G] = cur
							return
						}
					}
				}
			}
		}
	}
	switch b := el.Base.(type) {
	case PtrV:
		if b.O != nil {
			if vc, ok := st[b.O].(VecC); ok {
				if c, ok := el.Idx.Const(); ok && c >= 0 && c < int64(len(vc.Elems)) {
					n := append([]AV{}, vc.Elems...)
					n[c] = v
					e.setContent(fr, st, b.O, VecC{Elems: n})
					return
				}
			}
			if cc, ok := st[b.O].(CellC); ok {
				if bv, ok := cc.V.(BytesV); ok && bv.Obj != nil {
					// the array shares a buffer object with its slices
					e.storeElem(fr, x, &ElemRef{Base: bv, Idx: el.Idx}, v, st)
					return
				}
				if bv, ok := cc.V.(BytesV); ok {
					// one byte of a local byte array
					c, okc := el.Idx.Const()
					iv, okv := v.(IntV)
					if cv, isC := iv.Const(); okv && isC && cv != 0 && okc && bv.LenKnown && bv.Len.Const() && c >= 0 && c < bv.Len.A && (bv.ConstAt != nil || (bv.HasVal && len(bv.Val.Norm()) == 0)) {
						// a table of byte constants being filled in: remembered byte by byte
						n := BytesV{LenKnown: true, Len: bv.Len, Src: "table of byte constants", ConstAt: map[int64]int64{}}
						for k, x := range bv.ConstAt {
							n.ConstAt[k] = x
						}
						n.ConstAt[c] = cv & 0xff
						e.setContent(fr, st, b.O, CellC{n})
						return
					}
					var nb Layout
					okb := false
					switch {
					case okv && iv.Kind == ikBits:
						if w, ok := iv.Bits.Width(); ok && w <= 8 {
							nb, okb = iv.Bits.Norm(), true
						}
					case okv:
						if cv, ok := iv.Const(); ok && cv == 0 {
							nb, okb = Layout{}, true
						}
					}
					if okc && okb && bv.LenKnown && bv.Len.Const() && bv.HasVal && !bv.Min && c >= 0 && c < bv.Len.A {
						pos := 8 * (bv.Len.A - 1 - c)
						lowPart, ok1 := bv.Val.Low(pos)
						highPart, ok2 := bv.Val.Shr(pos + 8)
						if ok1 && ok2 {
							var out Layout
							out = append(out, lowPart...)
							if lw, _ := lowPart.DeclWidth(); lw < pos {
								out = append(out, Field{W: K(pos - lw)})
							}
							out = append(out, nb...)
							if bw, _ := nb.DeclWidth(); bw < 8 {
								out = append(out, Field{W: K(8 - bw)})
							}
							out = append(out, highPart...)
							n := bv
							n.Val = out.Norm()
							e.setContent(fr, st, b.O, CellC{n})
							return
						}
					}
					e.setContent(fr, st, b.O, CellC{BytesV{LenKnown: bv.LenKnown, Len: bv.Len, Src: "⊤: byte written"}})
					return
				}
			}
			e.setContent(fr, st, b.O, topContent(b.O, "element store"))
			return
		}
		if b.G != nil {
			if e.initMode {
				if at, ok := b.G.Type().Underlying().(*types.Pointer).Elem().Underlying().(*types.Array); ok && at.Len() <= 4096 {
					if e.GlobalInit == nil {
						e.GlobalInit = map[*ssa.Global]AV{}
					}
					cur, _ := e.GlobalInit[b.G].(VecV)
					if cur.Elems == nil {
						cur.Elems = make([]AV, at.Len())
						if _, basic := at.Elem().Underlying().(*types.Basic); basic {
							for i := range cur.Elems {
								cur.Elems[i] = e.zeroOf(at.Elem())
							}
						}
					} else {
						cur.Elems = append([]AV{}, cur.Elems...)
					}
					if c, ok := el.Idx.Const(); ok && c >= 0 && c < at.Len() {
						cur.Elems[c] = v
						e.GlobalInit[b.G] = cur
						return
					}
				}
			}
			e.event("E1", Violated, x, "store to element of package-level variable %s", b.G.Name())
		}
	case SliceV:
		ac, ok := st[b.O].(*ArrC)
		if ok && ac.Top == "" {
			n := *ac
			if fr.loop == nil && fr.blockLp[x.Block()] == nil {
				if c, ok := el.Idx.Const(); ok {
					if nn, ok := ac.N.Const(); ok && c >= 0 && c < nn && nn <= 4096 {
						if n.Elems == nil {
							n.Elems = make([]AV, nn)
						} else {
							n.Elems = append([]AV{}, ac.Elems...)
						}
						n.Elems[c] = v
						e.setContent(fr, st, b.O, &n)
						return
					}
				}
				n.Top = "store at unknown index"
				e.setContent(fr, st, b.O, &n)
				return
			}
			n.Stores = append(append([]StoreRec{}, ac.Stores...), StoreRec{Idx: el.Idx, Val: v, Site: x, Cond: e.condInLoop(fr, x.Block())})
			e.setContent(fr, st, b.O, &n)
			return
		}
		if vc, ok := st[b.O].(VecC); ok {
			if c, ok := el.Idx.Const(); ok && c >= 0 && c < int64(len(vc.Elems)) {
				nn := append([]AV{}, vc.Elems...)
				nn[c] = v
				e.setContent(fr, st, b.O, VecC{Elems: nn})
				return
			}
		}
		e.setContent(fr, st, b.O, topContent(b.O, "element store"))
	case BytesV:
		if b.Obj == nil && b.WinOf != nil && b.WinConst {
			if c, ok := el.Idx.Const(); ok && c >= 0 && c < b.WinN {
				if bc, ok := st[b.WinOf].(BufC); ok && bc.B.LenKnown {
					// element c of the window is element WinOff+c of the buffer
					base := bc.B
					base.Obj = b.WinOf
					e.storeElem(fr, x, &ElemRef{Base: base, Idx: CInt(b.WinOff + c)}, v, st)
					return
				}
			}
		}
		if b.Obj != nil {
			cur, _ := st[b.Obj].(BufC)
			nb := BytesV{LenKnown: b.LenKnown, Len: b.Len, LenSym: cur.B.LenSym, Src: "⊤: element written directly"}
			// buf[i] = s[i] in a loop, the first and only store to buf so far, executed in every
			// iteration: remembered; the loop summary decides whether it is a whole copy
			// one byte at a constant position of a buffer with known content
			if c, okc := el.Idx.Const(); okc && cur.B.LenKnown && cur.B.Len.Const() && cur.B.HasVal && !cur.B.Min && cur.B.Pending == nil && fr.loop == nil {
				if iv, ok := v.(IntV); ok {
					var nbits Layout
					okb := false
					switch {
					case iv.Kind == ikBits:
						if w, ok := iv.Bits.Width(); ok && w <= 8 {
							nbits, okb = iv.Bits.Norm(), true
						}
					default:
						if cv, ok := iv.Const(); ok && cv == 0 {
							nbits, okb = Layout{}, true
						}
					}
					if okb {
						if l, ok := WriteBytes(cur.B.Val, cur.B.Len.A, c, 1, nbits); ok {
							n2 := cur.B
							n2.Val = l
							n2.Src = "byte written"
							n2.Str = nil
							e.setContent(fr, st, b.Obj, BufC{n2})
							return
						}
					}
				}
			}
			if iv, ok := v.(IntV); ok && iv.SB != nil && fr.loop != nil && (cur.B.Src == "zero" || cur.B.Src == "⊤: loop head (was zero)") && cur.B.CopyOf == nil &&
				iv.SB.Idx.Kind == ikLin && el.Idx.Kind == ikLin && iv.SB.Idx.L == el.Idx.L && everyIteration(x.Block(), fr.loop) {
				nb.CopyOf = iv.SB
			}
			e.setContent(fr, st, b.Obj, BufC{nb})
		}
		if b.Obj == nil && b.WinOf == nil && b.Param == nil {
			// a byte slice the evaluation holds only as a value: whoever reads it later would not see this write
			e.event("U", Undecided, x, "a byte is stored through a slice (%v) that the evaluation does not track as an object: values derived from it afterwards may be stale", b)
			e.clobber(fr, st, "store through a byte slice that is not tracked", okBuf, okCell)
		}
		if b.WinOf != nil {
			e.setContent(fr, st, b.WinOf, topContent(b.WinOf, "element written through a sub-slice"))
		}
		if b.Param != nil {
			e.event("F4", Violated, x, "store into caller-owned slice %s", b.Param.Name())
		}
	case *ListV:
		e.event("E1", Violated, x, "store into word list %s", b.Name())
	case LimbsV:
		e.setContent(fr, st, b.Of, BigTop("limbs written directly"))
	case *TokensV:
		// the token slice is held as a value (token i of the split input): after a store into it
		// that is no longer what its elements are
		e.event("U", Undecided, x, "an element of the token slice (%v) is overwritten: the tokens looked up afterwards are not the tokens of the input", b)
	default:
		e.clobber(fr, st, "element store through a slice or pointer that is not resolved", okCell, okVec, okBuf, okArr)
	}
}

// condInLoop: is block b (inside the current loop) executed only under a condition besides the loop test?
func (e *Eval) condInLoop(fr *frame, b *ssa.BasicBlock) bool {
	lp := fr.loop
	if lp == nil {
		return false
	}
	// b is unconditional in the iteration iff it dominates every back-edge source,
	// or it is reached from the header without passing a two-way branch whose other arm stays in the loop
	for _, p := range lp.header.Preds {
		if lp.blocks[p] && !b.Dominates(p) {
			return true
		}
	}
	return false
}

// ---------------------------------------------------------------- globals

func (e *Eval) loadGlobal(fr *frame, g *ssa.Global, t types.Type) AV {
	if g.Pkg == nil || !e.P.InModule(g.Pkg) {
		if isErrorType(t) {
			// an exported error variable of another package (io.EOF, io.ErrUnexpectedEOF): some
			// non-nil error that is none of this module's sentinels
			return ErrV{Kind: ekUnknown, NonNil: true, From: g.Pkg.Pkg.Path() + "." + g.Name()}
		}
		return ExtGlobalV{Name: g.Pkg.Pkg.Path() + "." + g.Name()}
	}
	if e.G == nil {
		return TopV{"global " + g.Name()}
	}
	if v, ok := e.GStore[g]; ok {
		return v
	}
	return e.G.load(e, g, t)
}
