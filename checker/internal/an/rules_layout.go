package an

import (
	"fmt"
	"go/token"
	"sort"
	"strings"

	"golang.org/x/text/unicode/norm"
	"golang.org/x/tools/go/ssa"
)

// specEncoderLayout is the BIP39 bit string for ENT = 8·L read as an integer:
// checksum bits (the top CS bits of the first digest byte) below the entropy bits.
func specEncoderLayout(L int64) (Layout, string) {
	sz := specSizeByL(L)
	ent := BytesV{LenKnown: true, Len: K(L), HasVal: true, Val: SymL("E", 8*L)}
	e := &Eval{}
	d := e.digest("SHA256", []BytesV{ent}).(BytesV)
	name := d.Val[0].Sym
	return Layout{{W: K(sz.CS), Sym: name, Lo: K(256 - sz.CS)}, {W: K(8 * L), Sym: "E"}}, name
}

// encoderExit finds the success exit of an encoder entry point and its joined array.
func topExits(e *Eval, fn *ssa.Function) []Exit {
	var out []Exit
	for _, x := range e.Exits {
		if x.Fn == fn && x.Depth == 0 {
			out = append(out, x)
		}
	}
	return out
}

// delegatedExits lists the exits of fn as its callers see them: an exit that hands on the
// error of a module function it called (`return helper(...)`, or `if err != nil { return err }`
// after `x, err := helper(...)`) is replaced by the exits of that helper — all of them in
// the first form, the failing ones in the second — each with its own controlling conditions
// followed by those of the call.
func delegatedExits(e *Eval, fn *ssa.Function) []Exit {
	var out []Exit
	var expand func(x Exit, depth int)
	expand = func(x Exit, depth int) {
		if len(x.Vals) == 0 || depth > 4 {
			out = append(out, x)
			return
		}
		ev := asErr(x.Vals[len(x.Vals)-1])
		call, _ := ev.Site.(*ssa.Call)
		if ev.Kind != ekFrom || call == nil || call.Call.IsInvoke() {
			out = append(out, x)
			return
		}
		callee := call.Call.StaticCallee()
		var inner []Exit
		if callee == nil {
			// a call through a function value the evaluation resolved (a callback, a closure held
			// in a variable): the exits recorded for that call site, if they are all of one function
			for _, cx := range e.Exits {
				if cx.Site == ssa.Instruction(call) {
					if callee == nil {
						callee = cx.Fn
					} else if callee != cx.Fn {
						out = append(out, x)
						return
					}
				}
			}
		}
		if callee == nil || len(callee.Blocks) == 0 {
			out = append(out, x)
			return
		}
		for _, cx := range e.Exits {
			if cx.Fn == callee && cx.Site == ssa.Instruction(call) {
				inner = append(inner, cx)
			}
		}
		if len(inner) == 0 {
			out = append(out, x)
			return
		}
		for _, cx := range inner {
			cev := asErr(cx.Vals[len(cx.Vals)-1])
			if ev.NonNil && cev.Kind == ekNil {
				continue // the caller is on the edge where the helper failed
			}
			nx := cx
			nx.Conds = append([]EdgeCond{}, cx.Conds...)
			for _, c := range x.Conds {
				if bv, ok := c.Val.(BoolV); ok && !bv.Known && bv.C != nil && bv.C.Kind == "isnil" {
					if tv, ok := bv.C.A.(ErrV); ok && tv.Site == ev.Site {
						continue // the test of the helper's error itself
					}
				}
				nx.Conds = append(nx.Conds, c)
			}
			nx.InLoop = cx.InLoop || x.InLoop
			nx.AfterLoop = cx.AfterLoop || x.AfterLoop
			expand(nx, depth+1)
		}
	}
	for _, x := range topExits(e, fn) {
		expand(x, 0)
	}
	return out
}

// concatAsJoin: s is a concatenation w0 + sep + w1 + sep + … + w(n-1) of list words with one
// constant separator (what `m += sep; m += words[i]` leaves when the loop is evaluated
// iteration by iteration): the Join it equals.
func concatAsJoin(s StrV) (StrV, bool) {
	if s.Kind != skConcat {
		return s, false
	}
	var parts []StrV
	var flat func(v AV) bool
	flat = func(v AV) bool {
		sv, ok := v.(StrV)
		if !ok {
			return false
		}
		switch {
		case sv.Kind == skConcat:
			for _, p := range sv.Parts {
				if !flat(p) {
					return false
				}
			}
		case sv.Kind == skConst && sv.S == "":
		default:
			parts = append(parts, sv)
		}
		return true
	}
	if !flat(s) || len(parts) < 3 || len(parts)%2 == 0 {
		return s, false
	}
	sep := parts[1]
	if sep.Kind != skConst {
		return s, false
	}
	var words []AV
	for i, p := range parts {
		if i%2 == 1 {
			if p.Kind != skConst || p.S != sep.S {
				return s, false
			}
			continue
		}
		if p.Kind != skElem {
			return s, false
		}
		words = append(words, p)
	}
	return StrV{Kind: skJoin, Arr: &ArrC{N: CInt(int64(len(words))), Elems: words}, Sep: sep}, true
}

// checksumExitInLoop: some exit of the evaluation returns the checksum sentinel from inside a loop.
func checksumExitInLoop(e *Eval, fn *ssa.Function, sent *ssa.Global) bool {
	if sent == nil {
		return false
	}
	for _, x := range delegatedExits(e, fn) {
		if !x.InLoop || len(x.Vals) == 0 {
			continue
		}
		if ev := asErr(x.Vals[len(x.Vals)-1]); (ev.Kind == ekSentinel || ev.Kind == ekWrap) && ev.G == sent {
			return true
		}
	}
	return false
}

// ruleT2T6 covers the encoder side: list selection (T2), separator (T6), size coherence (G4)
// and, for tier 3, the bit layout of every emitted word (L1).
func (a *Analysis) ruleT2T6() {
	r := a.R
	type entry struct {
		fn   *ssa.Function
		gate *GateInfo
		kind string
	}
	nT2, nG4, nL1 := 0, 0, 0
	sepSeen := map[string]string{}
	for _, en := range []entry{{a.NME, a.Gate1, "L"}, {a.NM, a.Gate2, "W"}} {
		if en.fn == nil || en.gate == nil {
			continue
		}
		fk := fnKey(en.fn)
		sfx := ""
		if en.kind == "W" {
			sfx = "n"
		}
		for _, size := range en.gate.passed() {
			size := size
			var L, W int64
			if en.kind == "L" {
				L = size
			} else {
				W = size
			}
			for _, lc := range a.langCtxs() {
				ctx := a.sizeCtx(en.kind, &size, en.gate, lc)
				e := a.eval(en.fn, ctx)
				pos := a.P.Pos(en.fn.Pos())
				// the success exit
				var join *StrV
				var joinPos string
				nSucc := 0
				for _, x := range delegatedExits(e, en.fn) {
					if len(x.Vals) != 2 {
						continue
					}
					ev := asErr(x.Vals[1])
					if ev.Kind != ekNil {
						continue
					}
					nSucc++
					if s, ok := x.Vals[0].(StrV); ok {
						s := s
						if j, ok := concatAsJoin(s); ok {
							s = j // `m += sep; m += word` unrolled: the same thing as a Join
						}
						join = &s
						joinPos = a.P.InstrPos(x.Ret)
					}
				}
				key := fmt.Sprintf("%s/%s", fk, "result")
				if nSucc != 1 || join == nil || join.Kind != skJoin || join.Arr == nil || join.Arr.Top != "" {
					why := "no single success exit"
					if join != nil {
						why = "result is " + shortAV(*join)
						if join.Kind == skJoin && join.Arr != nil {
							why = "joined slice is " + join.Arr.Top
						}
					}
					r.Unk("L1"+sfx, key, pos, ctx.Name, "cannot describe the returned sentence as strings.Join of a fully written word slice: %s", why)
					continue
				}
				arr := join.Arr
				// ---- G4 size coherence
				nG4++
				n, _ := arr.N.Const()
				var wantW, wantL int64
				if en.kind == "L" {
					if sz := specSizeByL(L); sz != nil {
						wantW, wantL = sz.W, L
					}
				} else {
					if sz := specSizeByW(W); sz != nil {
						wantW, wantL = W, sz.L
					}
				}
				if wantW == 0 {
					r.Bad("G4"+sfx+"x", fk+"/size", pos, ctx.Name, "a size outside the BIP39 table reaches the encoder")
					continue
				} else if n != wantW {
					r.Bad("G4"+sfx, fk+"/words", joinPos, ctx.Name, "sentence has %d words, BIP39 requires %d for %d bytes of entropy", n, wantW, wantL)
				} else {
					r.OK("G4"+sfx, fk+"/words", joinPos, ctx.Name, "%d words for %d bytes", n, wantL)
				}
				// entropy width seen by the encoder = hash input length
				entLen := int64(-1)
				what := "an unknown number of"
				for _, c := range e.Calls {
					if c.Callee == "invoke:hash.Write" || c.Callee == "crypto/sha256.Sum256" {
						if b, ok := c.Args[0].(BytesV); ok {
							if b.Obj != nil {
								if bc, ok := c.State[b.Obj].(BufC); ok && bc.B.Pending == nil {
									b = bc.B
								}
							}
							if b.LenKnown && b.Len.Const() {
								entLen = b.Len.A
								what = fmt.Sprint(entLen)
							} else if b.Min {
								what = "big.Int.Bytes() (leading zero bytes dropped, so a value-dependent number of)"
							}
						}
					}
				}
				if wantL != 0 {
					if entLen != wantL {
						r.Bad("G4"+sfx, fk+"/entropy-bytes", pos, ctx.Name, "the encoder hashes %s bytes where BIP39 requires exactly %d", what, wantL)
					} else {
						r.OK("G4"+sfx, fk+"/entropy-bytes", pos, ctx.Name, "the checksum is taken over %d bytes", entLen)
					}
				}
				// ---- T6 separator
				sep, _ := join.Sep.(StrV)
				wantSep := " "
				if lc.Const != nil {
					if sp := specByName(lc.Name); sp != nil {
						wantSep = sp.Sep
					}
				}
				if lc.Const != nil {
					if sep.Kind != skConst || sep.S != wantSep {
						r.Bad("T6"+sfx, fk+"/separator/"+lc.Name, joinPos, ctx.Name, "words of %s are joined by %v, BIP39 requires %q", lc.Name, join.Sep, wantSep)
					} else {
						r.OK("T6"+sfx, fk+"/separator/"+lc.Name, joinPos, ctx.Name, "joined by %q", wantSep)
						sepSeen[sep.S] = lc.Name
					}
				}
				// ---- T2 list selection and L1 layout
				if lc.Const == nil {
					continue
				}
				nT2++
				wantList := a.ListOfLang[lc.Name]
				var spec Layout
				if wantL != 0 {
					spec, _ = specEncoderLayout(wantL)
				}
				okT2, okL1 := true, wantL != 0 && n == wantW
				var badElem string
				for p, el := range arr.Elems {
					s, isS := el.(StrV)
					if !isS || s.Kind != skElem || s.List == nil {
						okT2, okL1 = false, false
						badElem = fmt.Sprintf("word %d is %v", p, shortAVn(el))
						break
					}
					if okL1 {
						want, ok := spec.Slice(11*(wantW-1-int64(p)), 11)
						if !ok || s.Idx.Kind != ikBits || !s.Idx.Bits.Equal(want) {
							okL1 = false
							badElem = fmt.Sprintf("word %d has index %v, BIP39 requires bits %v", p, s.Idx, want)
						}
					}
				}
				// T2: every word comes from one package-level literal list; T2c: it is the canonical list of K
				var used *ssa.Global
				oneList := badElem == "" || okT2 || !strings.Contains(badElem, "never written")
				for _, el := range arr.Elems {
					if sv, ok := el.(StrV); ok && sv.Kind == skElem && sv.List != nil {
						if used == nil {
							used = sv.List.G
						} else if used != sv.List.G {
							oneList = false
						}
					} else {
						oneList = false
					}
				}
				if used == nil || !oneList {
					r.Bad("T2"+sfx, fk+"/list/"+lc.Name, joinPos, ctx.Name, "%s words are not all elements of one package-level word list: %s", lc.Name, badElem)
				} else {
					if prev, ok := a.EncList[lc.Name]; ok && prev != used {
						r.Bad("T2"+sfx, fk+"/list/"+lc.Name, joinPos, ctx.Name, "%s words come from %s here and from %s elsewhere", lc.Name, used.Name(), prev.Name())
					} else {
						a.EncList[lc.Name] = used
						dup := ""
						for other, g := range a.EncList {
							if g == used && other != lc.Name {
								dup = other
							}
						}
						if dup != "" {
							r.Bad("T2"+sfx, fk+"/list/"+lc.Name, joinPos, ctx.Name, "%s and %s are encoded with the same list %s", lc.Name, dup, used.Name())
						} else {
							r.OK("T2"+sfx, fk+"/list/"+lc.Name, joinPos, ctx.Name, "every word is an element of %s", used.Name())
						}
					}
					if wantList == nil {
						r.Bad("T2"+sfx+"c", fk+"/canonical-list/"+lc.Name, pos, ctx.Name, "no word list in the module holds the canonical %s content", lc.Name)
					} else if used != wantList {
						r.Bad("T2"+sfx+"c", fk+"/canonical-list/"+lc.Name, joinPos, ctx.Name, "%s words are taken from %s, but the canonical %s list is %s", lc.Name, used.Name(), lc.Name, wantList.Name())
					} else {
						r.OK("T2"+sfx+"c", fk+"/canonical-list/"+lc.Name, joinPos, ctx.Name, "%s is the canonical %s list", used.Name(), lc.Name)
					}
				}
				nL1++
				if okL1 {
					r.OK("L1"+sfx, fk+"/layout", joinPos, ctx.Name, "word p = list[S⟨11·(%d-1-p):+11⟩] for every p, S = %v; all %d entropy bits used exactly once", wantW, spec, 8*wantL)
				} else if wantL != 0 {
					kind := Violated
					if strings.Contains(badElem, "⊤") {
						kind = Undecided
					}
					r.Add("L1"+sfx, fk+"/layout", joinPos, ctx.Name, kind, "emitted words do not follow the BIP39 bit layout: %s", badElem)
				}
			}
		}
	}
	r.Counts["T2.contexts"] = nT2
	_ = nT2
	r.Counts["G4.contexts"] = nG4
	r.Counts["L1.contexts"] = nL1
	a.ruleTokeniser(sepSeen)
}

func shortAVn(a AV) string {
	if a == nil {
		return "never written"
	}
	return shortAV(a)
}

// ruleTokeniser (T6, validator side): the validator splits the NFKD form on exactly the NFKD
// image of every separator the encoder uses, or on any white space.
func (a *Analysis) ruleTokeniser(sepSeen map[string]string) {
	if a.CM == nil || a.Gate3 == nil {
		return
	}
	for _, W := range a.Gate3.passed() {
		for _, lc := range a.langCtxs() {
			if lc.Const == nil {
				continue
			}
			W := W
			a.tokeniserIn(a.sizeCtx("N", &W, a.Gate3, lc), sepSeen)
		}
	}
}

func (a *Analysis) tokeniserIn(ctx *Ctx, sepSeen map[string]string) {
	r := a.R
	e := a.eval(a.CM, ctx)
	var tok *TokensV
	for _, c := range e.Calls {
		if c.Callee == "strings.Split" || c.Callee == "strings.Fields" {
			if t, ok := c.Res.(*TokensV); ok {
				tok = t
			}
		}
	}
	pos := a.P.Pos(a.CM.Pos())
	if tok == nil {
		r.Unk("T6v", "CheckMnemonic/tokeniser", pos, ctx.Name, "no tokeniser call found")
		return
	}
	tp := a.P.InstrPos(tok.Site)
	in, _ := tok.In.(StrV)
	if in.Kind != skNFKD {
		r.Bad("T6v", "CheckMnemonic/tokeniser-input", tp, ctx.Name, "the tokeniser input is %v, not the NFKD form of the argument", tok.In)
	} else {
		r.OK("T6v", "CheckMnemonic/tokeniser-input", tp, ctx.Name, "tokeniser runs on %v", tok.In)
	}
	if tok.Fn == "strings.Fields" {
		r.OK("T6v", "CheckMnemonic/tokeniser-separator", tp, ctx.Name, "strings.Fields splits on any White_Space; list words contain none (T5)")
		return
	}
	sep, _ := tok.Sep.(StrV)
	if sep.Kind != skConst {
		r.Bad("T6v", "CheckMnemonic/tokeniser-separator", tp, ctx.Name, "separator %v is not a constant", tok.Sep)
		return
	}
	ok := true
	for s, lang := range sepSeen {
		if norm.NFKD.String(s) != sep.S {
			r.Bad("T6v", "CheckMnemonic/tokeniser-separator", tp, ctx.Name, "encoder joins %s with %q whose NFKD form is %q, but the validator splits on %q", lang, s, norm.NFKD.String(s), sep.S)
			ok = false
		}
	}
	if ok {
		r.OK("T6v", "CheckMnemonic/tokeniser-separator", tp, ctx.Name, "splits on %q = NFKD of every separator the encoder uses (%d)", sep.S, len(sepSeen))
	}
}

// ---------------------------------------------------------------- validator

// validator expectations for W words
func specValidatorLayouts(W int64) (acc Layout, cs, L int64) {
	sz := specSizeByW(W)
	for k := W - 1; k >= 0; k-- {
		acc = append(acc, Field{W: K(11), Sym: "I", HasIdx: true, Idx: K(k)})
	}
	return acc, sz.CS, sz.L
}

// ruleLayouts: L2w (hash input width), L2 (validator layout), L3 (comparison guards acceptance).
func (a *Analysis) ruleLayouts() {
	r := a.R
	if a.CM == nil || a.Gate3 == nil {
		return
	}
	fk := fnKey(a.CM)
	nctx := 0
	for _, W := range a.Gate3.passed() {
		W := W
		sz := specSizeByW(W)
		for _, lc := range a.langCtxs() {
			if lc.Const == nil {
				continue
			}
			ctx := a.sizeCtx("N", &W, a.Gate3, lc)
			e := a.eval(a.CM, ctx)
			nctx++
			pos := a.P.Pos(a.CM.Pos())
			if m := a.MapOf[lc.Name]; m == nil || a.G.MapBits[m] == 0 {
				// what the lookups yield is not established (T3 did not recognise how the map of
				// this language is built): the layout obligations cannot be judged either way
				r.Unk("L2", fk+"/compared-values", pos, ctx.Name, "the values of the lookup map for %s are not established (T3): the compared values cannot be described", lc.Name)
				r.Unk("L2w", fk+"/hash-input", pos, ctx.Name, "the values of the lookup map for %s are not established (T3)", lc.Name)
				continue
			}
			if sz == nil {
				r.Bad("L2w", fk+"/size", pos, ctx.Name, "%d tokens get past the count gate", W)
				continue
			}
			// ---- L2w: what each checksum hash has been fed in total is exactly ENT/8 bytes
			// (consecutive writes are considered together: zero padding followed by the minimal
			// encoding is the fixed-width encoding)
			nw := 0
			var wpos string
			for _, c := range e.Calls {
				if c.Callee == "invoke:hash.Write" || c.Callee == "crypto/sha256.Sum256" {
					wpos = a.P.InstrPos(c.Instr)
				}
			}
			names := make([]string, 0, len(e.Digests))
			for name := range e.Digests {
				names = append(names, name)
			}
			sort.Strings(names)
			for _, name := range names {
				d := e.Digests[name]
				nw++
				total := int64(0)
				bad := ""
				for _, b := range d.Writes {
					switch {
					case b.Min:
						bad = fmt.Sprintf("the checksum is computed over big.Int.Bytes(), whose length depends on the value: leading zero bytes of the entropy are dropped, so the hash is not taken over exactly %d bytes", sz.L)
					case !b.LenKnown || !b.Len.Const():
						if bad == "" {
							bad = fmt.Sprintf("cannot show that the checksum hash input (%v) has exactly %d bytes", b, sz.L)
						}
					default:
						total += b.Len.A
					}
				}
				switch {
				case strings.HasPrefix(bad, "the checksum is computed over"):
					r.Bad("L2w", fk+"/hash-input", wpos, ctx.Name, "%s", bad)
				case bad != "":
					r.Unk("L2w", fk+"/hash-input", wpos, ctx.Name, "%s", bad)
				case total != sz.L:
					r.Bad("L2w", fk+"/hash-input", wpos, ctx.Name, "the checksum hash input has %d bytes, BIP39 requires %d for %d words", total, sz.L, W)
				default:
					r.OK("L2w", fk+"/hash-input", wpos, ctx.Name, "hash input has exactly %d bytes", sz.L)
				}
			}
			if nw == 0 {
				r.Bad("L2w", fk+"/hash-input", pos, ctx.Name, "no checksum hash is computed for %d words", W)
			}
			// ---- L2 / L3: the comparison that separates nil from the checksum error
			acc, cs, L := specValidatorLayouts(W)
			wantB, _ := acc.Low(cs)
			entBits, _ := acc.Shr(cs)
			ent := BytesV{LenKnown: true, Len: K(L), HasVal: true, Val: entBits.Norm()}
			d := (&Eval{}).digest("SHA256", []BytesV{ent}).(BytesV)
			wantA := Layout{{W: K(cs), Sym: d.Val[0].Sym, Lo: K(256 - cs)}}
			var nilExits, csExits int
			type rejExit struct {
				pos    string
				cmp    *EdgeCond
				others []string
				val    string
			}
			var rejects []rejExit
			var nilIf *ssa.If
			for _, x := range delegatedExits(e, a.CM) {
				if x.InLoop || !x.AfterLoop {
					continue
				}
				ev := asErr(x.Vals[len(x.Vals)-1])
				xp := a.P.InstrPos(x.Ret)
				// the nearest controlling condition must be the checksum comparison
				var cmp *EdgeCond
				for i := range x.Conds {
					bv, ok := x.Conds[i].Val.(BoolV)
					if ok && !bv.Known && bv.C != nil && !x.Conds[i].LoopTest {
						cmp = &x.Conds[i]
						break
					}
				}
				// every other condition this exit depends on must be decided by the context
				var others []string
				for i := range x.Conds {
					bv, ok := x.Conds[i].Val.(BoolV)
					if x.Conds[i].LoopTest || (cmp != nil && x.Conds[i].If == cmp.If) {
						continue
					}
					if ok && !bv.Known && bv.C != nil && bv.C.Kind == "isnil" {
						if tv, isErr := bv.C.A.(ErrV); isErr && tv.Kind == ekFrom {
							if c, isCall := tv.Site.(*ssa.Call); isCall && c.Call.StaticCallee() != nil && a.isModuleFunc(c.Call.StaticCallee()) {
								// the error of a module helper: its failing exits are exits of the validator
								// in their own right (delegatedExits) and are classified there and by S2
								continue
							}
						}
					}
					if ok && !bv.Known && bv.C != nil && bv.C.Kind == "lookupok" && x.Conds[i].Taken != bv.Neg {
						// the side on which a word WAS found (a `failed` flag tested after the loop):
						// that every word is in the list is what acceptance must depend on
						continue
					}
					if !ok || !bv.Known {
						others = append(others, fmt.Sprint(x.Conds[i].Val))
					}
				}
				if ev.Kind == ekNil {
					nilExits++
					if len(others) > 0 {
						r.Bad("L3x", fk+"/accept-only-checksum", xp, ctx.Name, "after all words were found, acceptance also depends on %s: a sentence with a correct checksum can be rejected", strings.Join(others, " and "))
					} else {
						r.OK("L3x", fk+"/accept-only-checksum", xp, ctx.Name, "after the lookups, return nil depends on the checksum comparison alone")
					}
					nilIf = nil
					if cmp != nil {
						nilIf = cmp.If
					}
					if cmp == nil && checksumExitInLoop(e, a.CM, a.sentinel("ErrChecksumIncorrect")) {
						// the checksum is compared piece by piece inside a loop that returns the
						// checksum error on a mismatch: not a comparison these rules can read
						r.Unk("L3+L3c", fk+"/accept-guard", xp, ctx.Name, "return nil follows a loop that returns the checksum error from inside: the comparison is made piece by piece, which is not one of the recognised forms")
						continue
					}
					if cmp == nil {
						r.Bad("L3", fk+"/accept-guard", xp, ctx.Name, "return nil is not guarded by a checksum comparison")
						r.OK("L3c", fk+"/accept-guard", xp, ctx.Name, "once every word was found, return nil is unconditional: no valid sentence is rejected here (that invalid ones are accepted is L3's business)")
						continue
					}
					bv := cmp.Val.(BoolV)
					c := bv.C
					if c.Kind != "bigcmp" && c.Kind != "intcmp" {
						r.Bad("L3+L3c", fk+"/accept-guard", xp, ctx.Name, "return nil is guarded by %v, which is not a comparison of the computed and the embedded checksum", bv)
						continue
					}
					// equal-edge?
					eqWhenTrue := c.Op == token.EQL
					if c.Op != token.EQL && c.Op != token.NEQ {
						r.Bad("L3+L3c", fk+"/accept-guard", xp, ctx.Name, "acceptance is decided by %v, not by equality", bv)
						continue
					}
					if bv.Neg {
						eqWhenTrue = !eqWhenTrue
					}
					if cmp.Taken != eqWhenTrue {
						r.Bad("L3+L3c", fk+"/accept-guard", xp, ctx.Name, "return nil is reached when the checksums differ (%v taken %v)", bv, cmp.Taken)
						continue
					}
					r.OK("L3+L3c", fk+"/accept-guard", xp, ctx.Name, "return nil only on the equal edge of the checksum comparison")
					// L2: operands
					var la, lb Layout
					okA, okB := false, false
					if c.Kind == "bigcmp" {
						la, okA = c.A.(BigC).asLayout()
						lb, okB = c.B.(BigC).asLayout()
					} else {
						ia, _ := c.A.(IntV)
						ib, _ := c.B.(IntV)
						la, okA = ia.Bits, ia.Kind == ikBits
						lb, okB = ib.Bits, ib.Kind == ikBits
					}
					// both sides shifted left by the same amount (`sum[0]&0xf0 != cs` with cs the
					// checksum in the top bits of its byte): the same comparison without the shift
					if okA && okB {
						na, nb := la.Norm(), lb.Norm()
						if len(na) > 1 && len(nb) > 1 && na[0].Sym == "" && nb[0].Sym == "" && na[0].W.Const() && na[0].W == nb[0].W {
							if sa, ok1 := la.Shr(na[0].W.A); ok1 {
								if sb, ok2 := lb.Shr(nb[0].W.A); ok2 {
									la, lb = sa, sb
								}
							}
						}
					}
					unknownIn := func(l Layout) bool {
						for _, f := range l {
							if strings.Contains(f.Sym, "⊤") {
								return true
							}
						}
						return false
					}
					switch {
					case !okA || !okB:
						r.Unk("L2", fk+"/compared-values", xp, ctx.Name, "cannot describe the compared values as bit layouts: %v", bv)
					case unknownIn(la) || unknownIn(lb):
						// a digest of bytes the evaluation does not know (a buffer from a pool, a value
						// behind an unresolved pointer): nothing can be said about it either way
						r.Unk("L2", fk+"/compared-values", xp, ctx.Name, "the compared values depend on content the evaluation does not know: %v = %v", la, lb)
					case (la.Equal(wantA) && lb.Equal(wantB)) || (la.Equal(wantB) && lb.Equal(wantA)):
						r.OK("L2", fk+"/compared-values", xp, ctx.Name, "compares SHA256(ENT bytes)⟨top %d bits of byte 0⟩ with the low %d bits of the %d-word integer; ENT bytes = Fixed(acc⟨%d:⟩, %d)", cs, cs, W, cs, L)
					default:
						r.Bad("L2", fk+"/compared-values", xp, ctx.Name, "the accepted condition is %v = %v; BIP39 requires %v = %v", la, lb, wantA, wantB)
					}
				} else {
					if cmp != nil {
						if bv := cmp.Val.(BoolV); bv.C.Kind == "lookupok" && cmp.Taken == bv.Neg {
							// taken where a word was NOT found (a `failed` flag tested after the loop):
							// the unknown-word exit, which S2 judges
							continue
						}
					}
					rejects = append(rejects, rejExit{xp, cmp, others, fmt.Sprint(x.Vals[len(x.Vals)-1])})
					if cmp != nil {
						bv := cmp.Val.(BoolV)
						if bv.C.Kind == "bigcmp" || bv.C.Kind == "intcmp" {
							csExits++
						}
					}
				}
			}
			// every failure exit after the lookups is the other edge of that same comparison
			for _, rj := range rejects {
				switch {
				case nilIf == nil && nilExits > 0:
					// the accepting exit is not guarded by a comparison at all: any failure exit
					// after the lookups rejects sentences whatever their checksum
					if rj.cmp != nil || len(rj.others) > 0 {
						r.Bad("L3x", fk+"/reject-only-checksum", rj.pos, ctx.Name, "after all words were found, %s is returned although acceptance is not decided by a checksum comparison: a valid sentence can be rejected", rj.val)
					}
				case nilIf == nil:
				case rj.cmp == nil || rj.cmp.If != nilIf || len(rj.others) > 0:
					what := "unconditionally"
					if rj.cmp != nil && rj.cmp.If != nilIf {
						what = "under " + fmt.Sprint(rj.cmp.Val)
					} else if len(rj.others) > 0 {
						what = "under " + strings.Join(rj.others, " and ")
					}
					r.Bad("L3x", fk+"/reject-only-checksum", rj.pos, ctx.Name, "after all words were found, %s is returned %s, which is not the checksum comparison: a sentence with a correct checksum can be rejected", rj.val, what)
				default:
					r.OK("L3x", fk+"/reject-only-checksum", rj.pos, ctx.Name, "failure exit on the other edge of the checksum comparison")
				}
			}
			if nilExits == 0 {
				r.Bad("L3+L3c", fk+"/accept-guard", pos, ctx.Name, "no exit returns nil for %d words: valid mnemonics cannot be accepted", W)
			}
		}
	}
	r.Counts["L2.contexts"] = nctx
}
