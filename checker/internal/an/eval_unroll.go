package an

import (
	"golang.org/x/tools/go/ssa"
)

// maxUnroll bounds the number of iterations evaluated one by one.
const maxUnroll = 96

// loopSnapshot is what a loop evaluation may change and what is put back if the unrolled
// evaluation is abandoned.
type loopSnapshot struct {
	events   []Event
	calls    []CallRec
	exits    []Exit
	notes    []string
	loops    []LoopInfo
	reads    []ReadInfo
	loopHits map[ssa.Instruction]bool
	edge     map[[2]*ssa.BasicBlock]State
	edgeOK   map[[2]*ssa.BasicBlock]bool
	env      map[ssa.Value]AV
	rets     []retRec
	blockLp  map[*ssa.BasicBlock]*loopCtx
	afterLp  map[*ssa.BasicBlock]bool
	done     map[*ssa.BasicBlock]bool
	phiIn    map[[2]*ssa.BasicBlock]map[*ssa.Phi]AV
	digests  map[string]DigestInfo
}

func (e *Eval) snapshotLoop(fr *frame, done map[*ssa.BasicBlock]bool) *loopSnapshot {
	s := &loopSnapshot{
		events: append([]Event{}, e.Events...), calls: append([]CallRec{}, e.Calls...), exits: append([]Exit{}, e.Exits...),
		notes: append([]string{}, e.Notes...), loops: append([]LoopInfo{}, e.Loops...), reads: append([]ReadInfo{}, e.Reads...),
		loopHits: map[ssa.Instruction]bool{}, edge: map[[2]*ssa.BasicBlock]State{}, edgeOK: map[[2]*ssa.BasicBlock]bool{},
		env: map[ssa.Value]AV{}, rets: append([]retRec{}, fr.rets...), blockLp: map[*ssa.BasicBlock]*loopCtx{},
		afterLp: map[*ssa.BasicBlock]bool{}, done: map[*ssa.BasicBlock]bool{}, phiIn: map[[2]*ssa.BasicBlock]map[*ssa.Phi]AV{}, digests: map[string]DigestInfo{},
	}
	for k, v := range e.LoopHits {
		s.loopHits[k] = v
	}
	for k, v := range fr.edge {
		s.edge[k] = v
	}
	for k, v := range fr.edgeOK {
		s.edgeOK[k] = v
	}
	for k, v := range fr.env {
		s.env[k] = v
	}
	for k, v := range fr.blockLp {
		s.blockLp[k] = v
	}
	for k, v := range fr.afterLp {
		s.afterLp[k] = v
	}
	for k, v := range done {
		s.done[k] = v
	}
	for k, v := range fr.phiIn {
		s.phiIn[k] = v
	}
	for k, v := range e.Digests {
		s.digests[k] = v
	}
	return s
}

func (e *Eval) restoreLoop(fr *frame, done map[*ssa.BasicBlock]bool, s *loopSnapshot) {
	e.Events, e.Calls, e.Exits, e.Notes, e.Loops, e.Reads = s.events, s.calls, s.exits, s.notes, s.loops, s.reads
	e.LoopHits = s.loopHits
	fr.edge, fr.edgeOK, fr.env, fr.rets, fr.blockLp, fr.afterLp, fr.phiIn = s.edge, s.edgeOK, s.env, s.rets, s.blockLp, s.afterLp, s.phiIn
	e.Digests = s.digests
	for k := range done {
		delete(done, k)
	}
	for k, v := range s.done {
		done[k] = v
	}
}

// evalLoopBest evaluates one natural loop: by summary (evalLoop) when that is possible and
// loses nothing, otherwise iteration by iteration; false if neither was possible (the caller
// then treats everything the loop touches as unknown).
func (e *Eval) evalLoopBest(fr *frame, h *ssa.BasicBlock, body map[*ssa.BasicBlock]bool, in State, done map[*ssa.BasicBlock]bool) bool {
	if len(e.activeLoops) > 0 {
		return false // inside a summarised loop: values are parametric in its iteration number
	}
	if e.scanLinesLoop(fr, h, body, in, done) {
		return true
	}
	if e.appendBytesLoop(fr, h, body, in, done) {
		return true
	}
	if !fr.containsInner[h] {
		snap := e.snapshotLoop(fr, done)
		clean := e.evalLoop(fr, h, body, in, done)
		if clean {
			return true
		}
		after := e.snapshotLoop(fr, done)
		e.restoreLoop(fr, done, snap)
		if e.evalLoopUnrolled(fr, h, body, done) {
			return true
		}
		e.restoreLoop(fr, done, after)
		return true
	}
	snap := e.snapshotLoop(fr, done)
	if e.evalLoopUnrolled(fr, h, body, done) {
		return true
	}
	e.restoreLoop(fr, done, snap)
	return false
}

// evalLoopUnrolled evaluates the loop iteration by iteration, each with the concrete (abstract,
// but not symbolic in the iteration number) values the previous one left: no recurrences, no
// symbols.  It is used when the summary of evalLoop lost what the loop computes (nested
// loops, break, loop-carried values or objects without a recognised recurrence) and ends
// when no path leads back to the header; if that does not happen within maxUnroll
// iterations, or a condition deciding whether the loop goes on is unknown for too long, it
// gives up (false) and the caller keeps the summary.
//
// entryOK lists the edges into the header from outside the loop that are feasible.
func (e *Eval) evalLoopUnrolled(fr *frame, h *ssa.BasicBlock, body map[*ssa.BasicBlock]bool, done map[*ssa.BasicBlock]bool) bool {
	for b := range body {
		done[b] = true
	}
	e.loopHeaders = append(e.loopHeaders, h)
	defer func() { e.loopHeaders = e.loopHeaders[:len(e.loopHeaders)-1] }()
	var order []*ssa.BasicBlock
	for _, b := range rpo(fr.fn) {
		if body[b] && b != h {
			order = append(order, b)
		}
	}
	// blocks outside the loop reached only from inside its body (return / error exits):
	// evaluated in the iteration that reaches them
	cand := map[*ssa.BasicBlock]bool{}
	var grow func(b *ssa.BasicBlock)
	grow = func(b *ssa.BasicBlock) {
		if cand[b] || body[b] {
			return
		}
		cand[b] = true
		for _, s := range b.Succs {
			grow(s)
		}
	}
	for b := range body {
		if b == h {
			continue
		}
		for _, s := range b.Succs {
			if !body[s] {
				grow(s)
			}
		}
	}
	for changed := true; changed; {
		changed = false
		for b := range cand {
			for _, p := range b.Preds {
				if !(cand[p] || (body[p] && p != h)) {
					delete(cand, b)
					changed = true
					break
				}
			}
		}
	}
	var candOrder []*ssa.BasicBlock
	for _, b := range rpo(fr.fn) {
		if cand[b] {
			candOrder = append(candOrder, b)
		}
	}
	phis := []*ssa.Phi{}
	for _, in := range h.Instrs {
		if p, ok := in.(*ssa.Phi); ok {
			phis = append(phis, p)
		} else {
			break
		}
	}
	// exit edges (to blocks that are neither in the body nor candidates): states and φ inputs
	// accumulate over the iterations
	type edgeKey = [2]*ssa.BasicBlock
	exitState := map[edgeKey]State{}
	exitVals := map[ssa.Value]AV{} // values defined in the loop, as they stand whenever the loop is left
	noteExit := func(from, to *ssa.BasicBlock, st State) {
		k := edgeKey{from, to}
		if old, ok := exitState[k]; ok {
			exitState[k] = e.joinStatesE(old, st)
		} else {
			exitState[k] = st.clone()
		}
		if fr.phiIn == nil {
			fr.phiIn = map[[2]*ssa.BasicBlock]map[*ssa.Phi]AV{}
		}
		for _, in := range to.Instrs {
			phi, ok := in.(*ssa.Phi)
			if !ok {
				break
			}
			for i, p := range to.Preds {
				if p == from {
					if fr.phiIn[k] == nil {
						fr.phiIn[k] = map[*ssa.Phi]AV{}
					}
					fr.phiIn[k][phi] = joinAV(fr.phiIn[k][phi], e.val(fr, phi.Edges[i]))
				}
			}
		}
		for b := range body {
			for _, in := range b.Instrs {
				if v, ok := in.(ssa.Value); ok {
					if a, ok := fr.env[v]; ok && a != nil {
						exitVals[v] = joinAV(exitVals[v], a)
					}
				}
			}
		}
	}
	// the state and φ values on entry
	var st State
	first := true
	phiVals := map[*ssa.Phi]AV{}
	for i, p := range h.Preds {
		if body[p] || !fr.edgeOK[[2]*ssa.BasicBlock{p, h}] {
			continue
		}
		if first {
			st = fr.edge[[2]*ssa.BasicBlock{p, h}].clone()
			first = false
		} else {
			st = e.joinStatesE(st, fr.edge[[2]*ssa.BasicBlock{p, h}])
		}
		for _, phi := range phis {
			phiVals[phi] = joinAV(phiVals[phi], e.val(fr, phi.Edges[i]))
		}
	}
	if first {
		return false
	}
	fr.unroll++
	defer func() { fr.unroll-- }()
	hits := map[ssa.Instruction]bool{}
	unknownConds := 0
	finished := false
	failed := false
	iters := 0
	for iters = 0; iters < maxUnroll; iters++ {
		for k := range fr.edge {
			if body[k[0]] {
				delete(fr.edge, k)
				delete(fr.edgeOK, k)
			}
		}
		fixed := map[ssa.Value]AV{}
		for phi, v := range phiVals {
			fixed[phi] = v
		}
		fr.topPhis = fixed
		e.evalBlock(fr, h, st)
		fr.topPhis = nil
		if ifi, ok := h.Instrs[len(h.Instrs)-1].(*ssa.If); ok {
			if bv, ok := e.val(fr, ifi.Cond).(BoolV); !ok || !bv.Known {
				unknownConds++
			}
		}
		skip := map[*ssa.BasicBlock]bool{}
		for _, b := range order {
			if skip[b] {
				continue
			}
			in, ok := e.joinPreds(fr, b, body)
			if !ok {
				continue
			}
			if inner, isHeader := fr.loops[b]; isHeader {
				// a loop inside this one: evaluated as a whole, in the state this iteration reaches it with
				local := map[*ssa.BasicBlock]bool{}
				if !e.evalLoopBest(fr, b, inner, in, local) {
					failed = true
					break
				}
				for ib := range inner {
					skip[ib] = true
				}
				for lb := range local {
					skip[lb] = true
				}
				continue
			}
			e.evalBlock(fr, b, in)
		}
		if failed {
			break
		}
		for _, b := range candOrder {
			if skip[b] {
				continue
			}
			in, ok := e.joinPreds(fr, b, nil)
			if !ok {
				continue
			}
			// predecessors evaluated in earlier iterations must not leak in: only edges set in this one
			e.evalBlock(fr, b, in)
			for _, p := range b.Preds {
				delete(fr.edge, [2]*ssa.BasicBlock{p, b})
				delete(fr.edgeOK, [2]*ssa.BasicBlock{p, b})
			}
		}
		// edges leaving the loop for the code after it
		for b := range body {
			for _, s := range b.Succs {
				k := edgeKey{b, s}
				if body[s] || cand[s] || !fr.edgeOK[k] {
					continue
				}
				noteExit(b, s, fr.edge[k])
			}
		}
		// back edges
		var back State
		haveBack := false
		next := map[*ssa.Phi]AV{}
		for i, p := range h.Preds {
			k := edgeKey{p, h}
			if !body[p] || !fr.edgeOK[k] {
				continue
			}
			if !haveBack {
				back = fr.edge[k].clone()
				haveBack = true
			} else {
				back = e.joinStatesE(back, fr.edge[k])
			}
			for _, phi := range phis {
				next[phi] = joinAV(next[phi], e.val(fr, phi.Edges[i]))
			}
		}
		// word lookups: every way round the loop must have passed the hit edge
		for site, o := range e.lkObj {
			if site.Block() == nil || !(body[site.Block()] || e.lkLoopHdr[site] == h) || !haveBack {
				continue
			}
			hit := false
			if c, ok := back[o].(CellC); ok {
				if b, ok := c.V.(BoolV); ok && b.Known && b.Val {
					hit = true
				}
			}
			if prev, seen := hits[site]; seen {
				hits[site] = prev && hit
			} else {
				hits[site] = hit
			}
		}
		if !haveBack {
			finished = true
			iters++
			break
		}
		if unknownConds > 4 {
			break
		}
		st = back
		phiVals = next
	}
	if !finished {
		return false
	}
	if e.LoopHits == nil {
		e.LoopHits = map[ssa.Instruction]bool{}
	}
	for site, hit := range hits {
		e.LoopHits[site] = hit
	}
	// the code after the loop
	for k := range fr.edge {
		if body[k[0]] {
			delete(fr.edge, k)
			delete(fr.edgeOK, k)
		}
	}
	for k, s := range exitState {
		fr.edge[k] = s
		fr.edgeOK[k] = true
		fr.afterLp[k[1]] = true
	}
	for v, a := range exitVals {
		fr.env[v] = a
	}
	for b := range cand {
		done[b] = true
	}
	e.Loops = append(e.Loops, LoopInfo{Fn: fr.fn, Header: h, T: int64(iters), IV: "unrolled", Passes: iters})
	return true
}
