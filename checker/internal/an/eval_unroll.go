package an

import (
	"fmt"
	"go/token"
	"golang.org/x/tools/go/ssa"
)

// worldSet: the values the φ-nodes of an unrolled loop's header held at each of the (distinct)
// ways the loop was left.
type worldSet struct {
	alts   []map[ssa.Value]AV
	states []State         // the state on the exit edge, per way out (parallel to alts)
	joined map[*Obj]string // what each object held once all ways out were joined (to tell whether it was touched since)
	body   map[*ssa.BasicBlock]bool
	site   ssa.Instruction             // for the returns of a call: the call
	lks    []map[ssa.Instruction][2]AV // per way out: the map and key each word lookup was last made with
}

// agrees: the way out (or return) w is consistent with the branch condition cond having the
// value hold.  cond is one of w's own values (a boolean), or a comparison of one of them with
// an integer constant; anything else agrees with everything.  known reports whether cond
// speaks of w's values at all.
func worldAgrees(w map[ssa.Value]AV, cond ssa.Value, hold bool) (agrees, known bool) {
	for {
		u, ok := cond.(*ssa.UnOp)
		if !ok || u.Op != token.NOT {
			break
		}
		hold, cond = !hold, u.X
	}
	if a, in := w[cond]; in {
		if bv, ok := a.(BoolV); ok && bv.Known {
			return bv.Val == hold, true
		}
		return true, true
	}
	bo, ok := cond.(*ssa.BinOp)
	if !ok {
		return true, false
	}
	lhs, rhs, op := bo.X, bo.Y, bo.Op
	if _, isC := intConst(lhs); isC {
		lhs, rhs, op = rhs, lhs, flipOp(op)
	}
	k, isC := intConst(rhs)
	a, in := w[lhs]
	if !isC || !in {
		return true, false
	}
	switch op {
	case token.EQL, token.NEQ, token.LSS, token.LEQ, token.GTR, token.GEQ:
	default:
		return true, false
	}
	iv, ok := a.(IntV)
	if !ok {
		return true, true
	}
	lo, hi, okb := iv.Bounds(0)
	if !okb {
		return true, true
	}
	// does the comparison have the value hold for some value in [lo,hi]?
	possible := false
	for _, p := range []int64{lo, hi, k, k - 1, k + 1} {
		if p < lo || p > hi {
			continue
		}
		if cmpHolds(p, op, k) == hold {
			possible = true
		}
	}
	return possible, true
}

// mergeOnly: the block holds nothing but φ-nodes and the jump to its one successor.
func mergeOnly(b *ssa.BasicBlock) bool {
	if len(b.Succs) != 1 {
		return false
	}
	for _, in := range b.Instrs {
		switch in.(type) {
		case *ssa.Phi, *ssa.Jump, *ssa.DebugRef:
		default:
			return false
		}
	}
	return true
}

// maxUnroll bounds the number of iterations evaluated one by one.
const maxUnroll = 96

// loopSnapshot is what a loop evaluation may change and what is put back if the unrolled
// evaluation is abandoned.
type loopSnapshot struct {
	events   []Event
	calls    []CallRec
	exits    []Exit
	notes    []string
	loops    []LoopInfo
	reads    []ReadInfo
	loopHits map[ssa.Instruction]bool
	edge     map[[2]*ssa.BasicBlock]State
	edgeOK   map[[2]*ssa.BasicBlock]bool
	env      map[ssa.Value]AV
	rets     []retRec
	blockLp  map[*ssa.BasicBlock]*loopCtx
	afterLp  map[*ssa.BasicBlock]bool
	done     map[*ssa.BasicBlock]bool
	phiIn    map[[2]*ssa.BasicBlock]map[*ssa.Phi]AV
	digests  map[string]DigestInfo
}

func (e *Eval) snapshotLoop(fr *frame, done map[*ssa.BasicBlock]bool) *loopSnapshot {
	s := &loopSnapshot{
		events: append([]Event{}, e.Events...), calls: append([]CallRec{}, e.Calls...), exits: append([]Exit{}, e.Exits...),
		notes: append([]string{}, e.Notes...), loops: append([]LoopInfo{}, e.Loops...), reads: append([]ReadInfo{}, e.Reads...),
		loopHits: map[ssa.Instruction]bool{}, edge: map[[2]*ssa.BasicBlock]State{}, edgeOK: map[[2]*ssa.BasicBlock]bool{},
		env: map[ssa.Value]AV{}, rets: append([]retRec{}, fr.rets...), blockLp: map[*ssa.BasicBlock]*loopCtx{},
		afterLp: map[*ssa.BasicBlock]bool{}, done: map[*ssa.BasicBlock]bool{}, phiIn: map[[2]*ssa.BasicBlock]map[*ssa.Phi]AV{}, digests: map[string]DigestInfo{},
	}
	for k, v := range e.LoopHits {
		s.loopHits[k] = v
	}
	for k, v := range fr.edge {
		s.edge[k] = v
	}
	for k, v := range fr.edgeOK {
		s.edgeOK[k] = v
	}
	for k, v := range fr.env {
		s.env[k] = v
	}
	for k, v := range fr.blockLp {
		s.blockLp[k] = v
	}
	for k, v := range fr.afterLp {
		s.afterLp[k] = v
	}
	for k, v := range done {
		s.done[k] = v
	}
	for k, v := range fr.phiIn {
		s.phiIn[k] = v
	}
	for k, v := range e.Digests {
		s.digests[k] = v
	}
	return s
}

func (e *Eval) restoreLoop(fr *frame, done map[*ssa.BasicBlock]bool, s *loopSnapshot) {
	e.Events, e.Calls, e.Exits, e.Notes, e.Loops, e.Reads = s.events, s.calls, s.exits, s.notes, s.loops, s.reads
	e.LoopHits = s.loopHits
	fr.edge, fr.edgeOK, fr.env, fr.rets, fr.blockLp, fr.afterLp, fr.phiIn = s.edge, s.edgeOK, s.env, s.rets, s.blockLp, s.afterLp, s.phiIn
	e.Digests = s.digests
	for k := range done {
		delete(done, k)
	}
	for k, v := range s.done {
		done[k] = v
	}
}

// evalLoopBest evaluates one natural loop: by summary (evalLoop) when that is possible and
// loses nothing, otherwise iteration by iteration; false if neither was possible (the caller
// then treats everything the loop touches as unknown).
func (e *Eval) evalLoopBest(fr *frame, h *ssa.BasicBlock, body map[*ssa.BasicBlock]bool, in State, done map[*ssa.BasicBlock]bool) bool {
	if len(e.activeLoops) > 0 {
		return false // inside a summarised loop: values are parametric in its iteration number
	}
	if e.scanLinesLoop(fr, h, body, in, done) {
		return true
	}
	if e.appendBytesLoop(fr, h, body, in, done) {
		return true
	}
	if e.quoteItemsLoop(fr, h, body, in, done) {
		return true
	}
	if e.filterNonEmptyLoop(fr, h, body, in, done) {
		return true
	}
	if !fr.containsInner[h] {
		snap := e.snapshotLoop(fr, done)
		clean := e.evalLoop(fr, h, body, in, done)
		if clean {
			return true
		}
		after := e.snapshotLoop(fr, done)
		e.restoreLoop(fr, done, snap)
		if e.evalLoopUnrolled(fr, h, body, done) {
			return true
		}
		e.restoreLoop(fr, done, after)
		return true
	}
	snap := e.snapshotLoop(fr, done)
	if e.evalLoopUnrolled(fr, h, body, done) {
		return true
	}
	e.restoreLoop(fr, done, snap)
	return false
}

// evalLoopUnrolled evaluates the loop iteration by iteration, each with the concrete (abstract,
// but not symbolic in the iteration number) values the previous one left: no recurrences, no
// symbols.  It is used when the summary of evalLoop lost what the loop computes (nested
// loops, break, loop-carried values or objects without a recognised recurrence) and ends
// when no path leads back to the header; if that does not happen within maxUnroll
// iterations, or a condition deciding whether the loop goes on is unknown for too long, it
// gives up (false) and the caller keeps the summary.
//
// entryOK lists the edges into the header from outside the loop that are feasible.
func (e *Eval) evalLoopUnrolled(fr *frame, h *ssa.BasicBlock, body map[*ssa.BasicBlock]bool, done map[*ssa.BasicBlock]bool) bool {
	for b := range body {
		done[b] = true
	}
	e.loopHeaders = append(e.loopHeaders, h)
	defer func() { e.loopHeaders = e.loopHeaders[:len(e.loopHeaders)-1] }()
	var order []*ssa.BasicBlock
	for _, b := range rpo(fr.fn) {
		if body[b] && b != h {
			order = append(order, b)
		}
	}
	// blocks outside the loop reached only from inside its body (return / error exits):
	// evaluated in the iteration that reaches them
	cand := map[*ssa.BasicBlock]bool{}
	var grow func(b *ssa.BasicBlock)
	grow = func(b *ssa.BasicBlock) {
		if cand[b] || body[b] {
			return
		}
		cand[b] = true
		for _, s := range b.Succs {
			grow(s)
		}
	}
	for b := range body {
		if b == h {
			continue
		}
		for _, s := range b.Succs {
			if !body[s] {
				grow(s)
			}
		}
	}
	for changed := true; changed; {
		changed = false
		for b := range cand {
			for _, p := range b.Preds {
				if !(cand[p] || (body[p] && p != h)) {
					delete(cand, b)
					changed = true
					break
				}
			}
		}
	}
	var candOrder []*ssa.BasicBlock
	for _, b := range rpo(fr.fn) {
		if cand[b] {
			candOrder = append(candOrder, b)
		}
	}
	phis := []*ssa.Phi{}
	for _, in := range h.Instrs {
		if p, ok := in.(*ssa.Phi); ok {
			phis = append(phis, p)
		} else {
			break
		}
	}
	// exit edges (to blocks that are neither in the body nor candidates): states and φ inputs
	// accumulate over the iterations
	type edgeKey = [2]*ssa.BasicBlock
	exitState := map[edgeKey]State{}
	exitVals := map[ssa.Value]AV{} // values defined in the loop, as they stand whenever the loop is left
	// the values of the header's φ-nodes each time the loop is left, kept apart: after the loop a
	// branch on one of them (`if failed`) selects the exits it is consistent with, and with them
	// the values the others had there (refinements)
	var worlds []map[ssa.Value]AV
	var worldSt []State
	var worldLk []map[ssa.Instruction][2]AV
	var curPhis map[*ssa.Phi]AV
	noteExit := func(from, to *ssa.BasicBlock, st State) {
		if curPhis != nil {
			w := map[ssa.Value]AV{}
			for phi := range curPhis {
				if a, ok := fr.env[phi]; ok && a != nil {
					w[phi] = a
				}
			}
			worlds = append(worlds, w)
			worldSt = append(worldSt, st.clone())
			lk := map[ssa.Instruction][2]AV{}
			for site, mk := range e.lkKey {
				lk[site] = mk
			}
			worldLk = append(worldLk, lk)
		}
		k := edgeKey{from, to}
		if old, ok := exitState[k]; ok {
			exitState[k] = e.joinStatesE(old, st)
		} else {
			exitState[k] = st.clone()
		}
		if fr.phiIn == nil {
			fr.phiIn = map[[2]*ssa.BasicBlock]map[*ssa.Phi]AV{}
		}
		for _, in := range to.Instrs {
			phi, ok := in.(*ssa.Phi)
			if !ok {
				break
			}
			for i, p := range to.Preds {
				if p == from {
					if fr.phiIn[k] == nil {
						fr.phiIn[k] = map[*ssa.Phi]AV{}
					}
					fr.phiIn[k][phi] = joinAV(fr.phiIn[k][phi], e.val(fr, phi.Edges[i]))
				}
			}
		}
		for b := range body {
			for _, in := range b.Instrs {
				if v, ok := in.(ssa.Value); ok {
					if a, ok := fr.env[v]; ok && a != nil {
						exitVals[v] = joinAV(exitVals[v], a)
					}
				}
			}
		}
	}
	// the state and φ values on entry
	var st State
	first := true
	phiVals := map[*ssa.Phi]AV{}
	for i, p := range h.Preds {
		if body[p] || !fr.edgeOK[[2]*ssa.BasicBlock{p, h}] {
			continue
		}
		if first {
			st = fr.edge[[2]*ssa.BasicBlock{p, h}].clone()
			first = false
		} else {
			st = e.joinStatesE(st, fr.edge[[2]*ssa.BasicBlock{p, h}])
		}
		for _, phi := range phis {
			phiVals[phi] = joinAV(phiVals[phi], e.val(fr, phi.Edges[i]))
		}
	}
	if first {
		return false
	}
	fr.unroll++
	defer func() { fr.unroll-- }()
	hits := map[ssa.Instruction]bool{}
	unknownConds := 0
	finished := false
	failed := false
	iters := 0
	// ways round the loop still to be evaluated: normally one (everything that comes back to
	// the header joined), several where the paths that come back differ in what the header's
	// φ-nodes get (a flag set on one arm only): those are followed apart, up to a bound
	type pending struct {
		st  State
		phi map[*ssa.Phi]AV
	}
	queue := []pending{{st, phiVals}}
	delete(fr.worlds, h)
	e.nActs++
	act := e.nActs
	e.unrollActs = append(e.unrollActs, act)
	defer func() { e.unrollActs = e.unrollActs[:len(e.unrollActs)-1] }()
	for iters = 0; iters < 2*maxUnroll && len(queue) > 0; iters++ {
		st, phiVals = queue[0].st, queue[0].phi
		queue = queue[1:]
		curPhis = phiVals
		for k := range fr.edge {
			if body[k[0]] {
				delete(fr.edge, k)
				delete(fr.edgeOK, k)
			}
		}
		fixed := map[ssa.Value]AV{}
		for phi, v := range phiVals {
			fixed[phi] = v
		}
		fr.topPhis = fixed
		e.evalBlock(fr, h, st)
		fr.topPhis = nil
		if ifi, ok := h.Instrs[len(h.Instrs)-1].(*ssa.If); ok {
			if bv, ok := e.val(fr, ifi.Cond).(BoolV); !ok || !bv.Known {
				unknownConds++
			}
		}
		skip := map[*ssa.BasicBlock]bool{}
		for _, b := range order {
			if skip[b] {
				continue
			}
			in, ok := e.joinPreds(fr, b, body)
			if !ok {
				continue
			}
			if inner, isHeader := fr.loops[b]; isHeader {
				// a loop inside this one: evaluated as a whole, in the state this iteration reaches it with
				local := map[*ssa.BasicBlock]bool{}
				if !e.evalLoopBest(fr, b, inner, in, local) {
					failed = true
					break
				}
				for ib := range inner {
					skip[ib] = true
				}
				for lb := range local {
					skip[lb] = true
				}
				continue
			}
			e.evalBlock(fr, b, in)
		}
		if failed {
			break
		}
		for _, b := range candOrder {
			if skip[b] {
				continue
			}
			in, ok := e.joinPreds(fr, b, nil)
			if !ok {
				continue
			}
			// predecessors evaluated in earlier iterations must not leak in: only edges set in this one
			e.evalBlock(fr, b, in)
			for _, p := range b.Preds {
				delete(fr.edge, [2]*ssa.BasicBlock{p, b})
				delete(fr.edgeOK, [2]*ssa.BasicBlock{p, b})
			}
		}
		// edges leaving the loop for the code after it
		for b := range body {
			for _, s := range b.Succs {
				k := edgeKey{b, s}
				if body[s] || cand[s] || !fr.edgeOK[k] {
					continue
				}
				noteExit(b, s, fr.edge[k])
			}
		}
		// back edges: one entry per way back to the header
		var entries []pending
		for i, p := range h.Preds {
			k := edgeKey{p, h}
			if !body[p] || !fr.edgeOK[k] {
				continue
			}
			// a latch that only merges (φ-nodes and a jump) is looked through: one entry per way
			// into it, with the φ values that way gives
			split := false
			if p != h && mergeOnly(p) {
				var qs []int
				for qi, q := range p.Preds {
					if fr.edgeOK[edgeKey{q, p}] {
						qs = append(qs, qi)
					}
				}
				if len(qs) >= 2 {
					split = true
					saved := map[ssa.Value]AV{}
					for _, in := range p.Instrs {
						if lphi, ok := in.(*ssa.Phi); ok {
							saved[lphi] = fr.env[lphi]
						}
					}
					for _, qi := range qs {
						for _, in := range p.Instrs {
							if lphi, ok := in.(*ssa.Phi); ok {
								fr.env[lphi] = e.val(fr, lphi.Edges[qi])
							}
						}
						en := pending{st: fr.edge[edgeKey{p.Preds[qi], p}].clone(), phi: map[*ssa.Phi]AV{}}
						for _, phi := range phis {
							en.phi[phi] = e.val(fr, phi.Edges[i])
						}
						entries = append(entries, en)
					}
					for v, a := range saved {
						fr.env[v] = a
					}
				}
			}
			if !split {
				en := pending{st: fr.edge[k].clone(), phi: map[*ssa.Phi]AV{}}
				for _, phi := range phis {
					en.phi[phi] = e.val(fr, phi.Edges[i])
				}
				entries = append(entries, en)
			}
		}
		// entries that give the header the same values are one
		var merged []pending
		for _, en := range entries {
			found := false
			for mi := range merged {
				same := true
				for _, phi := range phis {
					if fmt.Sprint(merged[mi].phi[phi]) != fmt.Sprint(en.phi[phi]) {
						same = false
						break
					}
				}
				if same {
					merged[mi].st = e.joinStatesE(merged[mi].st, en.st)
					found = true
					break
				}
			}
			if !found {
				merged = append(merged, en)
			}
		}
		entries = merged
		queue = append(queue, entries...)
		if len(queue) > 3 {
			// too many ways apart: one joined entry, as a summary would have it
			j := queue[0]
			for _, en := range queue[1:] {
				j.st = e.joinStatesE(j.st, en.st)
				for _, phi := range phis {
					j.phi[phi] = joinAV(j.phi[phi], en.phi[phi])
				}
			}
			queue = []pending{j}
		}
		if len(queue) == 0 {
			finished = true
			iters++
			break
		}
		if unknownConds > 4 {
			break
		}
	}
	curPhis = nil
	if !finished {
		return false
	}
	// exits that differ in what the header's φ-nodes held: kept for the code after the loop
	{
		var distinct []map[ssa.Value]AV
		var dStates []State
		var dLks []map[ssa.Instruction][2]AV
		for wi, w := range worlds {
			dup := -1
			for di, d := range distinct {
				same := len(d) == len(w)
				for v, a := range w {
					if fmt.Sprint(d[v]) != fmt.Sprint(a) {
						same = false
						break
					}
				}
				if same {
					dup = di
					break
				}
			}
			if dup < 0 {
				distinct = append(distinct, w)
				dStates = append(dStates, worldSt[wi])
				dLks = append(dLks, worldLk[wi])
			} else {
				dStates[dup] = e.joinStatesE(dStates[dup], worldSt[wi])
				for site, mk := range worldLk[wi] {
					old := dLks[dup][site]
					dLks[dup][site] = [2]AV{joinAV(old[0], mk[0]), joinAV(old[1], mk[1])}
				}
			}
		}
		if len(distinct) >= 2 && len(distinct) <= 64 {
			if fr.worlds == nil {
				fr.worlds = map[any]*worldSet{}
			}
			ws := &worldSet{alts: distinct, states: dStates, lks: dLks, body: body, joined: map[*Obj]string{}}
			var all State
			for _, s := range exitState {
				if all == nil {
					all = s.clone()
				} else {
					all = e.joinStatesE(all, s)
				}
			}
			for o, c := range all {
				if c != nil {
					ws.joined[o] = c.String()
				}
			}
			fr.worlds[h] = ws
		}
	}
	if e.LoopHits == nil {
		e.LoopHits = map[ssa.Instruction]bool{}
	}
	// word lookups made in this run of the loop: none was made again where the one before had
	// not certainly found its word (whether the last one did is read off the state at the exit
	// that accepts)
	for site := range e.lkObj {
		if site.Block() == nil || !(body[site.Block()] || e.lkLoopHdr[site] == h) {
			continue
		}
		if e.lkSeenAct[site] == e.unrollActs[0] {
			hits[site] = !e.lkMissCont[site]
		}
	}
	for site, hit := range hits {
		e.LoopHits[site] = hit
		if e.LoopHitsUnrolled == nil {
			e.LoopHitsUnrolled = map[ssa.Instruction]bool{}
		}
		e.LoopHitsUnrolled[site] = true
	}
	// the code after the loop
	for k := range fr.edge {
		if body[k[0]] {
			delete(fr.edge, k)
			delete(fr.edgeOK, k)
		}
	}
	for k, s := range exitState {
		fr.edge[k] = s
		fr.edgeOK[k] = true
		fr.afterLp[k[1]] = true
	}
	for v, a := range exitVals {
		fr.env[v] = a
	}
	for b := range cand {
		done[b] = true
	}
	e.Loops = append(e.Loops, LoopInfo{Fn: fr.fn, Header: h, T: int64(iters), IV: "unrolled", Passes: iters})
	return true
}
