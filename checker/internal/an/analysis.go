package an

import (
	"fmt"
	"go/token"
	"go/types"
	"math"
	"os"
	"runtime/debug"
	"sort"
	"strings"

	"golang.org/x/tools/go/ssa"
)

// Analysis runs every rule on one loaded configuration.
type Analysis struct {
	counters         map[*ssa.Global]bool       // cache of isCounter
	predFixed        map[int]int64              // parameters fixed for the predicate being classified (semanticPredicateFixed)
	descTables       map[*ssa.Global]*descTable // lookup map variable → the descriptor table it is an entry of (T3)
	genOptParams     map[*ssa.Parameter]AV      // parameters of the generator's update function that receive a command-line option, with its default
	genWordsNonEmpty bool                       // the generator drops blank lines before the template runs (W2 → W3)
	genSynthText     string                     // the template equivalent to a hand-rendered generator output (W2 render, W3)
	descGuards       int                        // lookup maps built under the Once of a descriptor-table element
	initBuilt        int                        // lookup maps built during package initialisation (T3)
	inertFns         map[*ssa.Function]bool     // cache of inertFn
	calledFns        map[*ssa.Function]bool     // functions some non-test module code calls or uses as a value (counterDiscipline)
	clsBusy          map[ssa.Value]bool         // classifyErr: values being classified (recursion guard)
	genPairs         *pairTable                 // generator table written as an array of {stem, variable} structs
	kindIs           map[*types.Named]int       // error types whose Is method compares one field: that field (-1: not of that shape)
	P                *Program
	G                *Globals
	Ef               *Effects
	R                *Result

	// API entry points, resolved by exported name
	// (NME, NM, CM, MTS are the functions holding the bodies: a thin forwarding wrapper
	// `func CheckMnemonic(m, lg) error { _, err := decode(m, lg); return err }` is followed,
	// API keeps the exported functions themselves)
	NME, NM, CM, IMV, MTS, Str *ssa.Function
	API                        map[*ssa.Function][]*ssa.Function // body -> the exported function and the wrappers in between
	Exported                   []*ssa.Function

	Gate1, Gate2, Gate3 *GateInfo
	TokCall             *ssa.Call                 // the tokeniser call whose number of results Gate3 is about
	Gate1Param          *ssa.Parameter            // the []byte parameter whose length Gate1 is about (of Gate1.Res.Fn)
	Gate2Param          *ssa.Parameter            // the integer parameter Gate2 is about (of Gate2.Res.Fn)
	ListLang            map[*ssa.Global]*SpecLang // T5: which language a list variable holds
	ListOfLang          map[string]*ssa.Global
	EncList             map[string]*ssa.Global        // T2: list the encoder indexes per language
	MapOf               map[string]*ssa.Global        // T3: lookup map per language name
	MapList             map[*ssa.Global]*ssa.Global   // T3: list a lookup map is the inverse of
	OnceFn              map[*ssa.Global]*ssa.Function // T3: map -> its builder
	Source              *ssa.Global                   // F3: the randomness source variable
	SwapStores          map[ssa.Instruction]bool      // F3b: stores accepted as explicit swaps of the source
	evals               map[string]*Eval
	Contexts            int
	lazy                map[*ssa.Function]*lazyHelper
	lazyInst            map[*ssa.Global][]lazyInst
	inlineProblem       []*lazyHelper
	LazyGuard           map[*ssa.Global]*ssa.Global // guard -> the map it guards through a lazy helper
	genVarField         string                      // W2: the template data field holding the variable name
	genWordsField       string                      // W2: … and the one holding the words
}

// GateInfo is the outcome of a gate rule.
type GateInfo struct {
	Res     *GateResult
	Spec    []int64
	Accept  []int64 // spec values that reach a success exit and no reject exit
	Extra   ZSet    // non-spec values that get past the gate
	Subject string
	OK      bool
}

func fnKey(fn *ssa.Function) string {
	if fn == nil {
		return "?"
	}
	s := fn.String()
	paren := strings.HasPrefix(s, "(")
	if i := strings.LastIndex(s, "/"); i >= 0 {
		s = s[i+1:]
		if paren {
			s = "(" + s
		}
	}
	return s
}

// instrKey identifies an instruction without line numbers: function, kind, ordinal among that kind.
func instrKey(in ssa.Instruction) string {
	if in == nil {
		return "?"
	}
	fn := in.Parent()
	kind := fmt.Sprintf("%T", in)
	kind = strings.TrimPrefix(kind, "*ssa.")
	if c, ok := in.(ssa.CallInstruction); ok {
		cc := c.Common()
		switch {
		case cc.IsInvoke():
			kind = "invoke " + cc.Method.Name()
		case cc.StaticCallee() != nil:
			kind = "call " + fnKey(cc.StaticCallee())
		default:
			if b, ok := cc.Value.(*ssa.Builtin); ok {
				kind = "call " + b.Name()
			}
		}
	}
	n := 0
	found := false
	if fn != nil {
		for _, b := range fn.Blocks {
			for _, x := range b.Instrs {
				if x == in {
					found = true
					break
				}
				if sameKind(x, in) {
					n++
				}
			}
			if found {
				break
			}
		}
	}
	return fmt.Sprintf("%s/%s#%d", fnKey(fn), kind, n)
}

func sameKind(a, b ssa.Instruction) bool {
	if fmt.Sprintf("%T", a) != fmt.Sprintf("%T", b) {
		return false
	}
	ca, ok1 := a.(ssa.CallInstruction)
	cb, ok2 := b.(ssa.CallInstruction)
	if ok1 && ok2 {
		x, y := ca.Common(), cb.Common()
		if x.IsInvoke() != y.IsInvoke() {
			return false
		}
		if x.IsInvoke() {
			return x.Method.Name() == y.Method.Name()
		}
		return x.StaticCallee() == y.StaticCallee()
	}
	return true
}

// poolTypes finds the package-level sync.Pool variables that are used as typed free lists:
// declared with a New function whose every return is a freshly allocated *T, never assigned,
// address used only as the receiver of Get and Put, and every Put hands back a *T.  What Get
// yields is then a *T whose content nothing is known about.
func (a *Analysis) poolTypes() map[*ssa.Global]types.Type {
	out := map[*ssa.Global]types.Type{}
	for _, gl := range a.G.AllGlobals {
		n, ok := gl.Type().(*types.Pointer).Elem().(*types.Named)
		if !ok || n.Obj().Pkg() == nil || n.Obj().Pkg().Path() != "sync" || n.Obj().Name() != "Pool" {
			continue
		}
		// the New function: stored into the New field by the package initialiser
		var newFn *ssa.Function
		good := true
		for _, w := range a.Ef.Writes[gl] {
			if w.Test {
				continue
			}
			st, ok := w.Instr.(*ssa.Store)
			fa, isFA := st.Addr.(*ssa.FieldAddr)
			if !ok || !w.Synth || !isFA || fa.X != ssa.Value(gl) || newFn != nil {
				good = false
				break
			}
			switch f := st.Val.(type) {
			case *ssa.Function:
				newFn = f
			case *ssa.MakeClosure:
				if len(f.Bindings) == 0 {
					newFn, _ = f.Fn.(*ssa.Function)
				}
			}
		}
		if !good || newFn == nil || len(newFn.Blocks) == 0 {
			continue
		}
		var elem types.Type
		for _, ret := range returnsOf(newFn) {
			mi, ok := ret.Results[0].(*ssa.MakeInterface)
			if !ok {
				good = false
				break
			}
			al, ok := mi.X.(*ssa.Alloc)
			if !ok || !al.Heap || (elem != nil && !types.Identical(elem, al.Type())) {
				good = false
				break
			}
			elem = al.Type()
		}
		if !good || elem == nil {
			continue
		}
		for _, u := range a.Ef.AddrUse[gl] {
			if a.P.IsTestFunc(u.Parent()) {
				continue
			}
			c, ok := u.(ssa.CallInstruction)
			if !ok || len(c.Common().Args) == 0 || c.Common().Args[0] != ssa.Value(gl) {
				good = false
				break
			}
			switch calleeName(c) {
			case "(*sync.Pool).Get":
			case "(*sync.Pool).Put":
				mi, ok := c.Common().Args[1].(*ssa.MakeInterface)
				if !ok || !types.Identical(mi.X.Type(), elem) {
					good = false
				}
			default:
				good = false
			}
		}
		// only what the evaluator models as "a buffer with stale content": a pointer to a byte
		// array.  Anything else (a struct with a cursor, a hash state) stays shared mutable state
		// as far as E1 is concerned.
		if pt, ok := elem.(*types.Pointer); ok {
			if at, ok := pt.Elem().Underlying().(*types.Array); ok {
				if b, ok := at.Elem().Underlying().(*types.Basic); !ok || b.Kind() != types.Uint8 {
					good = false
				}
			} else {
				good = false
			}
		} else {
			good = false
		}
		if good && len(a.Ef.Escapes[gl]) == 0 {
			out[gl] = elem
		}
	}
	return out
}

// NewAnalysis resolves the anchors and runs all rules.
func NewAnalysis(p *Program) *Analysis {
	a := &Analysis{P: p, R: NewResult(), evals: map[string]*Eval{}, ListLang: map[*ssa.Global]*SpecLang{}, ListOfLang: map[string]*ssa.Global{},
		SwapStores: map[ssa.Instruction]bool{}, MapList: map[*ssa.Global]*ssa.Global{}, EncList: map[string]*ssa.Global{}, MapOf: map[string]*ssa.Global{}, OnceFn: map[*ssa.Global]*ssa.Function{}}
	a.G = BuildGlobals(p)
	a.Ef = BuildEffects(p)
	a.G.PoolElem = a.poolTypes()
	// function-valued package variables that only their declaration assigns and whose address
	// is never taken (seams for tests): calls through them are calls of that function
	a.G.SeamOK = map[*ssa.Global]bool{}
	for gl, iv := range a.G.Init {
		if _, isFn := iv.(FuncV); !isFn {
			continue
		}
		ok := true
		for _, w := range a.Ef.Writes[gl] {
			if !w.Test && !(w.Synth && w.Kind == "store") {
				ok = false
			}
		}
		for _, u := range a.Ef.AddrUse[gl] {
			if !p.IsTestFunc(u.Parent()) {
				ok = false
			}
		}
		if len(a.Ef.Escapes[gl]) > 0 {
			ok = false
		}
		a.G.SeamOK[gl] = ok
	}
	a.G.SentAlias = a.sentinelAliases()
	a.NME = p.Root.Func("NewMnemonicByEntropy")
	a.NM = p.Root.Func("NewMnemonic")
	a.CM = p.Root.Func("CheckMnemonic")
	a.IMV = p.Root.Func("IsMnemonicValid")
	a.MTS = p.Root.Func("MnemonicToSeed")
	if a.G.LangType != nil {
		for _, t := range []types.Type{a.G.LangType, types.NewPointer(a.G.LangType)} {
			ms := p.SSA.MethodSets.MethodSet(t)
			for i := 0; i < ms.Len(); i++ {
				if ms.At(i).Obj().Name() == "String" && a.Str == nil {
					a.Str = p.SSA.MethodValue(ms.At(i))
				}
			}
		}
	}
	for name, fn := range map[string]*ssa.Function{"NewMnemonicByEntropy": a.NME, "NewMnemonic": a.NM, "CheckMnemonic": a.CM, "IsMnemonicValid": a.IMV, "MnemonicToSeed": a.MTS, "Language.String": a.Str} {
		if fn == nil || len(fn.Blocks) == 0 {
			a.R.Unk("ANCHOR", name, "-", "", "exported anchor %s not found in package %s", name, p.ModPath)
		} else {
			a.R.OK("ANCHOR", name, p.Pos(fn.Pos()), "", "resolved")
		}
	}
	a.detectWalker()
	a.API = map[*ssa.Function][]*ssa.Function{}
	for _, slot := range []**ssa.Function{&a.NME, &a.NM, &a.CM, &a.MTS} {
		api := *slot
		if api == nil {
			continue
		}
		chain := []*ssa.Function{api}
		cur := api
		for i := 0; i < 4; i++ {
			g := a.thinTarget(cur)
			if g == nil {
				break
			}
			a.R.OK("ANCHOR", api.Name()+"/forwards", p.Pos(cur.Pos()), "", "%s only forwards its arguments to %s and returns its results: the rules are applied to %s", fnKey(cur), fnKey(g), fnKey(g))
			cur = g
			chain = append(chain, g)
		}
		*slot = cur
		a.API[cur] = chain
	}
	// every exported function and method of the root package
	seen := map[*ssa.Function]bool{}
	sc := p.Root.Pkg.Scope()
	for _, n := range sc.Names() {
		obj := sc.Lookup(n)
		if !obj.Exported() {
			continue
		}
		switch o := obj.(type) {
		case *types.Func:
			if fn := p.Root.Func(n); fn != nil && !seen[fn] {
				seen[fn] = true
				a.Exported = append(a.Exported, fn)
			}
		case *types.TypeName:
			for _, t := range []types.Type{o.Type(), types.NewPointer(o.Type())} {
				ms := p.SSA.MethodSets.MethodSet(t)
				for i := 0; i < ms.Len(); i++ {
					if !ms.At(i).Obj().Exported() {
						continue
					}
					fn := p.SSA.MethodValue(ms.At(i))
					if fn != nil && fn.Synthetic == "" && !seen[fn] && len(fn.Blocks) > 0 {
						seen[fn] = true
						a.Exported = append(a.Exported, fn)
					}
				}
			}
		}
	}
	sort.Slice(a.Exported, func(i, j int) bool { return fnKey(a.Exported[i]) < fnKey(a.Exported[j]) })
	return a
}

// thinTarget: fn consists of one call of a module function with fn's own parameters, in
// order, as the arguments, and returns that call's results (all of them in order, or just
// the last one) — nothing else.  Returns the callee, or nil.
func (a *Analysis) thinTarget(fn *ssa.Function) *ssa.Function {
	if fn == nil || len(fn.Blocks) != 1 || len(fn.FreeVars) != 0 {
		return nil
	}
	var call *ssa.Call
	var ret *ssa.Return
	for _, in := range fn.Blocks[0].Instrs {
		switch x := in.(type) {
		case *ssa.DebugRef, *ssa.Extract:
		case *ssa.UnOp:
			if loadedGlobal(x) == nil {
				return nil
			}
		case *ssa.Call:
			if call != nil {
				return nil
			}
			call = x
		case *ssa.Return:
			ret = x
		default:
			return nil
		}
	}
	if call == nil || ret == nil {
		return nil
	}
	g := call.Call.StaticCallee()
	if g == nil || !a.isModuleFunc(g) || g.Parent() != nil || len(g.Blocks) == 0 || g == fn {
		return nil
	}
	if len(g.Params) != len(call.Call.Args) || len(call.Call.Args) < len(fn.Params) {
		return nil
	}
	// the wrapper's own parameters, in order; any other argument is the value of a
	// package-level variable (a collaborator handed down: the randomness source, a word list)
	next := 0
	extra := map[*ssa.Parameter]*ssa.Global{}
	for i, arg := range call.Call.Args {
		if next < len(fn.Params) && arg == ssa.Value(fn.Params[next]) {
			next++
			continue
		}
		gl := loadedGlobal(arg)
		if gl == nil || gl.Pkg == nil || !a.P.InModule(gl.Pkg) {
			return nil
		}
		extra[g.Params[i]] = gl
	}
	if next != len(fn.Params) {
		return nil
	}
	for p, gl := range extra {
		if a.P.paramGlobal == nil {
			a.P.paramGlobal = map[*ssa.Parameter]*ssa.Global{}
		}
		a.P.paramGlobal[p] = gl
	}
	nres := g.Signature.Results().Len()
	resultOf := func(v ssa.Value) int {
		if v == ssa.Value(call) && nres == 1 {
			return 0
		}
		if ex, ok := v.(*ssa.Extract); ok && ex.Tuple == ssa.Value(call) {
			return ex.Index
		}
		return -1
	}
	switch {
	case len(ret.Results) == nres:
		for i, v := range ret.Results {
			if resultOf(v) != i {
				return nil
			}
		}
	case len(ret.Results) == 1:
		if resultOf(ret.Results[0]) != nres-1 {
			return nil
		}
	default:
		return nil
	}
	return g
}

// sentinelAliases: an exported sentinel declared as the value of another error variable of the
// module (`ErrWordLen = sizes.ErrWordLen`, the root package re-exporting it) holds that
// variable's value for the life of the program when each of the two is assigned by its
// declaration only and the other variable's address goes nowhere: a load of the inner variable
// is then the exported sentinel.  The map goes from the inner variable to the exported one; an
// inner variable two sentinels are declared from maps to nil.
func (a *Analysis) sentinelAliases() map[*ssa.Global]*ssa.Global {
	out := map[*ssa.Global]*ssa.Global{}
	onlyDecl := func(g *ssa.Global) *ssa.Store {
		var st *ssa.Store
		n := 0
		for _, w := range a.Ef.Writes[g] {
			if w.Test {
				continue
			}
			n++
			if w.Synth && w.Kind == "store" {
				st, _ = w.Instr.(*ssa.Store)
			}
		}
		if n != 1 {
			return nil
		}
		return st
	}
	for _, name := range []string{"ErrWordLen", "ErrEntropyLen", "ErrChecksumIncorrect"} {
		r, _ := a.P.Root.Members[name].(*ssa.Global)
		if r == nil {
			continue
		}
		st := onlyDecl(r)
		if st == nil {
			continue
		}
		h := loadedGlobal(st.Val)
		if h == nil || h == r || h.Pkg == nil || !a.P.InModule(h.Pkg) || !isErrorType(h.Type().(*types.Pointer).Elem()) {
			continue
		}
		if onlyDecl(h) == nil || len(a.Ef.Escapes[h]) > 0 {
			continue
		}
		quiet := true
		for _, u := range a.Ef.AddrUse[h] {
			if !a.P.IsTestFunc(u.Parent()) {
				quiet = false
			}
		}
		if !quiet {
			continue
		}
		if _, dup := out[h]; dup {
			out[h] = nil
			continue
		}
		out[h] = r
	}
	return out
}

// canonSentinel: the exported sentinel g stands for (g itself unless it is re-exported).
func (a *Analysis) canonSentinel(g *ssa.Global) *ssa.Global {
	if r := a.G.SentAlias[g]; r != nil {
		return r
	}
	return g
}

// isAnchor: fn is the body function `body` or one of the functions forwarding to it.
func (a *Analysis) isAnchor(fn, body *ssa.Function) bool {
	if fn == nil || body == nil {
		return false
	}
	if fn == body {
		return true
	}
	for _, f := range a.API[body] {
		if f == fn {
			return true
		}
	}
	return false
}

// RunAll executes the rule catalogue (order matters: tables before the rules that use them).
func (a *Analysis) RunAll() {
	steps := []struct {
		name string
		f    func()
	}{
		{"T1", a.ruleT1}, {"T5", a.ruleT5}, {"E2", a.ruleE2}, {"T3", a.ruleT3}, {"G", a.ruleGates}, {"S1", a.ruleS1},
		{"T2", a.ruleT2T6}, {"T4", a.ruleT4}, {"F3", a.ruleF3}, {"E1", a.ruleE1}, {"F1", a.ruleF1}, {"F2", a.ruleF2}, {"F4", a.ruleF4},
		{"S2", a.ruleS2}, {"S3", a.ruleS3}, {"L", a.ruleLayouts}, {"P", a.ruleP}, {"W", a.ruleW},
	}
	for _, s := range steps {
		func() {
			defer func() {
				if r := recover(); r != nil {
					if os.Getenv("BIPDBG") != "" {
						debug.PrintStack()
					}
					a.R.Unk(s.name, "analyser", "-", "", "analyser panic in rule group %s: %v", s.name, r)
				}
			}()
			s.f()
		}()
	}
	a.finishE1()
	a.R.Counts["contexts"] = a.Contexts
}

// ---------------------------------------------------------------- contexts

// LangCtx is one language class: a declared constant or an interval of other values.
type LangCtx struct {
	Name  string
	Const *LangConst
	V     IntV
}

func (a *Analysis) langCtxs() []LangCtx {
	var out []LangCtx
	for i := range a.G.LangConst {
		c := &a.G.LangConst[i]
		out = append(out, LangCtx{Name: c.Name, Const: c, V: CInt(c.Val)})
	}
	// the complement of the constant set, as intervals of the underlying type
	lo, hi := int64(math.MinInt64), int64(math.MaxInt64)
	if a.G.LangType != nil {
		if b, ok := a.G.LangType.Underlying().(*types.Basic); ok {
			e := &Eval{P: a.P}
			l, h, _, _, ok := e.typeRange(b)
			if ok {
				lo, hi = l, h
			}
		}
	}
	vals := []int64{}
	for _, c := range a.G.LangConst {
		vals = append(vals, c.Val)
	}
	sort.Slice(vals, func(i, j int) bool { return vals[i] < vals[j] })
	cur := lo
	for _, v := range vals {
		if v > cur {
			out = append(out, LangCtx{Name: fmt.Sprintf("other[%s..%d]", boundStr(cur), v-1), V: RangeInt(cur, v-1)})
		}
		if v == math.MaxInt64 {
			return out
		}
		if v+1 > cur {
			cur = v + 1
		}
	}
	if cur <= hi {
		out = append(out, LangCtx{Name: fmt.Sprintf("other[%d..%s]", cur, boundStr(hi)), V: RangeInt(cur, hi)})
	}
	return out
}

// eval evaluates entry fn in the context (memoised).
func (a *Analysis) eval(fn *ssa.Function, ctx *Ctx) *Eval {
	key := fnKey(fn) + "|" + ctx.Name
	if e, ok := a.evals[key]; ok {
		return e
	}
	e := NewEval(a.P, a.G, ctx)
	e.Run(fn)
	a.evals[key] = e
	a.Contexts++
	return e
}

// sizeCtx builds the context for an entry point: size value (nil = the rejected class) and language.
func (a *Analysis) sizeCtx(kind string, size *int64, g *GateInfo, lc LangCtx) *Ctx {
	ctx := &Ctx{Lang: &lc.V}
	sz := "rejected"
	if size != nil {
		sz = fmt.Sprint(*size)
	}
	ctx.Name = fmt.Sprintf("%s=%s,lang=%s", kind, sz, lc.Name)
	switch kind {
	case "L":
		ctx.EntLen = size
	case "W":
		ctx.WordCount = size
	case "N":
		ctx.TokCount = size
	}
	if size == nil && g != nil && g.Res != nil {
		ctx.Infeasible = map[*ssa.BasicBlock]bool{}
		past := append([]int64{}, g.Accept...)
		for _, b := range g.Res.Fn.Blocks {
			r, ok := g.Res.Reach[b]
			if g.Res.Pre[b] {
				continue
			}
			if !ok || r.MinusFinite(past).Empty() {
				ctx.Infeasible[b] = true
			}
		}
	}
	return ctx
}

// passed lists the subject values that get past a gate and can be enumerated as contexts.
func (g *GateInfo) passed() []int64 {
	if g == nil {
		return nil
	}
	out := append([]int64{}, g.Accept...)
	if vs, ok := g.Extra.Enumerate(64); ok {
		out = append(out, vs...)
	}
	sort.Slice(out, func(i, j int) bool { return out[i] < out[j] })
	return out
}

// ---------------------------------------------------------------- small SSA helpers

func loadedGlobal(v ssa.Value) *ssa.Global {
	if u, ok := v.(*ssa.UnOp); ok && u.Op == token.MUL {
		if g, ok := u.X.(*ssa.Global); ok {
			return g
		}
	}
	return nil
}

func isNilConst(v ssa.Value) bool {
	c, ok := v.(*ssa.Const)
	return ok && c.Value == nil
}

func strConst(v ssa.Value) (string, bool) {
	c, ok := v.(*ssa.Const)
	if !ok || c.Value == nil {
		return "", false
	}
	if s, ok := constStr(c); ok {
		return s, true
	}
	return "", false
}

func returnsOf(fn *ssa.Function) []*ssa.Return {
	var out []*ssa.Return
	for _, b := range fn.Blocks {
		if len(b.Instrs) == 0 {
			continue
		}
		if r, ok := b.Instrs[len(b.Instrs)-1].(*ssa.Return); ok {
			out = append(out, r)
		}
	}
	return out
}

func callsIn(fn *ssa.Function) []ssa.CallInstruction {
	var out []ssa.CallInstruction
	for _, b := range fn.Blocks {
		for _, in := range b.Instrs {
			if c, ok := in.(ssa.CallInstruction); ok {
				out = append(out, c)
			}
		}
	}
	return out
}

func calleeName(c ssa.CallInstruction) string {
	cc := c.Common()
	if cc.IsInvoke() {
		return "invoke:" + cc.Method.Name()
	}
	if b, ok := cc.Value.(*ssa.Builtin); ok {
		return b.Name()
	}
	if f := cc.StaticCallee(); f != nil {
		return f.String()
	}
	return "dynamic"
}

// rejectCtxs builds the contexts for the sizes a gate rejects: one per cell of the
// complement of the accepted sizes (an interval, possibly with a residue class), each with
// the subject bounded by the cell and the blocks no value of the cell can reach marked infeasible.
func (a *Analysis) rejectCtxs(kind string, g *GateInfo, lc LangCtx) []*Ctx {
	if g == nil || g.Res == nil {
		return []*Ctx{a.sizeCtx(kind, nil, g, lc)}
	}
	rej := g.Res.Domain.MinusFinite(g.passed())
	if len(rej.cells) == 0 || len(rej.cells) > 24 {
		return []*Ctx{a.sizeCtx(kind, nil, g, lc)}
	}
	var out []*Ctx
	for _, c := range rej.cells {
		cell := ZSet{[]zcell{c}}
		ctx := &Ctx{Lang: &lc.V, SizeKind: kind, SizeRange: &[2]int64{c.lo, c.hi}}
		ctx.Name = fmt.Sprintf("%s∈%v(rejected),lang=%s", kind, cell, lc.Name)
		ctx.Infeasible = map[*ssa.BasicBlock]bool{}
		for _, b := range g.Res.Fn.Blocks {
			if g.Res.Pre[b] {
				continue
			}
			r, ok := g.Res.Reach[b]
			if !ok || intersectCell(r, c).Empty() {
				ctx.Infeasible[b] = true
			}
		}
		out = append(out, ctx)
	}
	return out
}

// intersectCell: z ∩ { lo..hi, ≡ r mod m }
func intersectCell(z ZSet, c zcell) ZSet {
	return z.clip(c.lo, c.hi).residue(c.m, c.r)
}
