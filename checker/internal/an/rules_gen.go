package an

import (
	"fmt"
	"go/ast"
	"go/constant"
	"go/token"
	"go/types"
	"os"
	"path/filepath"
	"sort"
	"strings"
	"text/template/parse"

	"golang.org/x/tools/go/packages"
	"golang.org/x/tools/go/ssa"
)

// ruleW: structural necessary conditions on the word-list generator (W1 table agreement,
// W2 pipeline shape, W3 template shape).
func (a *Analysis) ruleW() {
	r := a.R
	if a.P.Gen == nil || a.P.GenP == nil {
		r.Unk("W1", "generator", "-", "", "no package main (update-wordlist) found in the module")
		return
	}
	mainFn := a.P.Gen.Func("main")
	if mainFn == nil {
		r.Unk("W1", "generator/main", "-", "", "generator has no main")
		return
	}
	// ---- W1: the stem -> variable table
	table, tablePos, tableVar := a.genTable()
	if table == nil {
		r.Unk("W1", "generator/table", a.P.Pos(mainFn.Pos()), "", "no package-level map[string]string literal of constants found in the generator")
		return
	}
	r.Counts["W1.entries"] = len(table)
	if len(table) != len(SpecLangs) {
		r.Bad("W1", "table/count", tablePos, "", "the generator table has %d entries, BIP39 has %d lists", len(table), len(SpecLangs))
	} else {
		r.OK("W1", "table/count", tablePos, "", "%d entries", len(table))
	}
	stems := make([]string, 0, len(table))
	for s := range table {
		stems = append(stems, s)
	}
	sort.Strings(stems)
	usedVar := map[string]string{}
	outDir := a.genOutDir()
	for _, stem := range stems {
		v := table[stem]
		key := "table/" + stem
		sp := specByStem(stem)
		if sp == nil {
			r.Bad("W1", key, tablePos, "", "%q is not an upstream BIP39 list file stem", stem)
			continue
		}
		if prev, dup := usedVar[v]; dup {
			r.Bad("W1", key, tablePos, "", "variable %s is the target of both %q and %q", v, prev, stem)
			continue
		}
		usedVar[v] = stem
		want := a.ListOfLang[sp.Name]
		switch {
		case want == nil:
			r.Bad("W1", key, tablePos, "", "no committed list holds the canonical %s content, cannot tie %q to a variable", sp.Name, stem)
		case want.Name() != v:
			r.Bad("W1", key, tablePos, "", "upstream %s.txt (the %s list) is written to variable %s, but the library reads %s from variable %s", stem, sp.Name, v, sp.Name, want.Name())
		default:
			// the committed file <outDir>/<stem>.go declares exactly that variable
			file := filepath.Join(outDir, stem+".go")
			decl := a.declaredVars(file)
			if len(decl) == 1 && decl[0] == v {
				r.OK("W1", key, tablePos, "", "%s.txt → var %s in %s (holds the canonical %s list)", stem, v, file, sp.Name)
			} else {
				r.Bad("W1", key, tablePos, "", "%s should declare exactly variable %s, it declares %v", file, v, decl)
			}
		}
	}
	for _, sp := range SpecLangs {
		if _, ok := table[sp.Stem]; !ok {
			r.Bad("W1", "table/"+sp.Stem, tablePos, "", "no table entry for upstream file %s.txt", sp.Stem)
		}
	}
	// ---- main: ranges over the table, passes (key, value) in that order, stops on error
	var upd *ssa.Function
	okMain := false
	// the driver loop is in main or in a function main (transitively) calls (`func run() error`)
	// (breadth first from main: the driver is the function nearest to main that calls a
	// two-argument function of the generator from which the template is executed; what that
	// function calls in turn are steps of the update, not drivers)
	isUpdateCall := func(c ssa.CallInstruction) bool {
		callee := c.Common().StaticCallee()
		if callee == nil || callee.Pkg != a.P.Gen || callee == c.Parent() {
			return false
		}
		if sa, ok := updateArgs(c); !ok || len(sa) != 2 {
			return false
		}
		for f := range a.reachableFrom(callee) {
			for _, cc := range callsIn(f) {
				if n := calleeName(cc); n == "(*html/template.Template).Execute" || n == "(*text/template.Template).Execute" || n == "strconv.Quote" {
					return true // renders through a template, or by hand with strconv.Quote
				}
			}
		}
		return false
	}
	var driverCalls []ssa.CallInstruction
	level := []*ssa.Function{mainFn}
	visited := map[*ssa.Function]bool{mainFn: true}
	for depth := 0; depth < 6 && len(level) > 0 && len(driverCalls) == 0; depth++ {
		sort.Slice(level, func(i, j int) bool { return fnKey(level[i]) < fnKey(level[j]) })
		var next []*ssa.Function
		for _, f := range level {
			for _, c := range callsIn(f) {
				if isUpdateCall(c) {
					driverCalls = append(driverCalls, c)
				}
				if g := c.Common().StaticCallee(); g != nil && a.isModuleFunc(g) && len(g.Blocks) > 0 && !visited[g] {
					visited[g] = true
					next = append(next, g)
				}
			}
		}
		level = next
	}
	for _, c := range driverCalls {
		callee := c.Common().StaticCallee()
		sargs, _ := updateArgs(c)
		for p, d := range optionParams(c) {
			if a.genOptParams == nil {
				a.genOptParams = map[*ssa.Parameter]AV{}
			}
			if old, seen := a.genOptParams[p]; seen && old.String() != d.String() {
				d = TopV{"different options at different call sites"}
			}
			a.genOptParams[p] = d
		}
		if lk, ok := sargs[1].(*ssa.Lookup); ok && !lk.CommaOk && lk.Index == sargs[0] && loadedGlobal(lk.X) == tableVar {
			// update(stem, table[stem]): the pair is an entry of the table whatever the stem is
			upd = callee
			okMain = true
			r.OK("W1", "main/arguments", a.P.InstrPos(c), "", "%s(stem, %s[stem]): file stem and variable are one entry of the table", fnKey(callee), tableVar.Name())
			a.checkMainStops(c)
			continue
		}
		if pt := a.genPairs; pt != nil {
			e0, f0, ok0 := pairElemField(sargs[0], pt.Var)
			e1, f1, ok1 := pairElemField(sargs[1], pt.Var)
			if ok0 && ok1 && e0 == e1 && f0 == pt.Stem && f1 == pt.Variable {
				// the loop that yields the element must go over the whole table: a range over it
				if a.rangesOverWholeTable(c, pt.Var) {
					upd = callee
					okMain = true
					r.OK("W1", "main/arguments", a.P.InstrPos(c), "", "%s(element.%d, element.%d) for every element of %s: file stem and variable are one entry of the table", fnKey(callee), f0, f1, pt.Var.Name())
				} else {
					r.Bad("W1", "main/arguments", a.P.InstrPos(c), "", "the update function is not called for every element of %s", pt.Var.Name())
				}
			} else {
				r.Bad("W1", "main/arguments", a.P.InstrPos(c), "", "the update function is not called with the two fields of one element of the table")
			}
			a.checkMainStops(c)
			continue
		}
		k, okk := sargs[0].(*ssa.Extract)
		v, okv := sargs[1].(*ssa.Extract)
		if !okk || !okv {
			r.Bad("W1", "main/arguments", a.P.InstrPos(c), "", "the update function is not called with the table's key and value")
			continue
		}
		nx, ok1 := k.Tuple.(*ssa.Next)
		nx2, ok2 := v.Tuple.(*ssa.Next)
		if !ok1 || !ok2 || nx != nx2 {
			r.Bad("W1", "main/arguments", a.P.InstrPos(c), "", "the update function is not called with the table's key and value")
			continue
		}
		rg, _ := nx.Iter.(*ssa.Range)
		if rg == nil || loadedGlobal(rg.X) != tableVar {
			r.Bad("W1", "main/arguments", a.P.InstrPos(c), "", "main does not range over the table %s", tableVar.Name())
			continue
		}
		upd = callee
		if k.Index == 1 && v.Index == 2 {
			r.OK("W1", "main/arguments", a.P.InstrPos(c), "", "%s(key=file stem, value=variable)", fnKey(callee))
			okMain = true
		} else {
			r.Bad("W1", "main/arguments", a.P.InstrPos(c), "", "main passes the table's value as file stem and its key as variable name (swapped)")
		}
		a.checkMainStops(c)
	}
	if upd == nil {
		r.Unk("W2", "generator/update-function", a.P.Pos(mainFn.Pos()), "", "main does not call a two-argument update function of the generator")
		return
	}
	_ = okMain
	a.ruleW2(upd)
}

// checkMainStops: the run terminates when the update call c fails — the failing edge of the
// test of its error ends in log.Fatal / os.Exit / panic, or returns a non-nil error to a
// caller that (recursively) does the same.
func (a *Analysis) checkMainStops(c ssa.CallInstruction) {
	r := a.R
	var stops func(c ssa.CallInstruction, depth int) bool
	stops = func(c ssa.CallInstruction, depth int) bool {
		call, ok := c.(*ssa.Call)
		if !ok || depth > 4 {
			return false
		}
		res := call.Call.Signature().Results()
		var ev ssa.Value = call
		if res.Len() > 1 {
			ev = nil
			for _, ref := range *call.Referrers() {
				if ex, ok := ref.(*ssa.Extract); ok && ex.Index == res.Len()-1 {
					ev = ex
				}
			}
		}
		if ev == nil {
			return false
		}
		fn := call.Parent()
		found := false
		for _, ref := range *ev.Referrers() {
			// `return update(...)` / `return err`: the error goes to the caller as it is
			if ret, ok := ref.(*ssa.Return); ok {
				_ = ret
				all, any := true, false
				for _, site := range a.Ef.callSites(fn) {
					any = true
					if !stops(site, depth+1) {
						all = false
					}
				}
				if any && all {
					found = true
				}
				continue
			}
			bo, ok := ref.(*ssa.BinOp)
			if !ok || bo.Op != token.NEQ {
				continue
			}
			for _, br := range *bo.Referrers() {
				ifi, ok := br.(*ssa.If)
				if !ok {
					continue
				}
				errSucc := ifi.Block().Succs[0]
				if len(errSucc.Preds) != 1 {
					r.Bad("W2", "main/stop-on-error", a.P.InstrPos(ifi), "", "the fatal branch is also reached when the update did not fail (the error test is combined with another condition): some lists would not be regenerated")
				}
				for _, in := range errSucc.Instrs {
					if cc, ok := in.(ssa.CallInstruction); ok {
						n := calleeName(cc)
						if strings.HasPrefix(n, "log.Fatal") || n == "os.Exit" || strings.HasPrefix(n, "log.Panic") || n == "panic" {
							found = true
						}
					}
					if _, ok := in.(*ssa.Panic); ok {
						found = true
					}
					// the failure is put on a list (`errs = append(errs, fmt.Errorf("…: %w", err))`),
					// the run goes on, and after it errors.Join(errs...) is tested and is fatal
					if ap, ok := in.(*ssa.Call); ok && calleeName(ap) == "append" && len(ap.Call.Args) == 2 && a.appendsFailure(ap, ev) {
						if jc := joinOfCollected(ap); jc != nil && stops(jc, depth+1) {
							found = true
						}
					}
					if ret, ok := in.(*ssa.Return); ok && len(ret.Results) > 0 {
						v := returnedValue(ret, len(ret.Results)-1)
						isErr := v == ev
						if cv, ok := v.(*ssa.Call); ok && (calleeName(cv) == "fmt.Errorf" || calleeName(cv) == "errors.New") {
							isErr = true
						}
						if isErr {
							all, any := true, false
							for _, site := range a.Ef.callSites(fn) {
								any = true
								if !stops(site, depth+1) {
									all = false
								}
							}
							if any && all {
								found = true
							}
						}
					}
				}
			}
		}
		return found
	}
	r.Check(stops(c, 0), "W2", "main/stop-on-error", a.P.InstrPos(c), "", "the run stops when an update fails", "the run carries on after a failed update: a truncated or missing list file could be committed")
}

// appendsFailure: the variadic part of append call ap is exactly one element, and it is the
// error ev itself or a freshly built error (fmt.Errorf / errors.New): never nil.
func (a *Analysis) appendsFailure(ap *ssa.Call, ev ssa.Value) bool {
	sl, ok := ap.Call.Args[1].(*ssa.Slice)
	if !ok {
		return false
	}
	arr, ok := sl.X.(*ssa.Alloc)
	if !ok {
		return false
	}
	n := 0
	good := true
	for _, ref := range *arr.Referrers() {
		ia, ok := ref.(*ssa.IndexAddr)
		if !ok {
			continue
		}
		for _, r2 := range *ia.Referrers() {
			st, ok := r2.(*ssa.Store)
			if !ok {
				continue
			}
			n++
			v := st.Val
			if mi, ok := v.(*ssa.MakeInterface); ok {
				v = mi.X
			}
			if v == ev {
				continue
			}
			if c, ok := v.(*ssa.Call); ok && (calleeName(c) == "fmt.Errorf" || calleeName(c) == "errors.New") {
				continue
			}
			good = false
		}
	}
	return good && n == 1
}

// joinOfCollected: the slice built by append call ap flows (through φ-nodes and further
// appends only) into the argument of one errors.Join call of the same function.
func joinOfCollected(ap *ssa.Call) *ssa.Call {
	seen := map[ssa.Value]bool{}
	var found *ssa.Call
	var walk func(v ssa.Value)
	walk = func(v ssa.Value) {
		if seen[v] || v.Referrers() == nil {
			return
		}
		seen[v] = true
		for _, ref := range *v.Referrers() {
			switch x := ref.(type) {
			case *ssa.Phi:
				walk(x)
			case *ssa.Call:
				if calleeName(x) == "errors.Join" && len(x.Call.Args) == 1 && x.Call.Args[0] == v {
					found = x
				}
				if calleeName(x) == "append" && len(x.Call.Args) == 2 && x.Call.Args[0] == v {
					walk(x)
				}
			}
		}
	}
	walk(ap)
	return found
}

// reachableFrom: fn and the module functions it (transitively) calls statically.
func (a *Analysis) reachableFrom(fn *ssa.Function) map[*ssa.Function]bool {
	seen := map[*ssa.Function]bool{}
	var walk func(f *ssa.Function)
	walk = func(f *ssa.Function) {
		if f == nil || seen[f] || len(f.Blocks) == 0 {
			return
		}
		seen[f] = true
		for _, c := range callsIn(f) {
			if g := c.Common().StaticCallee(); g != nil && a.isModuleFunc(g) {
				walk(g)
			}
		}
		for _, af := range f.AnonFuncs {
			walk(af)
		}
	}
	walk(fn)
	return seen
}

func (a *Analysis) genTable() (map[string]string, string, *ssa.Global) {
	pk := a.P.GenP
	for _, f := range pk.Syntax {
		for _, d := range f.Decls {
			gd, ok := d.(*ast.GenDecl)
			if !ok || gd.Tok != token.VAR {
				continue
			}
			for _, s := range gd.Specs {
				vs := s.(*ast.ValueSpec)
				for i, nm := range vs.Names {
					if i >= len(vs.Values) {
						continue
					}
					cl, ok := ast.Unparen(vs.Values[i]).(*ast.CompositeLit)
					if !ok {
						continue
					}
					if pairs, ok := a.pairLiteral(pk, cl); ok {
						// an array or slice of {stem, variable} pairs: which field is which is read off
						// the call of the update function (pairRoles)
						gl, _ := a.P.Gen.Members[nm.Name].(*ssa.Global)
						if fs, fv, ok := a.pairRoles(gl); ok {
							out := map[string]string{}
							dup := false
							for _, p := range pairs {
								if _, seen := out[p[fs]]; seen {
									dup = true
								}
								out[p[fs]] = p[fv]
							}
							if !dup {
								a.genPairs = &pairTable{Var: gl, Stem: fs, Variable: fv}
								return out, a.P.Pos(nm.Pos()), gl
							}
						}
						continue
					}
					mt, ok := pk.TypesInfo.TypeOf(cl).Underlying().(*types.Map)
					if !ok {
						continue
					}
					if b, ok := mt.Key().Underlying().(*types.Basic); !ok || b.Info()&types.IsString == 0 {
						continue
					}
					out := map[string]string{}
					good := true
					for _, el := range cl.Elts {
						kv, ok := el.(*ast.KeyValueExpr)
						if !ok {
							good = false
							break
						}
						kt, vt := pk.TypesInfo.Types[kv.Key], pk.TypesInfo.Types[kv.Value]
						if kt.Value == nil || vt.Value == nil || kt.Value.Kind() != constant.String || vt.Value.Kind() != constant.String {
							good = false
							break
						}
						out[constant.StringVal(kt.Value)] = constant.StringVal(vt.Value)
					}
					if good {
						gl, _ := a.P.Gen.Members[nm.Name].(*ssa.Global)
						return out, a.P.Pos(nm.Pos()), gl
					}
				}
			}
		}
	}
	return nil, "", nil
}

// rangesOverWholeTable: call c sits in a loop whose counter runs from 0 to len(table)-1 in
// steps of one and indexes the table (the code a `range` over an array or slice compiles to).
func (a *Analysis) rangesOverWholeTable(c ssa.CallInstruction, tv *ssa.Global) bool {
	fn := c.Parent()
	n := int64(-1)
	if at, ok := tv.Type().Underlying().(*types.Pointer).Elem().Underlying().(*types.Array); ok {
		n = at.Len()
	}
	for _, b := range fn.Blocks {
		if b.Comment != "rangeindex.loop" || !b.Dominates(c.Block()) {
			continue
		}
		// t = phi [-1, t+1]; t+1 < len
		for _, in := range b.Instrs {
			bo, ok := in.(*ssa.BinOp)
			if !ok || bo.Op != token.LSS {
				continue
			}
			okLen := false
			if k, isC := intConst(bo.Y); isC && k == n {
				okLen = true
			}
			if base := lenOperand(bo.Y); base != nil && loadedGlobal(base) == tv {
				okLen = true
			}
			inc, ok := bo.X.(*ssa.BinOp)
			if !ok || inc.Op != token.ADD || !okLen {
				continue
			}
			phi, ok := inc.X.(*ssa.Phi)
			one, isOne := intConst(inc.Y)
			if !ok || !isOne || one != 1 || len(phi.Edges) != 2 {
				continue
			}
			startOK := false
			for _, e := range phi.Edges {
				if k, isC := intConst(e); isC && k == -1 {
					startOK = true
				}
			}
			if !startOK {
				continue
			}
			// the element handed to the call is indexed by that counter
			for _, blk := range fn.Blocks {
				for _, in2 := range blk.Instrs {
					switch x := in2.(type) {
					case *ssa.Index:
						if loadedGlobal(x.X) == tv && x.Index == ssa.Value(inc) {
							return true
						}
					case *ssa.IndexAddr:
						if (loadedGlobal(x.X) == tv || x.X == ssa.Value(tv)) && x.Index == ssa.Value(inc) {
							return true
						}
					}
				}
			}
		}
	}
	return false
}

// pairTable describes a generator table written as an array or slice of two-string structs.
type pairTable struct {
	Var            *ssa.Global
	Stem, Variable int // field indices
}

// pairLiteral: cl is an array or slice literal of structs with exactly two string fields, every
// element a literal of two string constants; the elements in field order.
func (a *Analysis) pairLiteral(pk *packages.Package, cl *ast.CompositeLit) ([][2]string, bool) {
	var elem types.Type
	switch u := pk.TypesInfo.TypeOf(cl).Underlying().(type) {
	case *types.Array:
		elem = u.Elem()
	case *types.Slice:
		elem = u.Elem()
	default:
		return nil, false
	}
	st, ok := elem.Underlying().(*types.Struct)
	if !ok || st.NumFields() != 2 {
		return nil, false
	}
	for i := 0; i < 2; i++ {
		if b, ok := st.Field(i).Type().Underlying().(*types.Basic); !ok || b.Info()&types.IsString == 0 {
			return nil, false
		}
	}
	var out [][2]string
	for _, el := range cl.Elts {
		if _, isKV := el.(*ast.KeyValueExpr); isKV {
			return nil, false // indexed elements: not needed
		}
		ecl, ok := ast.Unparen(el).(*ast.CompositeLit)
		if !ok || len(ecl.Elts) != 2 {
			return nil, false
		}
		var pair [2]string
		for i, fe := range ecl.Elts {
			idx := i
			val := fe
			if kv, isKV := fe.(*ast.KeyValueExpr); isKV {
				id, ok := kv.Key.(*ast.Ident)
				if !ok {
					return nil, false
				}
				idx = -1
				for k := 0; k < 2; k++ {
					if st.Field(k).Name() == id.Name {
						idx = k
					}
				}
				if idx < 0 {
					return nil, false
				}
				val = kv.Value
			}
			tv := pk.TypesInfo.Types[val]
			if tv.Value == nil || tv.Value.Kind() != constant.String {
				return nil, false
			}
			pair[idx] = constant.StringVal(tv.Value)
		}
		out = append(out, pair)
	}
	return out, len(out) > 0
}

// pairRoles: the generator calls a two-string function with the two fields of one element of
// the table tv (`update(l.path, l.variable)` inside `for _, l := range tv`): the field passed
// first is the file stem, the other the variable name.
func (a *Analysis) pairRoles(tv *ssa.Global) (stem, variable int, ok bool) {
	if tv == nil {
		return 0, 0, false
	}
	found := false
	for _, fn := range a.P.ModuleFuncs(false) {
		if fn.Pkg != a.P.Gen {
			continue
		}
		for _, c := range callsIn(fn) {
			callee := c.Common().StaticCallee()
			if callee == nil || callee.Pkg != a.P.Gen {
				continue
			}
			sa, okA := updateArgs(c)
			if !okA || len(sa) != 2 {
				continue
			}
			e0, f0, ok0 := pairElemField(sa[0], tv)
			e1, f1, ok1 := pairElemField(sa[1], tv)
			if !ok0 || !ok1 || e0 != e1 || f0 == f1 {
				continue
			}
			if found && (f0 != stem || f1 != variable) {
				return 0, 0, false
			}
			stem, variable, found = f0, f1, true
		}
	}
	return stem, variable, found
}

// pairElemField: v is field f of an element of table tv — of the local copy `l` that a range
// loop over tv assigns each element to.  Returns that local and f.
func pairElemField(v ssa.Value, tv *ssa.Global) (ssa.Value, int, bool) {
	ld, ok := v.(*ssa.UnOp)
	if !ok || ld.Op != token.MUL {
		return nil, 0, false
	}
	fa, ok := ld.X.(*ssa.FieldAddr)
	if !ok {
		return nil, 0, false
	}
	switch base := fa.X.(type) {
	case *ssa.Alloc:
		// every store into the local is an element of the table
		n := 0
		for _, ref := range *base.Referrers() {
			st, ok := ref.(*ssa.Store)
			if !ok || st.Addr != ssa.Value(base) {
				continue
			}
			n++
			if !isTableElem(st.Val, tv) {
				return nil, 0, false
			}
		}
		if n == 0 {
			return nil, 0, false
		}
		return base, fa.Field, true
	case *ssa.IndexAddr:
		// &tv[i] (a slice or an array addressed in place)
		if loadedGlobal(base.X) == tv || base.X == ssa.Value(tv) {
			return base, fa.Field, true
		}
	}
	return nil, 0, false
}

// isTableElem: v is tv[i] for some i (of the array value loaded from tv, or through &tv[i]).
func isTableElem(v ssa.Value, tv *ssa.Global) bool {
	switch x := v.(type) {
	case *ssa.Index:
		return loadedGlobal(x.X) == tv
	case *ssa.UnOp:
		if ia, ok := x.X.(*ssa.IndexAddr); ok && x.Op == token.MUL {
			return loadedGlobal(ia.X) == tv || ia.X == ssa.Value(tv)
		}
	}
	return false
}

// genOutDir: the constant directory the generator writes into (relative to the repository root).
func (a *Analysis) genOutDir() string {
	if a.P.WordP != nil && len(a.P.WordP.GoFiles) > 0 {
		rel, err := filepath.Rel(a.P.Dir, filepath.Dir(a.P.WordP.GoFiles[0]))
		if err == nil {
			return rel
		}
	}
	return "internal/wordlist"
}

func (a *Analysis) declaredVars(rel string) []string {
	if a.P.WordP == nil {
		return nil
	}
	var out []string
	for i, f := range a.P.WordP.Syntax {
		fr, _ := filepath.Rel(a.P.Dir, a.P.WordP.CompiledGoFiles[i])
		if fr != rel {
			continue
		}
		for _, d := range f.Decls {
			if gd, ok := d.(*ast.GenDecl); ok && gd.Tok == token.VAR {
				for _, s := range gd.Specs {
					for _, nm := range s.(*ast.ValueSpec).Names {
						out = append(out, nm.Name)
					}
				}
			}
		}
	}
	if _, err := os.Stat(filepath.Join(a.P.Dir, rel)); err != nil {
		return []string{"<file missing>"}
	}
	return out
}

// through strips interface conversions.
func through(v ssa.Value) ssa.Value {
	for {
		switch x := v.(type) {
		case *ssa.MakeInterface:
			v = x.X
		case *ssa.ChangeInterface:
			v = x.X
		case *ssa.ChangeType:
			v = x.X
		default:
			return v
		}
	}
}

// sprintfParts recognises fmt.Sprintf(constFormat, args...) and returns format and argument values.
func sprintfParts(v ssa.Value) (string, []ssa.Value, bool) {
	c, ok := v.(*ssa.Call)
	if !ok || calleeName(c) != "fmt.Sprintf" {
		return "", nil, false
	}
	f, ok := strConst(c.Call.Args[0])
	if !ok {
		return "", nil, false
	}
	return f, varargsOf(c), true
}

// pathPieces flattens a string built by Sprintf("%s…") or + into constant and value pieces.
func pathPieces(v ssa.Value) ([]any, bool) {
	if s, ok := strConst(v); ok {
		return []any{s}, true
	}
	if f, args, ok := sprintfParts(v); ok {
		var out []any
		ai := 0
		for i := 0; i < len(f); i++ {
			if f[i] == '%' && i+1 < len(f) {
				if f[i+1] == 's' || f[i+1] == 'v' {
					if ai >= len(args) || args[ai] == nil {
						return nil, false
					}
					if s, ok := strConst(args[ai]); ok {
						out = append(out, s)
					} else {
						out = append(out, args[ai])
					}
					ai++
					i++
					continue
				}
				return nil, false
			}
			j := i
			for j < len(f) && f[j] != '%' {
				j++
			}
			out = append(out, f[i:j])
			i = j - 1
		}
		return out, true
	}
	if b, ok := v.(*ssa.BinOp); ok && b.Op == token.ADD {
		l, ok1 := pathPieces(b.X)
		r, ok2 := pathPieces(b.Y)
		if ok1 && ok2 {
			return append(l, r...), true
		}
	}
	if _, ok := v.(*ssa.Parameter); ok {
		return []any{v}, true
	}
	return nil, false
}

// joinPieces renders pieces with the parameter shown as {name}.
func joinPieces(ps []any) string {
	var sb strings.Builder
	for _, p := range ps {
		switch x := p.(type) {
		case string:
			sb.WriteString(x)
		case ssa.Value:
			sb.WriteString("{" + x.Name() + "}")
		}
	}
	return sb.String()
}

func (a *Analysis) osConst(name string) (int64, bool) {
	for _, pk := range a.P.GenP.Imports {
		if pk.PkgPath == "os" {
			if c, ok := pk.Types.Scope().Lookup(name).(*types.Const); ok {
				return constant.Int64Val(c.Val())
			}
		}
	}
	return 0, false
}

// returnedValue resolves `*cell = v; rundefers; return *cell` to v.
func returnedValue(ret *ssa.Return, i int) ssa.Value {
	v := ret.Results[i]
	ld, ok := v.(*ssa.UnOp)
	if !ok || ld.Op != token.MUL {
		return v
	}
	al, ok := ld.X.(*ssa.Alloc)
	if !ok {
		return v
	}
	var last ssa.Value
	for _, in := range ret.Block().Instrs {
		if in == ssa.Instruction(ld) {
			break
		}
		if st, ok := in.(*ssa.Store); ok && st.Addr == ssa.Value(al) {
			last = st.Val
		}
	}
	if last != nil {
		return last
	}
	return v
}

// renderPath renders a string value built from constants and string parameters, the
// parameters shown as {name}; ok=false if anything else is mixed in.
func renderPath(v AV) (string, bool) {
	s, ok := v.(StrV)
	if !ok {
		return "", false
	}
	switch s.Kind {
	case skConst:
		return s.S, true
	case skRaw:
		return "{" + s.S + "}", true
	case skConcat:
		out := ""
		for _, p := range s.Parts {
			t, ok := renderPath(p)
			if !ok {
				return "", false
			}
			out += t
		}
		return out, true
	}
	return "", false
}

// ruleW2 decides the shape of the generator's update function on its abstract evaluation
// (module helpers are entered, so splitting it into fetch / parse / render does not matter):
// what is rendered is strings.Split(string(<body of GET <upstream>/<stem>.txt>), "\n") and the
// variable name, into <outdir>/<stem>.go opened truncating; no failing step is passed over.
// isContextType: context.Context.
func isContextType(t types.Type) bool {
	if pt, ok := t.(*types.Pointer); ok {
		// an *http.Client handed down (timeouts, transport): how the request is made, not what
		// is requested or written
		n, ok := pt.Elem().(*types.Named)
		return ok && n.Obj().Pkg() != nil && n.Obj().Pkg().Path() == "net/http" && n.Obj().Name() == "Client"
	}
	n, ok := t.(*types.Named)
	return ok && n.Obj().Pkg() != nil && n.Obj().Pkg().Path() == "context" && n.Obj().Name() == "Context"
}

// updateArgs returns the arguments of a call of an update function that are not a
// context.Context (those carry nothing the generated file depends on); false if the callee is
// not resolved.
func updateArgs(c ssa.CallInstruction) ([]ssa.Value, bool) {
	callee := c.Common().StaticCallee()
	if callee == nil {
		return nil, false
	}
	var out []ssa.Value
	for _, arg := range c.Common().Args {
		if isContextType(arg.Type()) {
			continue
		}
		if _, isOpt := optionDefault(arg); isOpt {
			continue // a command-line option: the program is judged at its default (genOptParams)
		}
		out = append(out, arg)
	}
	return out, true
}

// optionDefault: v is `*p` with p the result of flag.String / Bool / Int / Int64 / Uint /
// Duration called with a constant default (a local of main; options kept in package-level
// variables are read through the evaluation of the generator's initialiser): that default.
func optionDefault(v ssa.Value) (AV, bool) {
	ld, ok := v.(*ssa.UnOp)
	if !ok || ld.Op != token.MUL {
		return nil, false
	}
	call, ok := ld.X.(*ssa.Call)
	if !ok || len(call.Call.Args) != 3 {
		return nil, false
	}
	// nothing but loads of the pointer (flag.Parse writes it, which is the point)
	for _, ref := range *call.Referrers() {
		switch x := ref.(type) {
		case *ssa.UnOp:
			if x.Op != token.MUL {
				return nil, false
			}
		case *ssa.DebugRef:
		default:
			return nil, false
		}
	}
	def, isC := call.Call.Args[1].(*ssa.Const)
	if !isC || def.Value == nil {
		return nil, false
	}
	switch calleeName(call) {
	case "flag.String":
		if def.Value.Kind() == constant.String {
			return CStr(constant.StringVal(def.Value)), true
		}
	case "flag.Bool":
		if def.Value.Kind() == constant.Bool {
			return KBool(constant.BoolVal(def.Value)), true
		}
	case "flag.Int", "flag.Int64", "flag.Uint", "flag.Uint64", "flag.Duration":
		if n, ok := constant.Int64Val(def.Value); ok && def.Value.Kind() == constant.Int {
			return CInt(n), true
		}
	}
	return nil, false
}

// optionParams: the parameters of callee that, at call c, receive a command-line option.
func optionParams(c ssa.CallInstruction) map[*ssa.Parameter]AV {
	callee := c.Common().StaticCallee()
	out := map[*ssa.Parameter]AV{}
	if callee == nil || len(callee.Params) != len(c.Common().Args) {
		return out
	}
	for i, arg := range c.Common().Args {
		if d, ok := optionDefault(arg); ok {
			out[callee.Params[i]] = d
		}
	}
	return out
}

// mentionsStatusCode: the condition reads the StatusCode field of an *http.Response.
func mentionsStatusCode(v ssa.Value, depth int) bool {
	if depth > 5 {
		return false
	}
	switch x := v.(type) {
	case *ssa.BinOp:
		return mentionsStatusCode(x.X, depth+1) || mentionsStatusCode(x.Y, depth+1)
	case *ssa.UnOp:
		if x.Op == token.MUL {
			if fa, ok := x.X.(*ssa.FieldAddr); ok {
				if pt, ok := fa.X.Type().Underlying().(*types.Pointer); ok && isNamed(pt.Elem(), "net/http", "Response") {
					return pt.Elem().Underlying().(*types.Struct).Field(fa.Field).Name() == "StatusCode"
				}
			}
			return false
		}
		return mentionsStatusCode(x.X, depth+1)
	case *ssa.Convert:
		return mentionsStatusCode(x.X, depth+1)
	case *ssa.Phi:
		for _, ed := range x.Edges {
			if mentionsStatusCode(ed, depth+1) {
				return true
			}
		}
	}
	return false
}

// mentionsLen: the condition compares a len(…) with something.
func mentionsLen(v ssa.Value, depth int) bool {
	if depth > 4 {
		return false
	}
	switch x := v.(type) {
	case *ssa.BinOp:
		return mentionsLen(x.X, depth+1) || mentionsLen(x.Y, depth+1)
	case *ssa.UnOp:
		return x.Op != token.MUL && mentionsLen(x.X, depth+1)
	case *ssa.Convert:
		return mentionsLen(x.X, depth+1)
	case *ssa.Call:
		return isBuiltinCall(x, "len")
	}
	return false
}

// statusGate: where the generator looks at the status code of the response, an answer of 200
// must be able to reach a return that does not certainly fail (a test written the wrong way
// round refuses every good download).  One obligation per function that reads the field.
func (a *Analysis) statusGate(upd *ssa.Function) {
	r := a.R
	var fns []*ssa.Function
	for f := range a.reachableFrom(upd) {
		fns = append(fns, f)
	}
	sort.Slice(fns, func(i, j int) bool { return fnKey(fns[i]) < fnKey(fns[j]) })
	for _, f := range fns {
		subj := map[ssa.Value]bool{}
		var first *ssa.BasicBlock
		for _, b := range f.Blocks {
			for _, in := range b.Instrs {
				fa, ok := in.(*ssa.FieldAddr)
				if !ok {
					continue
				}
				pt, ok := fa.X.Type().Underlying().(*types.Pointer)
				if !ok || !isNamed(pt.Elem(), "net/http", "Response") {
					continue
				}
				if pt.Elem().Underlying().(*types.Struct).Field(fa.Field).Name() != "StatusCode" {
					continue
				}
				for _, ref := range *fa.Referrers() {
					if ld, ok := ref.(*ssa.UnOp); ok && ld.Op == token.MUL {
						subj[ld] = true
						if first == nil || ld.Block().Dominates(first) {
							first = ld.Block()
						}
					}
				}
			}
		}
		if len(subj) == 0 {
			continue
		}
		res := AnalyseGate(f, subj, first, ZRange(100, 599), a.P.Cfg.IntBits(), a.gateTables, a.isModuleFunc)
		good := false
		n := 0
		for _, ret := range returnsOf(f) {
			if !first.Dominates(ret.Block()) {
				continue // taken before the status is looked at
			}
			reach, seen := res.Reach[ret.Block()]
			if !seen || !reach.Contains(200) {
				continue
			}
			n++
			fails := false
			if k := len(ret.Results); k > 0 && isErrorType(ret.Results[k-1].Type()) {
				switch a.classifyErr(returnedValue(ret, k-1)).Kind {
				case "fresh", "sentinel", "wrap":
					fails = true
				}
			}
			if !fails {
				good = true
			}
		}
		key := fnKey(f) + "/status-200"
		pos := a.P.Pos(f.Pos())
		switch {
		case good:
			r.OK("W2", key, pos, "", "a 200 response reaches a return of %s that does not certainly fail", fnKey(f))
		case n == 0 && len(returnsOf(f)) == 0:
			r.OK("W2", key, pos, "", "%s does not return (it ends the program on its own)", fnKey(f))
		default:
			r.Bad("W2", key, pos, "", "%s looks at the status code of the response, and with 200 every return it reaches gives a certain error: no good download is ever accepted", fnKey(f))
		}
	}
}

func (a *Analysis) ruleW2(upd *ssa.Function) {
	r := a.R
	fk := fnKey(upd)
	pos := a.P.Pos(upd.Pos())
	var sp []*ssa.Parameter
	for _, p := range upd.Params {
		if isContextType(p.Type()) {
			continue // a context.Context handed down to the request: no influence on what is written
		}
		if _, isOpt := a.genOptParams[p]; isOpt {
			continue // receives a command-line option: judged at its default (bound below)
		}
		sp = append(sp, p)
	}
	if len(sp) != 2 {
		r.Unk("W2", fk+"/params", pos, "", "update function does not take (stem, variable)")
		return
	}
	pathP, varP := sp[0], sp[1]
	a.statusGate(upd)
	e := a.eval(upd, &Ctx{Name: "generator", ParamVal: a.genOptParams})
	for _, ev := range e.Events {
		if ev.Status == Undecided && (ev.Rule == "P5" || ev.Rule == "U" || ev.Rule == "X") {
			r.Unk("W2", fk+"/evaluation", a.P.InstrPos(ev.Instr), "", "the update function is not fully evaluated: %s", ev.Msg)
		}
	}
	// package-level variables of the generator the evaluation read as their declaration leaves
	// them (an option and its default, a table): nothing else may write them
	{
		var gls []*ssa.Global
		for gl := range e.Relied {
			if gl.Pkg == a.P.Gen {
				gls = append(gls, gl)
			}
		}
		sort.Slice(gls, func(i, j int) bool { return gls[i].Name() < gls[j].Name() })
		for _, gl := range gls {
			key := fk + "/var/" + gl.Name()
			okV := true
			for _, w := range a.Ef.Writes[gl] {
				if w.Test || (w.Synth && w.Kind == "store") {
					continue
				}
				okV = false
				r.Bad("W2", key, a.P.InstrPos(w.Instr), "", "the generator is judged with %s as its declaration leaves it, but %s writes it (%s)", gl.Name(), fnKey(w.Fn), w.How)
			}
			for _, why := range a.Ef.Escapes[gl] {
				okV = false
				r.Unk("W2", key, a.P.Pos(gl.Pos()), "", "the generator is judged with %s as its declaration leaves it, but what it refers to leaves the analysed code: %s", gl.Name(), why)
			}
			if okV {
				r.OK("W2", key, a.P.Pos(gl.Pos()), "", "%s is written by its declaration only", gl.Name())
			}
		}
	}
	isExec := func(n string) bool {
		return n == "(*html/template.Template).Execute" || n == "(*text/template.Template).Execute"
	}
	var execRec *CallRec
	nExec := 0
	for i := range e.Calls {
		if isExec(e.Calls[i].Callee) {
			execRec = &e.Calls[i]
			nExec++
		}
	}
	// rendered by hand (constant text, the variable name, strconv.Quote of every word) instead
	// of through a template: the buffer stands in for the Execute call
	var quote *QuoteRec
	if nExec == 0 && len(e.QuoteRenders) == 1 {
		quote = &e.QuoteRenders[0]
		execRec = &CallRec{Callee: "quote-render", Instr: quote.Render.Site, Args: []AV{nil, quote.Buf, nil}, State: quote.State}
		nExec = 1
	}
	if execRec == nil || nExec != 1 {
		r.Unk("W2", fk+"/execute", pos, "", "expected exactly one template Execute call reachable from %s, found %d", fk, nExec)
		return
	}
	exec, _ := execRec.Instr.(*ssa.Call)
	ep := a.P.InstrPos(execRec.Instr)
	if exec == nil || len(execRec.Args) < 3 {
		r.Unk("W2", fk+"/execute", ep, "", "Execute is not an ordinary call")
		return
	}
	// ---- the data: a struct with the word slice and the variable name
	var stt *types.Struct
	var data VecV
	var words *TokensV
	wordsField, varField := "", ""
	if quote != nil {
		words, wordsField = quote.Render.Words, "WordList"
		if sv, ok := quote.Render.Var.(StrV); ok && sv.Kind == skRaw && sv.S == varP.Name() {
			varField = "Variable"
		}
		a.genSynthText = quote.Render.Text
		r.OK("W2", fk+"/render", ep, "", "the file is rendered by hand: constant text, the variable name, strconv.Quote of every element of the word slice followed by a comma (judged as the equivalent template)")
	} else {
		dv := through(exec.Call.Args[2])
		dt := dv.Type()
		if pt, ok := dt.Underlying().(*types.Pointer); ok {
			dt = pt.Elem()
		}
		stt, _ = dt.Underlying().(*types.Struct)
		var isVec bool
		data, isVec = execRec.Args[2].(VecV)
		if stt == nil || !isVec || len(data.Elems) != stt.NumFields() {
			r.Unk("W2", fk+"/data", ep, "", "the value given to Execute (%v) is not a struct of the generator whose fields are known", execRec.Args[2])
			return
		}
	}
	for i, v := range data.Elems {
		name := stt.Field(i).Name()
		switch x := v.(type) {
		case SliceV:
			// an element-wise copy of the token slice
			if ac, ok := execRec.State[x.O].(*ArrC); ok && ac.Alias != nil {
				words, wordsField = ac.Alias, name
			}
		case *TokensV:
			words, wordsField = x, name
		case StrV:
			if x.Kind == skRaw && x.S == varP.Name() {
				varField = name
			}
		}
	}
	a.genVarField, a.genWordsField = varField, wordsField
	if varField == "" {
		r.Bad("W2", fk+"/variable", ep, "", "the template's variable name is not the update function's second argument")
	} else {
		r.OK("W2", fk+"/variable", ep, "", "template field %s = parameter %s", varField, varP.Name())
	}
	// ---- the words: Split(string(download(url)), "\n"), nothing in between
	var url AV
	var scanErrSite ssa.Instruction // scanner form: the Err() call that must have returned nil
	switch {
	case words == nil:
		desc := "no field holds the result of strings.Split"
		for i, v := range data.Elems {
			if _, isSlice := stt.Field(i).Type().Underlying().(*types.Slice); isSlice {
				desc = fmt.Sprintf("field %s is %v", stt.Field(i).Name(), v)
			}
		}
		r.Bad("W2", fk+"/pipeline", ep, "", "the template's word slice is not strings.Split(string(download), \"\\n\"): %s", desc)
	case words.Fn == "bufio.ScanLines":
		// the lines of the download as a bufio.Scanner yields them: the pieces between line
		// feeds (a trailing carriage return dropped — no covered input has one), without the
		// empty piece after a final line feed, which the template skips anyway
		in, _ := words.In.(StrV)
		if in.Kind != skSrc || in.S != "download" {
			r.Bad("W2", fk+"/pipeline", a.P.InstrPos(words.Site), "", "the scanner reads %v, not the downloaded bytes: something transforms the words (or they do not come from the download)", words.In)
			break
		}
		url = in.X
		r.OK("W2", fk+"/pipeline", ep, "", "field %s = the lines of the download read with a bufio.Scanner (default split), nothing in between", wordsField)
		for _, c := range e.Calls {
			if c.Callee != "(*bufio.Scanner).Err" || len(c.Args) == 0 {
				continue
			}
			if rv, ok := c.Args[0].(ResV); ok && rv.O == words.Scanner {
				scanErrSite = c.Instr
			}
		}
		if scanErrSite == nil {
			r.Bad("W2", fk+"/scanner-error", a.P.InstrPos(words.Site), "", "the scanner's Err() is never examined: a list cut short by a read error or by a line longer than the buffer would be written as if it were complete")
		} else {
			r.OK("W2", fk+"/scanner-error", a.P.InstrPos(scanErrSite), "", "the scanner's Err() is examined (it must be nil wherever the function reports success)")
		}
	case words.Fn == "strings.Split" && words.NonEmpty:
		// the non-empty pieces of the split (a filter loop before the template)
		sep, _ := words.Sep.(StrV)
		in, _ := words.In.(StrV)
		switch {
		case sep.Kind != skConst || sep.S != "\n":
			r.Bad("W2", fk+"/pipeline", a.P.InstrPos(words.Site), "", "the downloaded text is split on %v, not on \"\\n\"", words.Sep)
		case in.Kind != skSrc || in.S != "download":
			r.Bad("W2", fk+"/pipeline", a.P.InstrPos(words.Site), "", "the text given to strings.Split is %v, not the downloaded bytes converted to string: something transforms the words (or they do not come from the download)", words.In)
		default:
			url = in.X
			a.genWordsNonEmpty = true
			r.OK("W2", fk+"/pipeline", ep, "", "field %s = the non-empty pieces of strings.Split(string(ReadAll(Get(url).Body)), \"\\n\"), in order, nothing else in between", wordsField)
		}
	case words.Fn != "strings.Split":
		r.Bad("W2", fk+"/pipeline", a.P.InstrPos(words.Site), "", "the downloaded text is cut up by %s, not by strings.Split on \"\\n\"", words.Fn)
	default:
		sep, _ := words.Sep.(StrV)
		in, _ := words.In.(StrV)
		switch {
		case sep.Kind != skConst || sep.S != "\n":
			r.Bad("W2", fk+"/pipeline", a.P.InstrPos(words.Site), "", "the downloaded text is split on %v, not on \"\\n\"", words.Sep)
		case in.Kind != skSrc || in.S != "download":
			r.Bad("W2", fk+"/pipeline", a.P.InstrPos(words.Site), "", "the text given to strings.Split is %v, not the downloaded bytes converted to string: something transforms the words (or they do not come from the download)", words.In)
		default:
			url = in.X
			r.OK("W2", fk+"/pipeline", ep, "", "field %s = strings.Split(string(ReadAll(Get(url).Body)), \"\\n\") with nothing in between", wordsField)
		}
	}
	// ---- URL and output name use the same stem
	if url != nil {
		s, ok := renderPath(url)
		want := "{" + pathP.Name() + "}.txt"
		if !ok || !strings.HasSuffix(s, "bip-0039/"+want) || strings.Count(s, "{") != 1 {
			if !ok {
				s = fmt.Sprint(url)
			}
			r.Bad("W2", fk+"/url", ep, "", "download URL is %q; expected <upstream>/bip-0039/%s", s, want)
		} else {
			r.OK("W2", fk+"/url", ep, "", "downloads %s", s)
		}
	}
	// ---- output file (possibly behind a bufio.Writer, which must then be flushed)
	var writeFileSite ssa.Instruction // render-into-memory form: the os.WriteFile call
	var renameSite ssa.Instruction    // temporary-file form: the os.Rename call
	w := execRec.Args[1]
	var bw *ResV
	if rv, ok := w.(ResV); ok && rv.Kind == "bufio.Writer" {
		b := rv
		bw = &b
		w = rv.A
	}
	// checkFile: the output file is created or truncated, and named after the download
	checkFile := func(file ResV) {
		okOut := false
		fp := a.P.InstrPos(file.Site)
		if file.Temp {
			// a new temporary file: it must be renamed onto the output path, once, and the
			// function may report success only after that rename succeeded
			var rn []CallRec
			for _, c := range e.Calls {
				if c.Callee == "os.Rename" {
					rn = append(rn, c)
				}
			}
			if len(rn) != 1 {
				r.Add("W2", fk+"/output", fp, "", Undecided, "the template is rendered into a temporary file; expected exactly one os.Rename of it onto the output, found %d", len(rn))
				return
			}
			rp := a.P.InstrPos(rn[0].Instr)
			if tn, ok := rn[0].Args[0].(TempNameV); !ok || tn.Site != file.Site {
				r.Bad("W2", fk+"/output", rp, "", "os.Rename moves %v, not the temporary file the template was rendered into", rn[0].Args[0])
				return
			}
			renameSite = rn[0].Instr
			r.OK("W2", fk+"/truncate", rp, "", "a new temporary file replaces the output by os.Rename: nothing of the old file survives")
			s, ok := renderPath(rn[0].Args[1])
			want := a.genOutDir() + "/{" + pathP.Name() + "}.go"
			if !ok || s != want {
				if !ok {
					s = fmt.Sprint(rn[0].Args[1])
				}
				r.Bad("W2", fk+"/output-name", rp, "", "output path is %q; expected %q (same stem as the download)", s, want)
			} else {
				r.OK("W2", fk+"/output-name", rp, "", "renamed to %s", s)
			}
			return
		}
		if file.Flags == nil {
			okOut = true
			r.OK("W2", fk+"/truncate", fp, "", "os.Create truncates the output")
		} else {
			fv, _ := file.Flags.(IntV)
			fl, okc := fv.Const()
			cr, _ := a.osConst("O_CREATE")
			tr, _ := a.osConst("O_TRUNC")
			wo, _ := a.osConst("O_WRONLY")
			rw, _ := a.osConst("O_RDWR")
			ap, _ := a.osConst("O_APPEND")
			switch {
			case !okc:
				r.Unk("W2", fk+"/truncate", fp, "", "open flags are not constant")
			case fl&tr == 0:
				r.Bad("W2", fk+"/truncate", fp, "", "the output file is opened without O_TRUNC: a shorter list leaves the tail of the old file in place")
			case fl&cr == 0 || (fl&wo == 0 && fl&rw == 0) || fl&ap != 0:
				r.Bad("W2", fk+"/truncate", fp, "", "open flags %#x lack O_CREATE or write access, or append", fl)
			default:
				okOut = true
				r.OK("W2", fk+"/truncate", fp, "", "opened with O_CREATE|O_TRUNC and write access")
			}
		}
		if okOut {
			s, ok := renderPath(file.A)
			want := a.genOutDir() + "/{" + pathP.Name() + "}.go"
			if !ok || s != want {
				if !ok {
					s = fmt.Sprint(file.A)
				}
				r.Bad("W2", fk+"/output-name", fp, "", "output path is %q; expected %q (same stem as the download)", s, want)
			} else {
				r.OK("W2", fk+"/output-name", fp, "", "writes %s", s)
			}
		}
	}
	file, isFile := w.(ResV)
	if isFile && file.Kind == "os.File" {
		checkFile(file)
	} else if buf, isBuf := w.(ResV); isBuf && buf.Kind == "bytes.Buffer" && bw == nil {
		// rendered into memory first: exactly one call must write that rendering (and nothing
		// else) to the output: os.WriteFile(path, rendering, perm), which creates or truncates,
		// or one Write of it to a file opened like the direct form's
		var wf []CallRec
		for _, c := range e.Calls {
			if c.Callee == "os.WriteFile" || c.Callee == "io/ioutil.WriteFile" || c.Callee == "(*os.File).Write" || c.Callee == "(*bufio.Writer).Write" {
				wf = append(wf, c)
			}
		}
		switch {
		case len(wf) != 1:
			r.Add("W2", fk+"/output", ep, "", Undecided, "the template is rendered into a bytes.Buffer; expected exactly one os.WriteFile (or File.Write) of it, found %d", len(wf))
		default:
			fp := a.P.InstrPos(wf[0].Instr)
			rv, isR := wf[0].Args[1].(RenderedV)
			if !isR || rv.Buf != buf.O || rv.Exec != execRec.Instr {
				r.Bad("W2", fk+"/output", fp, "", "%s writes %v, which is not the content of the buffer right after the one Execute into it", wf[0].Callee, wf[0].Args[1])
				break
			}
			if rv.Formatted {
				r.OK("W2", fk+"/formatted", fp, "", "the rendering goes through go/format.Source before it is written (white space only: trusted)")
			}
			writeFileSite = wf[0].Instr
			if wf[0].Callee == "(*bufio.Writer).Write" {
				// through a bufio.Writer on the file: it must be flushed before success is reported
				bwv, ok := wf[0].Args[0].(ResV)
				if !ok || bwv.Kind != "bufio.Writer" {
					r.Add("W2", fk+"/output", fp, "", Undecided, "the rendering is written to %v, which is not a bufio.Writer on the output file", wf[0].Args[0])
					break
				}
				f, ok := bwv.A.(ResV)
				if !ok || f.Kind != "os.File" {
					r.Add("W2", fk+"/output", fp, "", Undecided, "the rendering is written through a bufio.Writer on %v, which is not a file opened by os.OpenFile/os.Create/os.CreateTemp", bwv.A)
					break
				}
				bw = &bwv
				checkFile(f)
				break
			}
			if wf[0].Callee == "(*os.File).Write" {
				f, ok := wf[0].Args[0].(ResV)
				if !ok || f.Kind != "os.File" {
					r.Add("W2", fk+"/output", fp, "", Undecided, "the rendering is written to %v, which is not a file opened by os.OpenFile/os.Create", wf[0].Args[0])
					break
				}
				checkFile(f)
				break
			}
			r.OK("W2", fk+"/truncate", fp, "", "os.WriteFile creates or truncates the output")
			s, ok := renderPath(wf[0].Args[0])
			want := a.genOutDir() + "/{" + pathP.Name() + "}.go"
			if !ok || s != want {
				if !ok {
					s = fmt.Sprint(wf[0].Args[0])
				}
				r.Bad("W2", fk+"/output-name", fp, "", "output path is %q; expected %q (same stem as the download)", s, want)
			} else {
				r.OK("W2", fk+"/output-name", fp, "", "writes %s", s)
			}
		}
	} else {
		r.Add("W2", fk+"/output", ep, "", Undecided, "the Execute target (%v) is not a file opened by os.OpenFile/os.Create (directly or behind a bufio.Writer) nor a local bytes.Buffer written out by os.WriteFile", execRec.Args[1])
	}
	// nothing else is done with the output
	for _, c := range e.Calls {
		if isExec(c.Callee) || strings.HasSuffix(c.Callee, ".Close") || c.Callee == "invoke:Close" || c.Callee == "bufio.NewWriter" || c.Callee == "bufio.NewWriterSize" || c.Callee == "(*bufio.Writer).Flush" {
			continue
		}
		if c.Instr == writeFileSite {
			continue // the one write of the rendering
		}
		switch c.Callee {
		case "(*os.File).Name", "(*os.File).Chmod", "(*os.File).Sync", "(*os.File).Stat":
			continue // do not change what the file holds
		}
		touches := false
		for _, arg := range append(append([]AV{}, c.Args...), c.Recv) {
			if rv, ok := arg.(ResV); ok && (rv.Kind == "os.File" || rv.Kind == "bufio.Writer") {
				touches = true
			}
		}
		if touches {
			r.Bad("W2", fk+"/output-other-use", a.P.InstrPos(c.Instr), "", "the output file is also handed to %s: the file must contain the rendered template and nothing else", c.Callee)
		}
	}
	// ---- error discipline: wherever the function can return nil, every step that can fail and
	// was executed on the way is known to have succeeded (its error was compared with nil and
	// this is the nil edge) — except the step whose own error is what is being returned
	exempt := func(site ssa.Instruction) bool {
		c, ok := site.(ssa.CallInstruction)
		if !ok {
			return true
		}
		if _, isDefer := site.(*ssa.Defer); isDefer {
			return true
		}
		n := calleeName(c)
		return strings.HasSuffix(n, ".Close") || n == "invoke:Close"
	}
	okErr := true
	nSucc := 0
	var sites []ssa.Instruction
	for site := range e.errObj {
		if !exempt(site) {
			sites = append(sites, site)
		}
	}
	sort.Slice(sites, func(i, j int) bool { return instrKey(sites[i]) < instrKey(sites[j]) })
	for _, x := range topExits(e, upd) {
		if len(x.Vals) != 1 {
			r.Unk("W2", fk+"/errors", a.P.InstrPos(x.Ret), "", "the update function does not return exactly one error")
			okErr = false
			continue
		}
		ev := asErr(x.Vals[0])
		certainlyFails := ev.Kind == ekFresh || ev.Kind == ekSentinel || ev.Kind == ekWrap || ev.NonNil
		if certainlyFails {
			// a refusal: some step must be known to have failed on the way here, or the exit is
			// taken on a recognised ground (the status code, more bytes than the limit read) —
			// otherwise a good download of some list can be turned away
			failed := false
			for _, o := range e.errObj {
				if c, ok := x.State[o].(CellC); ok {
					if b, ok := c.V.(BoolV); ok && b.Known && !b.Val {
						failed = true
					}
				}
			}
			ground := ""
			for _, c := range x.Conds {
				switch {
				case mentionsStatusCode(c.If.Cond, 0):
					ground = "the status code of the response"
				case len(e.limited) > 0 && mentionsLen(c.If.Cond, 0):
					ground = "the length read through the io.LimitReader"
				}
			}
			if !failed && ground == "" {
				okErr = false
				r.Bad("W2", fk+"/refusal", a.P.InstrPos(x.Ret), "", "%s reports failure here although no step is known to have failed on the way and the exit is not taken on the status code or the size limit: a good download can be turned away", fk)
			}
			continue
		}
		// this exit may report success.  If what it returns is the error of one call, handed on
		// untested, it reports success exactly when that call succeeded: judge the state so refined.
		state := x.State.clone()
		for cur := &ev; cur != nil; cur = cur.Else {
			// "the error of s if s failed, else …" is nil only if s succeeded and … is nil
			if (cur.Kind == ekFrom || cur.Kind == ekCond) && cur.Site != nil {
				e.applyOutcome(state, cur.Site, true)
			}
			if cur.Kind != ekCond {
				break
			}
		}
		rendered := quote != nil // rendering by hand into memory has no failing step of its own; the write below has
		written := writeFileSite == nil
		renamed := renameSite == nil
		scanned := scanErrSite == nil
		for _, site := range sites {
			c, ok := state[e.errObj[site]].(CellC)
			if !ok {
				continue // not executed on the way to this exit
			}
			b, _ := c.V.(BoolV)
			succeeded := b.Known && b.Val
			if isSkippedOrOK(c.V) {
				continue // on some paths not executed, on the others executed successfully: no failure passed over (but not "carried out")
			}
			if site == execRec.Instr && succeeded {
				rendered = true
			}
			if site == writeFileSite && succeeded {
				written = true
			}
			if site == renameSite && succeeded {
				renamed = true
			}
			if site == scanErrSite && succeeded {
				scanned = true
			}
			if succeeded {
				continue
			}
			okErr = false
			r.Bad("W2", fk+"/errors", a.P.InstrPos(x.Ret), "", "%s can return nil here although %s may have failed: its error is not tested on the way (or this is the failing edge)", fk, calleeName(site.(ssa.CallInstruction)))
		}
		if !rendered {
			okErr = false
			r.Bad("W2", fk+"/errors", a.P.InstrPos(x.Ret), "", "%s can return nil here without the template having been rendered successfully: a list file would be missing or incomplete without an error", fk)
			continue
		}
		if !scanned {
			okErr = false
			r.Bad("W2", fk+"/errors", a.P.InstrPos(x.Ret), "", "%s can return nil here without the scanner's Err() having been found nil", fk)
			continue
		}
		if !renamed {
			okErr = false
			r.Bad("W2", fk+"/errors", a.P.InstrPos(x.Ret), "", "%s can return nil here without the temporary file having been renamed onto the output", fk)
			continue
		}
		if !written {
			okErr = false
			r.Bad("W2", fk+"/errors", a.P.InstrPos(x.Ret), "", "%s can return nil here without the rendered file having been written successfully", fk)
			continue
		}
		if bw != nil && bw.O != nil {
			c, _ := state[bw.O].(CellC)
			if b, ok := c.V.(BoolV); !ok || !b.Known || b.Val {
				okErr = false
				r.Bad("W2", fk+"/errors", a.P.InstrPos(x.Ret), "", "the template is rendered into a bufio.Writer that is not flushed before %s reports success: the tail of the file would be lost", fk)
				continue
			}
		}
		nSucc++
	}
	if nSucc == 0 && okErr {
		okErr = false
		r.Bad("W2", fk+"/errors", pos, "", "%s has no exit that reports success", fk)
	}
	if okErr {
		r.OK("W2", fk+"/errors", pos, "", "every exit that can report success has passed all %d fallible steps on their success edges", len(sites))
	}
	// ---- W3 template
	a.ruleW3(exec)
}

func describeValue(v ssa.Value) string {
	if v == nil {
		return "nothing"
	}
	if c, ok := v.(*ssa.Call); ok {
		return "result of " + calleeName(c)
	}
	return v.String()
}

// templateText finds the constant text parsed into the template global used by Execute.
func (a *Analysis) templateText(exec *ssa.Call) (string, string, bool) {
	tv := exec.Call.Args[0]
	g := loadedGlobal(tv)
	var root ssa.Value = tv
	if g != nil {
		for _, w := range a.Ef.Writes[g] {
			if st, ok := w.Instr.(*ssa.Store); ok && w.Synth {
				root = st.Val
			}
		}
	}
	// walk Must(Parse(New(...), text))
	for depth := 0; depth < 6; depth++ {
		c, ok := root.(*ssa.Call)
		if !ok {
			if ex, ok := root.(*ssa.Extract); ok {
				root = ex.Tuple
				continue
			}
			return "", "", false
		}
		n := calleeName(c)
		switch {
		case strings.HasSuffix(n, "template.Must"):
			root = c.Call.Args[0]
		case strings.HasSuffix(n, "Template).Parse"):
			pkg := "text/template"
			if strings.Contains(n, "html/template") {
				pkg = "html/template"
			}
			if s, ok := strConst(c.Call.Args[1]); ok {
				return s, pkg, true
			}
			if s, ok := a.embeddedText(c.Call.Args[1]); ok {
				return s, pkg, true
			}
			return "", "", false
		default:
			return "", "", false
		}
	}
	return "", "", false
}

// embeddedText: v is the value of a string variable of the generator that carries a
// `//go:embed <file>` directive naming one file (no pattern), is never assigned and whose
// address is not taken: its content is that file, read from the package directory.
func (a *Analysis) embeddedText(v ssa.Value) (string, bool) {
	g := loadedGlobal(v)
	if g == nil || a.P.GenP == nil || g.Pkg != a.P.Gen {
		return "", false
	}
	if bt, ok := g.Type().Underlying().(*types.Pointer).Elem().Underlying().(*types.Basic); !ok || bt.Kind() != types.String {
		return "", false
	}
	for _, w := range a.Ef.Writes[g] {
		if !w.Test {
			return "", false
		}
	}
	if len(a.Ef.AddrUse[g]) > 0 {
		return "", false
	}
	for _, f := range a.P.GenP.Syntax {
		for _, d := range f.Decls {
			gd, ok := d.(*ast.GenDecl)
			if !ok || gd.Tok != token.VAR {
				continue
			}
			for _, sp := range gd.Specs {
				vs, ok := sp.(*ast.ValueSpec)
				if !ok || len(vs.Names) != 1 || vs.Names[0].Name != g.Name() || len(vs.Values) != 0 {
					continue
				}
				doc := vs.Doc
				if doc == nil {
					doc = gd.Doc
				}
				if doc == nil {
					return "", false
				}
				var files []string
				for _, c := range doc.List {
					if strings.HasPrefix(c.Text, "//go:embed ") {
						files = append(files, strings.Fields(strings.TrimPrefix(c.Text, "//go:embed "))...)
					}
				}
				if len(files) != 1 || strings.ContainsAny(files[0], "*?[\\\"`") || strings.Contains(files[0], "..") {
					return "", false
				}
				dir := filepath.Dir(a.P.Fset.Position(f.Pos()).Filename)
				data, err := os.ReadFile(filepath.Join(dir, files[0]))
				if err != nil {
					return "", false
				}
				return string(data), true
			}
		}
	}
	return "", false
}

func stripComments(s string) string {
	var out []string
	for _, ln := range strings.Split(s, "\n") {
		if t := strings.TrimSpace(ln); strings.HasPrefix(t, "//") {
			continue
		}
		out = append(out, ln)
	}
	return strings.Join(out, "\n")
}

func isDotPipe(p *parse.PipeNode) bool {
	if p == nil || len(p.Decl) != 0 || len(p.Cmds) != 1 || len(p.Cmds[0].Args) != 1 {
		return false
	}
	_, ok := p.Cmds[0].Args[0].(*parse.DotNode)
	return ok
}

func isFieldPipe(p *parse.PipeNode, name string) bool {
	if p == nil || len(p.Decl) != 0 || len(p.Cmds) != 1 || len(p.Cmds[0].Args) != 1 {
		return false
	}
	f, ok := p.Cmds[0].Args[0].(*parse.FieldNode)
	return ok && len(f.Ident) == 1 && f.Ident[0] == name
}

func squeeze(s string) string { return strings.Join(strings.Fields(s), "") }

// ruleW3: the template renders `var <Variable> = []string{ "<word>", … }` with one quoted
// entry per non-empty line and nothing else.
func (a *Analysis) ruleW3(exec *ssa.Call) {
	r := a.R
	ep := a.P.InstrPos(exec)
	text, pkg, ok := a.templateText(exec)
	if a.genSynthText != "" {
		// rendered by hand with strconv.Quote (W2 render): the equivalent template
		text, pkg, ok = a.genSynthText, "text/template", true
	}
	if !ok {
		r.Unk("W3", "template/text", ep, "", "the template is not parsed from a constant text in its declaration")
		return
	}
	trees, err := parse.Parse("data", text, "", "", map[string]any{})
	if err != nil || trees["data"] == nil {
		r.Unk("W3", "template/parse", ep, "", "template text does not parse without functions: %v", err)
		return
	}
	nodes := trees["data"].Root.Nodes
	r.Counts["W3.nodes"] = countNodes(trees["data"].Root)
	fail := func(key, format string, args ...any) {
		r.Bad("W3", "template/"+key, ep, "", format, args...)
	}
	// expected sequence: Text, Action(.Variable), Text, Range, Text
	if len(nodes) != 5 {
		fail("shape", "template has %d top-level nodes, expected text · {{.Variable}} · text · {{range .WordList}}…{{end}} · text", len(nodes))
		return
	}
	t0, ok0 := nodes[0].(*parse.TextNode)
	a1, ok1 := nodes[1].(*parse.ActionNode)
	t2, ok2 := nodes[2].(*parse.TextNode)
	rg, ok3 := nodes[3].(*parse.RangeNode)
	t4, ok4 := nodes[4].(*parse.TextNode)
	if !(ok0 && ok1 && ok2 && ok3 && ok4) {
		fail("shape", "template node kinds differ from text · action · text · range · text")
		return
	}
	okAll := true
	if f := strings.Fields(stripComments(string(t0.Text))); len(f) != 3 || f[0] != "package" || f[1] != "wordlist" || f[2] != "var" {
		fail("header", "text before the variable name is %q, expected `package wordlist … var`", string(t0.Text))
		okAll = false
	}
	varName, wordsName := "Variable", "WordList"
	if a.genVarField != "" {
		varName = a.genVarField
	}
	if a.genWordsField != "" {
		wordsName = a.genWordsField
	}
	if !isFieldPipe(a1.Pipe, varName) {
		fail("variable", "the declared name is %s, expected {{.%s}}", a1.String(), varName)
		okAll = false
	}
	if squeeze(string(t2.Text)) != "=[]string{" {
		fail("open", "text after the variable name is %q, expected `= []string{`", string(t2.Text))
		okAll = false
	}
	if squeeze(string(t4.Text)) != "}" {
		fail("close", "text after the range is %q, expected `}`", string(t4.Text))
		okAll = false
	}
	if !isFieldPipe(rg.Pipe, wordsName) || rg.ElseList != nil {
		fail("range", "the loop is %s, expected {{range .%s}} without else", rg.Pipe.String(), wordsName)
		okAll = false
	}
	checkEntry := func(b []parse.Node, shown string) {
		if len(b) != 3 {
			fail("entry", "an entry is rendered by %d nodes, expected `\"` {{.}} `\",`", len(b))
			okAll = false
			return
		}
		q0, k0 := b[0].(*parse.TextNode)
		act, k1 := b[1].(*parse.ActionNode)
		q1, k2 := b[2].(*parse.TextNode)
		if !(k0 && k1 && k2) || strings.TrimSpace(string(q0.Text)) != `"` || strings.TrimSpace(string(q1.Text)) != `",` || !isDotPipe(act.Pipe) {
			fail("entry", "an entry is rendered as %s, expected `\"{{.}}\",` with no pipeline function", shown)
			okAll = false
		} else if !strings.HasSuffix(string(q0.Text), `"`) || !strings.HasPrefix(string(q1.Text), `"`) {
			fail("entry", "white space between the quotes and the word would become part of the word")
			okAll = false
		}
	}
	if a.genWordsNonEmpty {
		// the blank lines were dropped before the template runs (W2: the word slice holds the
		// non-empty pieces only): the loop body is the entry itself, no {{if .}} needed
		hasIf := false
		for _, n := range rg.List.Nodes {
			if _, ok := n.(*parse.IfNode); ok {
				hasIf = true
			}
		}
		if !hasIf {
			checkEntry(rg.List.Nodes, rg.List.String())
			if pkg != "text/template" && pkg != "html/template" {
				fail("package", "template package %s", pkg)
				okAll = false
			}
			if okAll {
				r.OK("W3", "template/shape", ep, "", "%s: package wordlist; var {{.Variable}} = []string{ {{range .WordList}}\"{{.}}\",{{end}} } over a word slice without blank lines — one quoted entry per non-empty line, nothing else", pkg)
			}
			return
		}
	}
	// body: [ws] If(.){ `"` Action(.) `",` } [ws]
	var ifn *parse.IfNode
	for _, n := range rg.List.Nodes {
		switch x := n.(type) {
		case *parse.TextNode:
			if strings.TrimSpace(string(x.Text)) != "" {
				fail("body", "text %q inside the loop but outside the {{if .}} is emitted for every line, blank ones included", string(x.Text))
				okAll = false
			}
		case *parse.IfNode:
			if ifn != nil {
				fail("body", "more than one {{if}} in the loop")
				okAll = false
			}
			ifn = x
		case *parse.ActionNode:
			fail("blank-lines", "the loop emits %s for every line without testing it: blank lines (the trailing newline of the upstream file) become empty words", x.String())
			okAll = false
		default:
			fail("body", "unexpected %s in the loop", n.String())
			okAll = false
		}
	}
	if ifn == nil {
		if okAll {
			fail("blank-lines", "the loop has no {{if .}}: blank lines become empty words")
		}
		okAll = false
	} else {
		if !isDotPipe(ifn.Pipe) || ifn.ElseList != nil {
			fail("blank-lines", "the guard is {{if %s}}, expected {{if .}} without else (drop blank lines and only blank lines)", ifn.Pipe.String())
			okAll = false
		}
		checkEntry(ifn.List.Nodes, ifn.List.String())
	}
	if pkg != "text/template" && pkg != "html/template" {
		fail("package", "template package %s", pkg)
		okAll = false
	}
	if okAll {
		r.OK("W3", "template/shape", ep, "", "%s: package wordlist; var {{.Variable}} = []string{ {{range .WordList}}{{if .}}\"{{.}}\",{{end}}{{end}} } — one quoted entry per non-empty line, nothing else", pkg)
	}
}

func countNodes(n parse.Node) int {
	c := 1
	switch x := n.(type) {
	case *parse.ListNode:
		if x == nil {
			return 0
		}
		for _, m := range x.Nodes {
			c += countNodes(m)
		}
	case *parse.RangeNode:
		c += countNodes(x.List)
		if x.ElseList != nil {
			c += countNodes(x.ElseList)
		}
	case *parse.IfNode:
		c += countNodes(x.List)
		if x.ElseList != nil {
			c += countNodes(x.ElseList)
		}
	}
	return c
}

var _ = fmt.Sprint
