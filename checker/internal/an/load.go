package an

import (
	"fmt"
	"go/ast"
	"go/build/constraint"
	"go/token"
	"go/types"
	"os"
	"path/filepath"
	"runtime"
	"sort"
	"strconv"
	"strings"

	"golang.org/x/tools/go/packages"
	"golang.org/x/tools/go/ssa"
	"golang.org/x/tools/go/ssa/ssautil"
)

// Config is one build configuration under which the repository is loaded.
type Config struct {
	GOOS, GOARCH string
	Tags         []string
}

func (c Config) String() string {
	t := "-"
	if len(c.Tags) > 0 {
		t = strings.Join(c.Tags, ",")
	}
	return fmt.Sprintf("%s/%s tags=%s", c.GOOS, c.GOARCH, t)
}

// IntBits is the width of int/uint under the configuration.
func (c Config) IntBits() int {
	switch c.GOARCH {
	case "386", "arm", "mips", "mipsle", "wasm":
		return 32
	}
	return 64
}

// Program is the loaded, type-checked repository with its SSA form.
type Program struct {
	Cfg     Config
	Dir     string
	ModPath string
	Fset    *token.FileSet
	Pkgs    []*packages.Package // every package of the module, non-test variant
	TestPkg []*packages.Package // test variants (for classification of writers only)
	SSA     *ssa.Program

	Root  *ssa.Package // the bip39 package
	Words *ssa.Package // internal/wordlist
	Gen   *ssa.Package // update-wordlist (package main), may be nil
	RootP *packages.Package
	WordP *packages.Package
	GenP  *packages.Package
	// RootTest is the SSA package of the in-package test variant of Root (nil if absent)
	RootTest *ssa.Package

	Files      []string // non-test .go files analysed (relative to Dir)
	Unanalysed []string // non-test .go files of the module no loaded package includes
	NeverBuilt []string // … of which: excluded on every platform by a Go release constraint the installed toolchain does not meet
	NumFuncs   int
	NumBlocks  int
	NumInstrs  int

	ctrl map[*ssa.BasicBlock][]ctrlEdge // cache of the branch edges dominating a block
	// countOfTok: calls strings.Count(s, sep) whose value is len(strings.Split(s, sep)) - 1 for
	// the one tokeniser call of the validator (same SSA operand, same non-empty constant separator)
	// walkCount: the strings.Count call that stands for the tokeniser in a validator that cuts
	// the sentence word by word instead of splitting it (G3)
	walkCount  map[*ssa.Call]bool
	countOfTok map[*ssa.Call]bool
	// paramGlobal: parameters of a function an anchored entry point forwards to that receive
	// the value of a package-level variable (`return newMnemonic(cryptoRander, n, lang)`)
	paramGlobal map[*ssa.Parameter]*ssa.Global
	// splitters: module functions matched against the hand-written byte splitter shape
	// (byteSplitter), with the separator ("" = not one)
	// nfkdFns: module functions matched against the NFKD-with-fast-path shape (nfkdHelper)
	nfkdFns   map[*ssa.Function]bool
	splitters map[*ssa.Function]string
}

// Load loads dir under cfg.  Any type error is returned as an error: an
// analysis that cannot see must not say "held".
func Load(dir string, cfg Config) (*Program, error) {
	env := []string{}
	for _, kv := range os.Environ() {
		k := strings.SplitN(kv, "=", 2)[0]
		switch k {
		case "GOFLAGS", "GOPROXY", "GOSUMDB", "GOTOOLCHAIN", "GOWORK", "GOOS", "GOARCH", "CGO_ENABLED":
			continue
		}
		env = append(env, kv)
	}
	env = append(env, "GOFLAGS=-mod=readonly", "GOPROXY=off", "GOSUMDB=off", "GOTOOLCHAIN=local", "GOWORK=off",
		"GOOS="+cfg.GOOS, "GOARCH="+cfg.GOARCH, "CGO_ENABLED=0")
	pc := &packages.Config{
		Mode:  packages.LoadAllSyntax | packages.NeedModule,
		Dir:   dir,
		Env:   env,
		Tests: true,
	}
	if len(cfg.Tags) > 0 {
		pc.BuildFlags = []string{"-tags=" + strings.Join(cfg.Tags, ",")}
	}
	pkgs, err := packages.Load(pc, "./...")
	if err != nil {
		return nil, fmt.Errorf("load %s: %v", cfg, err)
	}
	if len(pkgs) == 0 {
		return nil, fmt.Errorf("load %s: no packages", cfg)
	}
	var errs []string
	packages.Visit(pkgs, nil, func(p *packages.Package) {
		for _, e := range p.Errors {
			errs = append(errs, e.Error())
		}
	})
	if len(errs) > 0 {
		sort.Strings(errs)
		if len(errs) > 8 {
			errs = errs[:8]
		}
		return nil, fmt.Errorf("load %s: package errors: %s", cfg, strings.Join(errs, "; "))
	}
	p := &Program{Cfg: cfg, Dir: dir}
	// module path
	for _, pk := range pkgs {
		if pk.Module != nil && pk.Module.Main {
			p.ModPath = pk.Module.Path
			break
		}
	}
	if p.ModPath == "" {
		return nil, fmt.Errorf("load %s: cannot determine module path", cfg)
	}
	prog, _ := ssautil.AllPackages(pkgs, ssa.InstantiateGenerics)
	prog.Build()
	p.SSA = prog
	p.Fset = pkgs[0].Fset
	seenFile := map[string]bool{}
	for _, pk := range pkgs {
		if pk.Module == nil || !pk.Module.Main {
			continue
		}
		isTestVariant := strings.Contains(pk.ID, "[") || strings.HasSuffix(pk.ID, ".test") || strings.HasSuffix(pk.PkgPath, "_test")
		if isTestVariant {
			p.TestPkg = append(p.TestPkg, pk)
			if pk.PkgPath == p.ModPath && strings.Contains(pk.ID, "[") {
				p.RootTest = prog.Package(pk.Types)
			}
			continue
		}
		p.Pkgs = append(p.Pkgs, pk)
		sp := prog.Package(pk.Types)
		switch {
		case pk.PkgPath == p.ModPath:
			p.Root, p.RootP = sp, pk
		case pk.PkgPath == p.ModPath+"/internal/wordlist":
			p.Words, p.WordP = sp, pk
		case pk.Name == "main":
			p.Gen, p.GenP = sp, pk
		}
		for _, f := range pk.GoFiles {
			rel, _ := filepath.Rel(dir, f)
			if !seenFile[rel] {
				seenFile[rel] = true
				p.Files = append(p.Files, rel)
			}
		}
	}
	sort.Strings(p.Files)
	if p.Root == nil {
		return nil, fmt.Errorf("load %s: root package %s not found", cfg, p.ModPath)
	}
	// file coverage: every non-test .go file under dir must be in some loaded package
	_ = filepath.Walk(dir, func(path string, info os.FileInfo, err error) error {
		if err != nil {
			return nil
		}
		if info.IsDir() {
			n := info.Name()
			if path != dir && (strings.HasPrefix(n, ".") || strings.HasPrefix(n, "_") || n == "testdata" || n == "vendor") {
				return filepath.SkipDir
			}
			return nil
		}
		if !strings.HasSuffix(path, ".go") || strings.HasSuffix(path, "_test.go") {
			return nil
		}
		rel, _ := filepath.Rel(dir, path)
		if !seenFile[rel] {
			if excludedByRelease(path) {
				// `//go:build !go1.16` and the like: no build with the installed toolchain, on
				// any platform, compiles this file (it is the other half of a version pair)
				p.NeverBuilt = append(p.NeverBuilt, rel)
				return nil
			}
			p.Unanalysed = append(p.Unanalysed, rel)
		}
		return nil
	})
	// instances of generic functions (built with their type arguments substituted) belong to
	// no package in go/ssa; for this analysis they are functions of the package that declares
	// the generic function, with an ordinary body
	for fn := range ssautil.AllFunctions(prog) {
		if fn.Pkg == nil && fn.Origin() != nil && fn.Origin() != fn && fn.Origin().Pkg != nil {
			fn.Pkg = fn.Origin().Pkg
		}
	}
	for fn := range ssautil.AllFunctions(prog) {
		if fn.Pkg == nil || !p.InModule(fn.Pkg) {
			continue
		}
		p.NumFuncs++
		p.NumBlocks += len(fn.Blocks)
		for _, b := range fn.Blocks {
			p.NumInstrs += len(b.Instrs)
		}
	}
	return p, nil
}

// excludedByRelease: the file's //go:build line is false for every choice of platform and
// custom tags, because of `go1.N` release tags alone, with the toolchain this analysis runs
// with (the one that builds and tests the repository here).
func excludedByRelease(path string) bool {
	src, err := os.ReadFile(path)
	if err != nil {
		return false
	}
	var expr constraint.Expr
	for _, line := range strings.Split(string(src), "\n") {
		t := strings.TrimSpace(line)
		if t == "" || strings.HasPrefix(t, "//") && !constraint.IsGoBuild(t) {
			continue
		}
		if constraint.IsGoBuild(t) {
			if x, err := constraint.Parse(t); err == nil {
				expr = x
			}
			break
		}
		break // the package clause or anything else: no constraint
	}
	if expr == nil {
		return false
	}
	minor := 0
	if v := strings.TrimPrefix(runtime.Version(), "go1."); v != runtime.Version() {
		for _, c := range v {
			if c < '0' || c > '9' {
				break
			}
			minor = minor*10 + int(c-'0')
		}
	}
	if minor == 0 {
		return false
	}
	// three-valued evaluation: 1 true, 0 false, -1 depends on the platform or on custom tags
	var ev func(x constraint.Expr) int
	ev = func(x constraint.Expr) int {
		switch y := x.(type) {
		case *constraint.TagExpr:
			if strings.HasPrefix(y.Tag, "go1.") {
				n, err := strconv.Atoi(strings.TrimPrefix(y.Tag, "go1."))
				if err != nil {
					return -1
				}
				if n <= minor {
					return 1
				}
				return 0
			}
			return -1
		case *constraint.NotExpr:
			switch ev(y.X) {
			case 1:
				return 0
			case 0:
				return 1
			}
			return -1
		case *constraint.AndExpr:
			a, b := ev(y.X), ev(y.Y)
			if a == 0 || b == 0 {
				return 0
			}
			if a == 1 && b == 1 {
				return 1
			}
			return -1
		case *constraint.OrExpr:
			a, b := ev(y.X), ev(y.Y)
			if a == 1 || b == 1 {
				return 1
			}
			if a == 0 && b == 0 {
				return 0
			}
			return -1
		}
		return -1
	}
	return ev(expr) == 0
}

// InModule reports whether the SSA package belongs to the module under analysis.
func (p *Program) InModule(sp *ssa.Package) bool {
	if sp == nil || sp.Pkg == nil {
		return false
	}
	path := sp.Pkg.Path()
	return path == p.ModPath || strings.HasPrefix(path, p.ModPath+"/") || strings.HasPrefix(path, p.ModPath+"_test") || strings.HasPrefix(path, p.ModPath+".")
}

// IsTestFunc reports whether fn is declared in a _test.go file (or belongs to a test-only package).
func (p *Program) IsTestFunc(fn *ssa.Function) bool {
	for f := fn; f != nil; f = f.Parent() {
		if f.Pos().IsValid() {
			return strings.HasSuffix(p.Fset.Position(f.Pos()).Filename, "_test.go")
		}
	}
	if fn.Pkg != nil {
		pp := fn.Pkg.Pkg.Path()
		return strings.HasSuffix(pp, "_test") || strings.HasSuffix(pp, ".test")
	}
	return false
}

// Pos renders a position relative to the repository root.
func (p *Program) Pos(pos token.Pos) string {
	if !pos.IsValid() {
		return "-"
	}
	ps := p.Fset.Position(pos)
	rel, err := filepath.Rel(p.Dir, ps.Filename)
	if err != nil {
		rel = ps.Filename
	}
	return fmt.Sprintf("%s:%d", rel, ps.Line)
}

// InstrPos gives the best available position for an instruction.
func (p *Program) InstrPos(in ssa.Instruction) string {
	if in == nil {
		return "-"
	}
	if in.Pos().IsValid() {
		return p.Pos(in.Pos())
	}
	if v, ok := in.(ssa.Value); ok {
		for _, r := range *v.Referrers() {
			if r.Pos().IsValid() {
				return p.Pos(r.Pos())
			}
		}
	}
	// fall back to the nearest positioned instruction of the block, then the function
	if b := in.Block(); b != nil {
		for _, x := range b.Instrs {
			if x.Pos().IsValid() {
				return p.Pos(x.Pos())
			}
		}
	}
	if in.Parent() != nil {
		return p.Pos(in.Parent().Pos())
	}
	return "-"
}

// ModuleFuncs returns every SSA function (incl. anonymous and synthetic init) of the
// non-test variants of module packages, plus, if withTests, of the test variants.
func (p *Program) ModuleFuncs(withTests bool) []*ssa.Function {
	var out []*ssa.Function
	seen := map[*ssa.Function]bool{}
	var add func(fn *ssa.Function)
	add = func(fn *ssa.Function) {
		if fn == nil || seen[fn] {
			return
		}
		seen[fn] = true
		out = append(out, fn)
		for _, a := range fn.AnonFuncs {
			add(a)
		}
	}
	addPkg := func(sp *ssa.Package) {
		if sp == nil {
			return
		}
		names := make([]string, 0, len(sp.Members))
		for n := range sp.Members {
			names = append(names, n)
		}
		sort.Strings(names)
		for _, n := range names {
			switch m := sp.Members[n].(type) {
			case *ssa.Function:
				add(m)
			case *ssa.Type:
				ms := p.SSA.MethodSets.MethodSet(m.Type())
				for i := 0; i < ms.Len(); i++ {
					add(p.SSA.MethodValue(ms.At(i)))
				}
				ms = p.SSA.MethodSets.MethodSet(types.NewPointer(m.Type()))
				for i := 0; i < ms.Len(); i++ {
					add(p.SSA.MethodValue(ms.At(i)))
				}
			}
		}
	}
	for _, pk := range p.Pkgs {
		addPkg(p.SSA.Package(pk.Types))
	}
	if withTests {
		for _, pk := range p.TestPkg {
			addPkg(p.SSA.Package(pk.Types))
		}
	}
	// drop wrappers/thunks whose body lives elsewhere (they carry no source of their own),
	// and functions of packages outside the module that the method-set walk may have pulled in
	var res []*ssa.Function
	for _, fn := range out {
		if fn.Pkg == nil && fn.Parent() == nil {
			// synthetic wrapper ($bound, $thunk, promoted method): analysed via its target
			continue
		}
		pk := fn.Pkg
		if pk == nil && fn.Parent() != nil {
			pk = fn.Parent().Pkg
		}
		if !p.InModule(pk) {
			continue
		}
		res = append(res, fn)
	}
	return res
}

// FileOf returns the syntax file containing pos among the module's packages.
func (p *Program) FileOf(pos token.Pos) *ast.File {
	for _, set := range [][]*packages.Package{p.Pkgs, p.TestPkg} {
		for _, pk := range set {
			for _, f := range pk.Syntax {
				if f.Pos() <= pos && pos <= f.End() {
					return f
				}
			}
		}
	}
	return nil
}
