package an

import (
	"fmt"
	"sort"
	"strings"
)

// Outcome of one obligation.
type Outcome string

const (
	Discharged Outcome = "discharged"
	Violated   Outcome = "violated"
	Undecided  Outcome = "undecided"
)

// Obligation is one instance of a rule on one construct (in one context).
type Obligation struct {
	Rule    string  `json:"rule"`
	Key     string  `json:"construct"` // rule + construct identify the obligation (no line numbers)
	Pos     string  `json:"pos"`
	Ctx     string  `json:"context,omitempty"`
	Outcome Outcome `json:"outcome"`
	Detail  string  `json:"detail"`
	Config  string  `json:"config,omitempty"`
}

func (o Obligation) ID() string { return o.Rule + "|" + o.Key }

// Result collects the obligations of the rules run on one configuration.
type Result struct {
	Obls   []Obligation
	Counts map[string]int // per-rule instance counts (for the floors)
	Info   map[string]string
}

func NewResult() *Result {
	return &Result{Counts: map[string]int{}, Info: map[string]string{}}
}

func (r *Result) Add(rule, key, pos, ctx string, out Outcome, format string, a ...any) {
	// "A+B" files the same obligation under both rules (a site that is a premise of
	// two properties through different rule names)
	for _, ru := range strings.Split(rule, "+") {
		r.Obls = append(r.Obls, Obligation{Rule: ru, Key: key, Pos: pos, Ctx: ctx, Outcome: out, Detail: fmt.Sprintf(format, a...)})
	}
}

func (r *Result) OK(rule, key, pos, ctx, format string, a ...any) {
	r.Add(rule, key, pos, ctx, Discharged, format, a...)
}
func (r *Result) Bad(rule, key, pos, ctx, format string, a ...any) {
	r.Add(rule, key, pos, ctx, Violated, format, a...)
}
func (r *Result) Unk(rule, key, pos, ctx, format string, a ...any) {
	r.Add(rule, key, pos, ctx, Undecided, format, a...)
}

// Check adds a discharged or violated obligation depending on cond.
func (r *Result) Check(cond bool, rule, key, pos, ctx, okMsg, badMsg string) bool {
	if cond {
		r.OK(rule, key, pos, ctx, "%s", okMsg)
	} else {
		r.Bad(rule, key, pos, ctx, "%s", badMsg)
	}
	return cond
}

// Collapse merges obligations that are identical up to the context: one entry per
// (rule, construct, outcome, detail), with the contexts listed.
func Collapse(obls []Obligation) []Obligation {
	type key struct {
		rule, key, pos, detail, config string
		out                            Outcome
	}
	idx := map[key]int{}
	var out []Obligation
	ctxs := map[int][]string{}
	for _, o := range obls {
		k := key{o.Rule, o.Key, o.Pos, o.Detail, o.Config, o.Outcome}
		if i, ok := idx[k]; ok {
			if o.Ctx != "" {
				ctxs[i] = append(ctxs[i], o.Ctx)
			}
			continue
		}
		idx[k] = len(out)
		if o.Ctx != "" {
			ctxs[len(out)] = []string{o.Ctx}
		}
		out = append(out, o)
	}
	for i := range out {
		c := ctxs[i]
		if len(c) > 6 {
			out[i].Ctx = fmt.Sprintf("%s … (%d contexts)", strings.Join(c[:4], "; "), len(c))
		} else {
			out[i].Ctx = strings.Join(c, "; ")
		}
	}
	return out
}

// SortObligations orders failing obligations first, then by rule and construct.
func SortObligations(obls []Obligation) {
	rankO := func(o Obligation) int {
		switch {
		case o.Outcome == Discharged:
			return 4
		case o.Rule == "FLOOR":
			return 3 // a floor usually fails as a consequence of something reported above it
		case o.Outcome == Violated:
			return 0
		}
		return 1
	}
	sort.SliceStable(obls, func(i, j int) bool {
		a, b := obls[i], obls[j]
		if rankO(a) != rankO(b) {
			return rankO(a) < rankO(b)
		}
		if a.Rule != b.Rule {
			return a.Rule < b.Rule
		}
		return a.Key < b.Key
	})
}
