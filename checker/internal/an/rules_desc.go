package an

import (
	"fmt"
	"go/token"
	"go/types"

	"golang.org/x/tools/go/ssa"
)

// The descriptor-table form of the lazy construction (T3):
//
//	var languages = [...]language{
//		English: {words: wordlist.English, mapping: &englishMapping /*, once sync.Once or new(sync.Once) */},
//		…
//	}
//	e := &languages[lan]            // or e := lan.entry(), which returns that or nil
//	e.once.Do(func() {
//		m := make(map[string]int64, len(e.words))
//		for i, w := range e.words { m[w] = int64(i) }
//		*e.mapping = m
//	})
//	return *e.mapping
//
// Every access goes through a pointer to one element of the table, so the argument is made once
// for "some element": the Once, the list and the map pointer used together belong to the same
// element because they are fields of the same pointer value; the table's declaration says
// which list and which map variable each element pairs, with a Once of its own.

type descTable struct {
	D          *ssa.Global
	T          types.Type // element type
	fw, fm, fo int        // fields: word list, pointer to the map variable, the Once
	oncePtr    bool       // the Once field is a *sync.Once
	listOf     map[*ssa.Global]*ssa.Global
	idxOf      map[*ssa.Global]int
	problem    string // why the uses of the table are not of the recognised form ("" if they are)
	builder    *ssa.Function
	checked    bool
	nReads     int
}

// descTableOf finds the package-level table one of whose elements holds &M.
func (a *Analysis) descTableOf(M *ssa.Global) *descTable {
	if a.descTables == nil {
		a.descTables = map[*ssa.Global]*descTable{}
		for D, iv := range a.G.Init {
			vv, ok := iv.(VecV)
			if !ok || len(vv.Elems) == 0 || D.Pkg == nil || !a.P.InModule(D.Pkg) {
				continue
			}
			at, ok := D.Type().(*types.Pointer).Elem().Underlying().(*types.Array)
			if !ok {
				continue
			}
			st, ok := at.Elem().Underlying().(*types.Struct)
			if !ok {
				continue
			}
			dt := &descTable{D: D, T: at.Elem(), fw: -1, fm: -1, fo: -1, listOf: map[*ssa.Global]*ssa.Global{}, idxOf: map[*ssa.Global]int{}}
			for i := 0; i < st.NumFields(); i++ {
				ft := st.Field(i).Type()
				switch {
				case isOnce(ft):
					if dt.fo >= 0 {
						dt.fo = -2
					} else {
						dt.fo = i
					}
				case isOncePtr(ft):
					if dt.fo >= 0 {
						dt.fo = -2
					} else {
						dt.fo, dt.oncePtr = i, true
					}
				case isStringSlice(ft):
					if dt.fw >= 0 {
						dt.fw = -2
					} else {
						dt.fw = i
					}
				default:
					if pt, ok := ft.Underlying().(*types.Pointer); ok {
						if _, isMap := pt.Elem().Underlying().(*types.Map); isMap {
							if dt.fm >= 0 {
								dt.fm = -2
							} else {
								dt.fm = i
							}
						}
					}
				}
			}
			if dt.fw < 0 || dt.fm < 0 || dt.fo < 0 {
				continue
			}
			okAll := true
			onces := map[*Obj]bool{}
			for k, el := range vv.Elems {
				ev, ok := el.(VecV)
				if !ok || len(ev.Elems) != st.NumFields() {
					okAll = false
					break
				}
				lv, okL := ev.Elems[dt.fw].(*ListV)
				pv, okM := ev.Elems[dt.fm].(PtrV)
				if !okL || lv == nil || lv.G == nil || !okM || pv.G == nil {
					okAll = false
					break
				}
				if _, dup := dt.listOf[pv.G]; dup {
					okAll = false // two elements share a map variable
					break
				}
				if dt.oncePtr {
					op, ok := ev.Elems[dt.fo].(PtrV)
					if !ok || op.O == nil || onces[op.O] {
						okAll = false // not a Once of its own
						break
					}
					onces[op.O] = true
				}
				dt.listOf[pv.G] = lv.G
				dt.idxOf[pv.G] = k
			}
			if !okAll {
				continue
			}
			for m := range dt.listOf {
				a.descTables[m] = dt
			}
		}
	}
	return a.descTables[M]
}

// ptrRoot names the variable a pointer value was read from: the free variable of a closure,
// the local cell a captured variable lives in, or the value itself.
func ptrRoot(v ssa.Value) ssa.Value {
	if u, ok := v.(*ssa.UnOp); ok && u.Op == token.MUL {
		switch x := u.X.(type) {
		case *ssa.FreeVar:
			return x
		case *ssa.Alloc:
			return x
		}
	}
	return v
}

// fieldLoad: v is *(&p.f) for a struct pointer p; the root of p and the field.
func fieldLoad(v ssa.Value) (root ssa.Value, field int, fa *ssa.FieldAddr, ok bool) {
	u, isLoad := v.(*ssa.UnOp)
	if !isLoad || u.Op != token.MUL {
		return nil, 0, nil, false
	}
	fa, isFA := u.X.(*ssa.FieldAddr)
	if !isFA {
		return nil, 0, nil, false
	}
	return ptrRoot(fa.X), fa.Field, fa, true
}

// checkDescTable verifies, once per table, that every use of the table and of its element type
// in non-test module code is of the recognised form.
func (a *Analysis) checkDescTable(dt *descTable) {
	if dt.checked {
		return
	}
	dt.checked = true
	fail := func(format string, args ...any) {
		if dt.problem == "" {
			dt.problem = fmt.Sprintf(format, args...)
		}
	}
	// the table is written by its declaration only
	for _, w := range a.Ef.Writes[dt.D] {
		if w.Test || w.Synth {
			continue
		}
		if w.Kind == "referent" && w.How == "store through pointer" {
			continue // `*e.mapping = m` seen as a store through something read from the table: judged below
		}
		fail("the table %s is written by %s (%s, %s)", dt.D.Name(), fnKey(w.Fn), w.How, a.P.InstrPos(w.Instr))
	}
	isElemPtr := func(t types.Type) bool {
		pt, ok := t.Underlying().(*types.Pointer)
		return ok && types.Identical(pt.Elem(), dt.T)
	}
	// a pointer to an element: &D[i], or what a module function returns that only returns that or nil
	var elemValue func(v ssa.Value, depth int) bool
	elemValue = func(v ssa.Value, depth int) bool {
		switch x := v.(type) {
		case *ssa.IndexAddr:
			return x.X == ssa.Value(dt.D)
		case *ssa.Call:
			f := x.Call.StaticCallee()
			if f == nil || !a.isModuleFunc(f) || len(f.Blocks) == 0 || depth > 2 {
				return false
			}
			n := 0
			for _, ret := range returnsOf(f) {
				if len(ret.Results) != 1 {
					return false
				}
				rv := returnedValue(ret, 0)
				if isNilConst(rv) {
					continue
				}
				if !elemValue(rv, depth+1) {
					return false
				}
				n++
			}
			return n > 0
		case *ssa.Phi:
			for _, ed := range x.Edges {
				if !isNilConst(ed) && !elemValue(ed, depth+1) {
					return false
				}
			}
			return true
		}
		return false
	}
	// what a root (cell, free variable, value) holds
	rootIsElem := func(root ssa.Value, fn *ssa.Function) bool {
		switch x := root.(type) {
		case *ssa.Alloc:
			n := 0
			for _, ref := range *x.Referrers() {
				if st, ok := ref.(*ssa.Store); ok && st.Addr == ssa.Value(x) {
					n++
					if !elemValue(st.Val, 0) {
						return false
					}
				}
			}
			return n == 1
		case *ssa.FreeVar:
			// bound, where the closure is made, to a cell that holds an element
			parent := fn.Parent()
			if parent == nil {
				return false
			}
			idx := -1
			for i, fv := range fn.FreeVars {
				if fv == x {
					idx = i
				}
			}
			okB := false
			for _, b := range parent.Blocks {
				for _, in := range b.Instrs {
					mc, ok := in.(*ssa.MakeClosure)
					if !ok || mc.Fn != ssa.Value(fn) || idx < 0 || idx >= len(mc.Bindings) {
						continue
					}
					al, isAlloc := mc.Bindings[idx].(*ssa.Alloc)
					if !isAlloc {
						return false
					}
					n := 0
					for _, ref := range *al.Referrers() {
						if st, ok := ref.(*ssa.Store); ok && st.Addr == ssa.Value(al) {
							n++
							if !elemValue(st.Val, 0) {
								return false
							}
						}
					}
					if n != 1 {
						return false
					}
					okB = true
				}
			}
			return okB
		default:
			return elemValue(root, 0)
		}
	}
	// the closure's free variable and the cell it is bound to are the same variable
	sameVar := func(inClosure ssa.Value, closure *ssa.Function, outside ssa.Value, mc *ssa.MakeClosure) bool {
		fv, ok := inClosure.(*ssa.FreeVar)
		if !ok {
			return false
		}
		for i, f := range closure.FreeVars {
			if f == fv && i < len(mc.Bindings) {
				return mc.Bindings[i] == outside
			}
		}
		return false
	}
	type mapRead struct {
		ld   *ssa.UnOp
		root ssa.Value
	}
	var reads []mapRead
	var doCalls []struct {
		call ssa.CallInstruction
		root ssa.Value
		mc   *ssa.MakeClosure
	}
	for _, fn := range a.P.ModuleFuncs(false) {
		if fn.Synthetic != "" && fn.Name() == "init" {
			continue
		}
		for _, b := range fn.Blocks {
			for _, in := range b.Instrs {
				// whole elements are never copied or assigned
				if v, ok := in.(ssa.Value); ok && sameNamedOrStruct(v.Type(), dt.T) {
					fail("an element of %s is copied as a value at %s", dt.D.Name(), a.P.InstrPos(in))
				}
				fa, ok := in.(*ssa.FieldAddr)
				if !ok || !isElemPtr(fa.X.Type()) {
					continue
				}
				root := ptrRoot(fa.X)
				if !rootIsElem(root, fn) {
					fail("%s uses a *%s that is not shown to point into %s (%s)", fnKey(fn), types.TypeString(dt.T, nil), dt.D.Name(), a.P.InstrPos(fa))
					continue
				}
				for _, ref := range *fa.Referrers() {
					if _, dbg := ref.(*ssa.DebugRef); dbg {
						continue
					}
					switch fa.Field {
					case dt.fo:
						var recv ssa.Value = fa
						if dt.oncePtr {
							ld, ok := ref.(*ssa.UnOp)
							if !ok || ld.Op != token.MUL {
								fail("the Once of an element is used other than to call Do (%s)", a.P.InstrPos(ref))
								continue
							}
							recv = ld
							for _, r2 := range *ld.Referrers() {
								c, ok := r2.(ssa.CallInstruction)
								if !ok || calleeName(c) != "(*sync.Once).Do" || c.Common().Args[0] != recv {
									fail("the Once of an element is used other than to call Do (%s)", a.P.InstrPos(r2))
									continue
								}
								mc, _ := c.Common().Args[1].(*ssa.MakeClosure)
								doCalls = append(doCalls, struct {
									call ssa.CallInstruction
									root ssa.Value
									mc   *ssa.MakeClosure
								}{c, root, mc})
							}
							continue
						}
						c, ok := ref.(ssa.CallInstruction)
						if !ok || calleeName(c) != "(*sync.Once).Do" || c.Common().Args[0] != recv {
							fail("the Once of an element is used other than to call Do (%s)", a.P.InstrPos(ref))
							continue
						}
						mc, _ := c.Common().Args[1].(*ssa.MakeClosure)
						doCalls = append(doCalls, struct {
							call ssa.CallInstruction
							root ssa.Value
							mc   *ssa.MakeClosure
						}{c, root, mc})
					case dt.fm:
						ld, ok := ref.(*ssa.UnOp)
						if !ok || ld.Op != token.MUL {
							fail("the map pointer of an element is assigned or handed on at %s", a.P.InstrPos(ref))
							continue
						}
						for _, r2 := range *ld.Referrers() {
							switch y := r2.(type) {
							case *ssa.DebugRef:
							case *ssa.UnOp:
								if y.Op == token.MUL && y.X == ssa.Value(ld) {
									reads = append(reads, mapRead{y, root})
								} else {
									fail("the map pointer of an element is used at %s", a.P.InstrPos(r2))
								}
							case *ssa.Store:
								if y.Addr != ssa.Value(ld) {
									fail("the map pointer of an element is stored somewhere at %s", a.P.InstrPos(r2))
									continue
								}
								// the one write: in the builder, a fresh map
								if dt.builder != nil && dt.builder != fn {
									fail("the maps are written by %s and by %s", fnKey(dt.builder), fnKey(fn))
								}
								dt.builder = fn
								mk, isMake := y.Val.(*ssa.MakeMap)
								if !isMake {
									fail("%s assigns the map variable something other than a fresh map (%s)", fnKey(fn), a.P.InstrPos(y))
									continue
								}
								listVal, msg := a.fillShape(fn, func(m ssa.Value) bool { return m == ssa.Value(mk) })
								if listVal == nil {
									fail("%s", msg)
									continue
								}
								lr, lf, _, okL := fieldLoad(listVal)
								if !okL || lf != dt.fw || lr != root {
									fail("%s fills the map from something other than the word list of the same element", fnKey(fn))
								}
								// nothing changes the map after it is published
								for _, bb := range fn.Blocks {
									for _, in2 := range bb.Instrs {
										if mu, ok := in2.(*ssa.MapUpdate); ok && mu.Map != ssa.Value(mk) {
											fail("%s also writes another map (%s)", fnKey(fn), a.P.InstrPos(mu))
										}
										if c, ok := in2.(ssa.CallInstruction); ok {
											if n := calleeName(c); n != "len" && !a.inertCall(c) {
												fail("builder %s calls %s", fnKey(fn), n)
											}
										}
									}
								}
							default:
								fail("the map pointer of an element is used at %s", a.P.InstrPos(r2))
							}
						}
					default:
						// the list and any other field: only read
						if ld, ok := ref.(*ssa.UnOp); !ok || ld.Op != token.MUL {
							fail("field %d of an element of %s is written or its address handed on at %s", fa.Field, dt.D.Name(), a.P.InstrPos(ref))
						}
					}
				}
			}
		}
	}
	if dt.builder == nil {
		fail("no function assigns the map variables through the table %s", dt.D.Name())
		return
	}
	if dt.builder.Parent() == nil {
		fail("the maps are built by %s, which is not a closure run under the element's Once", fnKey(dt.builder))
		return
	}
	if !a.onlyUsedByDo(dt.builder) {
		fail("%s is also called or referenced outside (*sync.Once).Do", fnKey(dt.builder))
	}
	// every Do on an element's Once runs the builder, bound to the same element
	for _, d := range doCalls {
		if d.mc == nil || d.mc.Fn != ssa.Value(dt.builder) {
			fail("an element's Once runs something other than %s at %s", fnKey(dt.builder), a.P.InstrPos(d.call))
			continue
		}
		// the builder's element pointer is the variable whose Once this is
		okSame := false
		for _, b := range dt.builder.Blocks {
			for _, in := range b.Instrs {
				if fa, ok := in.(*ssa.FieldAddr); ok && isElemPtr(fa.X.Type()) {
					if sameVar(ptrRoot(fa.X), dt.builder, d.root, d.mc) {
						okSame = true
					} else {
						fail("%s works on an element other than the one whose Once runs it (%s)", fnKey(dt.builder), a.P.InstrPos(fa))
					}
				}
			}
		}
		if !okSame {
			fail("%s is not bound to the element whose Once runs it (%s)", fnKey(dt.builder), a.P.InstrPos(d.call))
		}
	}
	// every read of a map variable follows the Do of the same element
	for _, rd := range reads {
		fn := rd.ld.Parent()
		if fn == dt.builder {
			fail("%s reads the map variable it is building (%s)", fnKey(fn), a.P.InstrPos(rd.ld))
			continue
		}
		dom := false
		for _, d := range doCalls {
			if d.call.Parent() == fn && d.root == rd.root && instrDominates(d.call, rd.ld) {
				dom = true
			}
		}
		if !dom {
			fail("a map variable is read through the table in %s without a dominating Do on the same element's Once (%s): the read races with the construction", fnKey(fn), a.P.InstrPos(rd.ld))
		}
		dt.nReads++
	}
	if len(doCalls) == 0 {
		fail("no (*sync.Once).Do on an element of %s", dt.D.Name())
	}
}

// t3Desc judges the lookup map M of language lc when it is built through a descriptor table;
// false if M is not an entry of such a table.
func (a *Analysis) t3Desc(lc LangCtx, M *ssa.Global, usedGuard map[string]string) bool {
	dt := a.descTableOf(M)
	if dt == nil {
		return false
	}
	r := a.R
	pos := a.P.Pos(M.Pos())
	a.checkDescTable(dt)
	// the variable itself: never named outside the table's declaration
	okN := true
	for _, w := range a.Ef.Writes[M] {
		if !w.Test {
			r.Bad("T3", "writers/"+M.Name(), a.P.InstrPos(w.Instr), "", "%s is built through the table %s and also written by %s", M.Name(), dt.D.Name(), fnKey(w.Fn))
			okN = false
		}
	}
	for _, ld := range a.Ef.Loads[M] {
		if !a.P.IsTestFunc(ld.Parent()) {
			r.Bad("T3", "read-after-guard/"+M.Name(), a.P.InstrPos(ld), "", "%s is read by name in %s, outside the Once of its table element: the read races with the construction", M.Name(), fnKey(ld.Parent()))
			okN = false
		}
	}
	for _, u := range a.Ef.AddrUse[M] {
		if a.P.IsTestFunc(u.Parent()) {
			continue
		}
		if f := u.Parent(); f != nil && f.Synthetic != "" && f.Name() == "init" {
			continue // the table's declaration
		}
		r.Unk("T3", "address/"+M.Name(), a.P.InstrPos(u), "", "the address of %s is taken in %s, outside the declaration of the table %s", M.Name(), fnKey(u.Parent()), dt.D.Name())
		okN = false
	}
	if dt.problem != "" {
		r.Unk("T3", "shape/"+M.Name(), pos, "", "%s is an entry of the table %s, whose uses are not of the recognised descriptor form: %s", M.Name(), dt.D.Name(), dt.problem)
		return true
	}
	if !okN {
		return true
	}
	list := dt.listOf[M]
	guardName := fmt.Sprintf("%s[%d].once", dt.D.Name(), dt.idxOf[M])
	r.OK("T3", "writers/"+M.Name(), pos, "", "written only through element %d of the table %s, by %s", dt.idxOf[M], dt.D.Name(), fnKey(dt.builder))
	r.OK("T3", "guard/"+M.Name(), pos, "", "built by %s, run only under the Once of the same table element (%s), which runs nothing else", fnKey(dt.builder), guardName)
	r.OK("T3", "shape/"+M.Name(), a.P.Pos(dt.builder.Pos()), "", "fresh map; for i, w := range <element>.words { m[w] = int64(i) }; the element pairs %s with %s", list.Name(), M.Name())
	r.OK("T3", "address/"+M.Name(), pos, "", "%s is named only in the declaration of the table %s", M.Name(), dt.D.Name())
	r.OK("T3", "read-after-guard/"+M.Name(), pos, "", "read only through the table (%d reads), each after the Do of the same element", dt.nReads)
	usedGuard[guardName] = M.Name()
	a.OnceFn[M] = dt.builder
	a.MapList[M] = list
	n := int64(len(a.G.Lists[list].Elems))
	if bits, ok := log2exact(n); ok {
		a.G.MapBits[M] = bits
	}
	sp := a.ListLang[list]
	switch {
	case sp == nil:
		r.Bad("T3c", "inverse/"+M.Name(), pos, "", "%s is built from %s, which is not a canonical list", M.Name(), list.Name())
	case sp.Name != lc.Name:
		r.Bad("T3c", "inverse/"+M.Name(), pos, "", "the map used for %s is built from the canonical %s list", lc.Name, sp.Name)
	default:
		r.OK("T3c", "inverse/"+M.Name(), pos, "", "inverse of the canonical %s list; values in [0,%d)", sp.Name, n)
	}
	if a.G.MapNonNil == nil {
		a.G.MapNonNil = map[*ssa.Global]bool{}
	}
	a.G.MapNonNil[M] = true
	a.descGuards++
	return true
}

// sameNamedOrStruct: t is the (named or struct) type u; other kinds of type (tuples, the
// iterator types of go/ssa) are never it.
func sameNamedOrStruct(t, u types.Type) bool {
	switch t.(type) {
	case *types.Named, *types.Struct:
		return types.Identical(t, u)
	}
	return false
}
