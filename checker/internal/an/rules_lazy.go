package an

import (
	"fmt"
	"go/token"
	"go/types"

	"golang.org/x/tools/go/ssa"
)

// A lazy-construction helper is a module function
//
//	func H(once *sync.Once, m *map[string]T, list []string) map[string]T {
//		once.Do(func() { *m = <fresh map, inverse of list> })
//		return *m
//	}
//
// called as H(&fooOnce, &fooMapping, wordlist.Foo).  Each call site is an instance of the
// guard discipline of T3 with the guard, the map and the list it names: inside H the map is
// written only by the closure the guard runs and read only after the guard's Do, for whatever
// pointers H is given; the call sites say which variables those are.
type lazyHelper struct {
	H               *ssa.Function
	OnceIdx, MapIdx int
	ListIdx         int // -1 if the list is not a parameter
	Do              *ssa.Call
	Closure         *ssa.Function
	Problem         string    // non-empty: H is not of the shape above
	Inline          bool      // the discipline is written inside H itself (inlineLazyOf)
	Maker           bool      // H returns the guarded builder: `fooOnce.Do(H(&fooMapping, wordlist.Foo))`
	ListCall        *ssa.Call // inline form: the call in the closure that yields the word list
}

type lazyInst struct {
	Helper           *lazyHelper
	Site             ssa.CallInstruction
	Guard, Map, List *ssa.Global
	MakerCall        ssa.CallInstruction // maker form: the call of the maker whose result Site (the Do) runs
}

func isOncePtr(t types.Type) bool {
	p, ok := t.Underlying().(*types.Pointer)
	return ok && isOnce(p.Elem())
}

func isMapPtr(t types.Type) bool {
	p, ok := t.Underlying().(*types.Pointer)
	if !ok {
		return false
	}
	_, isMap := p.Elem().Underlying().(*types.Map)
	return isMap
}

// lazyHelperOf analyses H once (memoised).
func (a *Analysis) lazyHelperOf(H *ssa.Function) *lazyHelper {
	if a.lazy == nil {
		a.lazy = map[*ssa.Function]*lazyHelper{}
	}
	if lh, ok := a.lazy[H]; ok {
		return lh
	}
	lh := &lazyHelper{H: H, OnceIdx: -1, MapIdx: -1, ListIdx: -1}
	a.lazy[H] = lh
	if len(H.Blocks) == 0 || H.Parent() != nil {
		a.lazy[H] = nil
		return nil
	}
	for i, p := range H.Params {
		switch {
		case isOncePtr(p.Type()):
			if lh.OnceIdx >= 0 {
				a.lazy[H] = nil
				return nil
			}
			lh.OnceIdx = i
		case isMapPtr(p.Type()):
			if lh.MapIdx >= 0 {
				a.lazy[H] = nil
				return nil
			}
			lh.MapIdx = i
		default:
			if sl, ok := p.Type().Underlying().(*types.Slice); ok {
				if b, ok := sl.Elem().Underlying().(*types.Basic); ok && b.Info()&types.IsString != 0 {
					lh.ListIdx = i
				}
			}
		}
	}
	fail := func(format string, args ...any) *lazyHelper {
		lh.Problem = fmt.Sprintf(format, args...)
		return lh
	}
	if lh.OnceIdx < 0 && lh.MapIdx >= 0 && returnsPlainFunc(H) {
		// the maker form: H(&fooMapping, wordlist.Foo) returns the function a guard is to run,
		//	fooOnce.Do(H(&fooMapping, wordlist.Foo))
		return a.lazyMakerOf(H, lh, fail)
	}
	if lh.OnceIdx < 0 || lh.MapIdx < 0 {
		a.lazy[H] = nil
		return nil
	}
	once, m := H.Params[lh.OnceIdx], H.Params[lh.MapIdx]
	// the guard parameter: receiver of exactly one Do, nothing else
	for _, ref := range *once.Referrers() {
		switch x := ref.(type) {
		case *ssa.DebugRef:
		case *ssa.Call:
			if calleeName(x) != "(*sync.Once).Do" || len(x.Call.Args) != 2 || x.Call.Args[0] != ssa.Value(once) || lh.Do != nil {
				return fail("%s uses its *sync.Once parameter other than as the receiver of one Do", fnKey(H))
			}
			lh.Do = x
		default:
			return fail("%s uses its *sync.Once parameter other than as the receiver of one Do (%T)", fnKey(H), ref)
		}
	}
	if lh.Do == nil {
		return fail("%s never calls Do on its *sync.Once parameter", fnKey(H))
	}
	mc, ok := lh.Do.Call.Args[1].(*ssa.MakeClosure)
	if !ok {
		return fail("%s does not pass a closure to Do", fnKey(H))
	}
	lh.Closure, _ = mc.Fn.(*ssa.Function)
	if lh.Closure == nil {
		return fail("%s does not pass a closure to Do", fnKey(H))
	}
	// the map pointer: captured by that closure, read after the Do, nothing else.  (go/ssa
	// keeps a captured parameter in a cell: `t0 = new *map (m); *t0 = m`, the closure binds t0.)
	cellOf := func(p *ssa.Parameter) *ssa.Alloc {
		var cell *ssa.Alloc
		for _, ref := range *p.Referrers() {
			switch x := ref.(type) {
			case *ssa.DebugRef:
			case *ssa.Store:
				al, ok := x.Addr.(*ssa.Alloc)
				if !ok || x.Val != ssa.Value(p) || cell != nil {
					return nil
				}
				cell = al
			default:
				return nil
			}
		}
		return cell
	}
	mCell := cellOf(m)
	if mCell == nil {
		return fail("%s uses its map pointer other than by capturing it in the closure given to Do", fnKey(H))
	}
	for _, ref := range *mCell.Referrers() {
		switch x := ref.(type) {
		case *ssa.DebugRef, *ssa.Store:
		case *ssa.MakeClosure:
			if x != mc {
				return fail("%s hands its map pointer to another closure", fnKey(H))
			}
		case *ssa.UnOp:
			// the pointer itself; what is read through it must come after the Do
			for _, rr := range *x.Referrers() {
				ld, ok := rr.(*ssa.UnOp)
				if _, isDbg := rr.(*ssa.DebugRef); isDbg {
					continue
				}
				if !ok || ld.Op != token.MUL || !instrDominates(lh.Do, ld) {
					return fail("%s uses its map pointer other than to read the map after the Do on its guard", fnKey(H))
				}
			}
		default:
			return fail("%s uses its map pointer in %T", fnKey(H), ref)
		}
	}
	var lCell *ssa.Alloc
	if lh.ListIdx >= 0 {
		lCell = cellOf(H.Params[lh.ListIdx])
	}
	// inside the closure: the pointer is assigned through exactly once, a fresh map that is
	// the inverse of the captured list
	var fmCell, flCell ssa.Value
	for i, b := range mc.Bindings {
		if i >= len(lh.Closure.FreeVars) {
			break
		}
		if b == ssa.Value(mCell) {
			fmCell = lh.Closure.FreeVars[i]
		}
		if lCell != nil && b == ssa.Value(lCell) {
			flCell = lh.Closure.FreeVars[i]
		}
	}
	if fmCell == nil {
		return fail("the closure run by Do in %s does not capture the map pointer", fnKey(H))
	}
	if lh.ListIdx >= 0 && flCell == nil {
		return fail("the closure run by Do in %s does not capture the list parameter", fnKey(H))
	}
	isList := map[ssa.Value]bool{}
	if flCell != nil {
		for _, ref := range *flCell.Referrers() {
			switch x := ref.(type) {
			case *ssa.DebugRef:
			case *ssa.UnOp:
				if x.Op == token.MUL {
					isList[x] = true
				}
			default:
				return fail("the closure in %s assigns or hands on the list variable (%T)", fnKey(H), ref)
			}
		}
	}
	if msg := a.lazyClosureShape(lh.Closure, fmCell, func(v ssa.Value) bool { return isList[v] }, nil); msg != "" {
		return fail("%s", msg)
	}
	if lh.ListIdx < 0 {
		return fail("%s does not take the word list as a parameter", fnKey(H))
	}
	return lh
}

// returnsPlainFunc: H's only result is a func().
func returnsPlainFunc(H *ssa.Function) bool {
	res := H.Signature.Results()
	if res.Len() != 1 {
		return false
	}
	sig, ok := res.At(0).Type().Underlying().(*types.Signature)
	return ok && sig.Params().Len() == 0 && sig.Results().Len() == 0
}

// lazyMakerOf: H only builds and returns one closure that captures its map-pointer (and list)
// parameters; the closure has the shape of a guarded builder (lazyClosureShape).
func (a *Analysis) lazyMakerOf(H *ssa.Function, lh *lazyHelper, fail func(string, ...any) *lazyHelper) *lazyHelper {
	lh.Maker = true
	var mc *ssa.MakeClosure
	cells := map[*ssa.Parameter]*ssa.Alloc{}
	for _, b := range H.Blocks {
		for _, in := range b.Instrs {
			switch x := in.(type) {
			case *ssa.DebugRef, *ssa.Alloc:
			case *ssa.Store:
				p, isP := x.Val.(*ssa.Parameter)
				al, isA := x.Addr.(*ssa.Alloc)
				if !isP || !isA || cells[p] != nil {
					return fail("%s does more than capture its parameters in the function it returns", fnKey(H))
				}
				cells[p] = al
			case *ssa.MakeClosure:
				if mc != nil {
					return fail("%s builds more than one closure", fnKey(H))
				}
				mc = x
			case *ssa.Return:
				if len(x.Results) != 1 || mc == nil || x.Results[0] != ssa.Value(mc) {
					return fail("%s does not return the closure it builds", fnKey(H))
				}
			default:
				return fail("%s does more than build and return one closure (%T)", fnKey(H), in)
			}
		}
	}
	if mc == nil {
		return fail("%s builds no closure", fnKey(H))
	}
	lh.Closure, _ = mc.Fn.(*ssa.Function)
	if lh.Closure == nil {
		return fail("%s does not return a function literal", fnKey(H))
	}
	m := H.Params[lh.MapIdx]
	mCell := cells[m]
	if mCell == nil {
		return fail("%s: the map pointer is not captured by the returned function", fnKey(H))
	}
	// each cell is used by the store that fills it and by the closure, nothing else
	fvOf := map[*ssa.Alloc]*ssa.FreeVar{}
	for i, bnd := range mc.Bindings {
		if al, ok := bnd.(*ssa.Alloc); ok && i < len(lh.Closure.FreeVars) {
			fvOf[al] = lh.Closure.FreeVars[i]
		}
	}
	for _, al := range cells {
		for _, ref := range *al.Referrers() {
			switch ref.(type) {
			case *ssa.Store, *ssa.MakeClosure, *ssa.DebugRef:
			default:
				return fail("%s uses a captured parameter other than in the function it returns", fnKey(H))
			}
		}
	}
	fm := fvOf[mCell]
	if fm == nil {
		return fail("%s: the map pointer is not captured by the returned function", fnKey(H))
	}
	var fl *ssa.FreeVar
	if lh.ListIdx >= 0 {
		if c := cells[H.Params[lh.ListIdx]]; c != nil {
			fl = fvOf[c]
		}
	}
	if fl == nil {
		return fail("%s: the word list is not a parameter captured by the returned function", fnKey(H))
	}
	listOK := func(v ssa.Value) bool {
		ld, ok := v.(*ssa.UnOp)
		return ok && ld.Op == token.MUL && ld.X == ssa.Value(fl)
	}
	if msg := a.lazyClosureShape(lh.Closure, fm, listOK, nil); msg != "" {
		return fail("%s", msg)
	}
	return lh
}

// lazyClosureShape: clo, the function a guard runs, assigns through the captured map pointer
// (the cell fmCell holds it) exactly once, a fresh map that is the inverse of a list value
// accepted by listOK; it calls nothing but len (and what okCall admits).
func (a *Analysis) lazyClosureShape(clo *ssa.Function, fmCell ssa.Value, listOK func(ssa.Value) bool, okCall func(ssa.CallInstruction) bool) string {
	name := fnKey(clo)
	fail := func(format string, args ...any) string { return fmt.Sprintf(format, args...) }
	isPtr := map[ssa.Value]bool{} // values of the map pointer inside the closure
	for _, ref := range *fmCell.Referrers() {
		switch x := ref.(type) {
		case *ssa.DebugRef:
		case *ssa.UnOp:
			if x.Op != token.MUL {
				return fail("%s uses the map pointer's variable in %v", name, x)
			}
			isPtr[x] = true
		default:
			return fail("%s assigns or hands on the map pointer's variable (%T)", name, ref)
		}
	}
	var store *ssa.Store
	for pv := range isPtr {
		for _, ref := range *pv.Referrers() {
			switch x := ref.(type) {
			case *ssa.DebugRef:
			case *ssa.Store:
				if x.Addr != pv || store != nil {
					return fail("%s assigns through the map pointer more than once", name)
				}
				store = x
			case *ssa.UnOp:
				// `(*m)[w] = i` after `*m = make(...)`: checked by fillShape below
			default:
				return fail("%s uses the map pointer in %T", name, ref)
			}
		}
	}
	if store == nil {
		return fail("%s never assigns the map", name)
	}
	callOK := func(c ssa.CallInstruction) bool {
		return calleeName(c) == "len" || (okCall != nil && okCall(c))
	}
	switch v := store.Val.(type) {
	case *ssa.MakeMap:
		for _, c := range callsIn(clo) {
			if !callOK(c) {
				return fail("%s calls %s", name, calleeName(c))
			}
		}
		listVal, msg := a.fillShape(clo, func(mv ssa.Value) bool {
			if mv == ssa.Value(v) {
				return true
			}
			if ld, ok := mv.(*ssa.UnOp); ok && ld.Op == token.MUL && isPtr[ld.X] {
				return instrDominates(store, ld)
			}
			return false
		})
		if listVal == nil {
			return msg
		}
		if !listOK(listVal) {
			return fail("%s does not range over the list it is given", name)
		}
	case *ssa.Call:
		h := v.Call.StaticCallee()
		if h == nil || !a.isModuleFunc(h) || len(v.Call.Args) != 1 || !listOK(v.Call.Args[0]) {
			return fail("%s assigns the result of %s", name, calleeName(v))
		}
		if msg := a.helperShape(h); msg != "" {
			return msg
		}
		for _, c := range callsIn(clo) {
			if c != ssa.CallInstruction(v) && !callOK(c) {
				return fail("%s also calls %s", name, calleeName(c))
			}
		}
		for _, b := range clo.Blocks {
			for _, in := range b.Instrs {
				if _, ok := in.(*ssa.MapUpdate); ok {
					return fail("%s modifies the map after the helper built it", name)
				}
			}
		}
	default:
		return fail("%s assigns something other than a fresh map", name)
	}
	return ""
}

// inlineLazyOf recognises the same discipline written inside one function, with the guard
// and the map selected together by a switch:
//
//	var once *sync.Once; var m *map[string]T
//	switch lan { case English: once, m = &englishOnce, &englishMapping … default: return nil }
//	once.Do(func() { *m = <fresh inverse of lan.list()> })
//	return *m
//
// Each case is an instance (its guard, its map); the list is what the list call yields for
// the language of that case (resolved by the caller, by evaluation).
func (a *Analysis) inlineLazyOf(F *ssa.Function) (*lazyHelper, []lazyInst) {
	if len(F.Blocks) == 0 {
		return nil, nil
	}
	var do *ssa.Call
	for _, c := range callsIn(F) {
		if cc, ok := c.(*ssa.Call); ok && calleeName(cc) == "(*sync.Once).Do" && len(cc.Call.Args) == 2 {
			if _, isPhi := cc.Call.Args[0].(*ssa.Phi); isPhi {
				if do != nil {
					return nil, nil
				}
				do = cc
			}
		}
	}
	if do == nil {
		return nil, nil
	}
	lh := &lazyHelper{H: F, OnceIdx: -1, MapIdx: -1, ListIdx: -1, Do: do, Inline: true}
	fail := func(format string, args ...any) (*lazyHelper, []lazyInst) {
		lh.Problem = fmt.Sprintf(format, args...)
		return lh, nil
	}
	po := do.Call.Args[0].(*ssa.Phi)
	for _, ref := range *po.Referrers() {
		if ref != ssa.Instruction(do) {
			if _, dbg := ref.(*ssa.DebugRef); !dbg {
				return fail("%s uses the selected guard other than as the receiver of one Do", fnKey(F))
			}
		}
	}
	mc, ok := do.Call.Args[1].(*ssa.MakeClosure)
	if !ok {
		return fail("%s does not pass a closure to Do", fnKey(F))
	}
	lh.Closure, _ = mc.Fn.(*ssa.Function)
	// the cell holding the selected map pointer: the captured variable all of whose stores are addresses of package-level maps
	var cm *ssa.Alloc
	var fmCell ssa.Value
	for i, b := range mc.Bindings {
		al, ok := b.(*ssa.Alloc)
		if !ok || i >= len(lh.Closure.FreeVars) || !isMapPtr(al.Type().Underlying().(*types.Pointer).Elem()) {
			continue
		}
		cm, fmCell = al, lh.Closure.FreeVars[i]
	}
	if cm == nil {
		return fail("the closure run by Do in %s does not capture a variable holding the map pointer", fnKey(F))
	}
	stores := map[*ssa.BasicBlock]*ssa.Global{}
	for _, ref := range *cm.Referrers() {
		switch x := ref.(type) {
		case *ssa.DebugRef:
		case *ssa.MakeClosure:
			if x != mc {
				return fail("%s hands the map pointer to another closure", fnKey(F))
			}
		case *ssa.Store:
			g, isG := x.Val.(*ssa.Global)
			if x.Addr != ssa.Value(cm) {
				return fail("%s stores the map pointer's variable somewhere", fnKey(F))
			}
			if !isG {
				if c, isC := x.Val.(*ssa.Const); isC && c.Value == nil {
					continue // the zero value of the declaration
				}
				return fail("%s selects a map that is not a package-level variable", fnKey(F))
			}
			if stores[x.Block()] != nil {
				return fail("%s selects two maps on one path", fnKey(F))
			}
			stores[x.Block()] = g
		case *ssa.UnOp:
			for _, rr := range *x.Referrers() {
				if _, dbg := rr.(*ssa.DebugRef); dbg {
					continue
				}
				ld, ok := rr.(*ssa.UnOp)
				if !ok || ld.Op != token.MUL || !instrDominates(do, ld) {
					return fail("%s uses the selected map pointer other than to read the map after the Do on its guard", fnKey(F))
				}
			}
		default:
			return fail("%s uses the map pointer's variable in %T", fnKey(F), ref)
		}
	}
	// pair guards and maps: each edge into the φ of guards comes from a block that selected one map
	var insts []lazyInst
	pb := po.Block()
	for i, p := range pb.Preds {
		g, isG := po.Edges[i].(*ssa.Global)
		m := stores[p]
		if !isG || m == nil {
			return fail("%s does not select a guard and a map together on every path to Do", fnKey(F))
		}
		var site ssa.CallInstruction = do
		insts = append(insts, lazyInst{Helper: lh, Site: site, Guard: g, Map: m})
	}
	if len(insts) != len(stores) {
		return fail("%s selects maps on paths that do not reach the Do", fnKey(F))
	}
	// the closure: inverse of the result of one list call
	var listCall *ssa.Call
	for _, c := range callsIn(lh.Closure) {
		if cc, ok := c.(*ssa.Call); ok && calleeName(cc) != "len" {
			if callee := cc.Call.StaticCallee(); callee != nil && a.isModuleFunc(callee) && listCall == nil {
				if sl, ok := cc.Type().Underlying().(*types.Slice); ok {
					if b, ok := sl.Elem().Underlying().(*types.Basic); ok && b.Info()&types.IsString != 0 {
						listCall = cc
					}
				}
			}
		}
	}
	if listCall == nil {
		return fail("the closure in %s does not obtain the word list from a function of the module", fnKey(F))
	}
	lh.ListCall = listCall
	if msg := a.lazyClosureShape(lh.Closure, fmCell, func(v ssa.Value) bool { return v == ssa.Value(listCall) }, func(c ssa.CallInstruction) bool { return c == ssa.CallInstruction(listCall) }); msg != "" {
		return fail("%s", msg)
	}
	return lh, insts
}

// lazyInstances lists the (non-test) call sites of lazy helpers that name package-level
// variables, per map.
func (a *Analysis) lazyInstances() map[*ssa.Global][]lazyInst {
	if a.lazyInst != nil {
		return a.lazyInst
	}
	out := map[*ssa.Global][]lazyInst{}
	for _, fn := range a.P.ModuleFuncs(false) {
		for _, c := range callsIn(fn) {
			H := c.Common().StaticCallee()
			if H == nil || !a.isModuleFunc(H) {
				continue
			}
			lh := a.lazyHelperOf(H)
			if lh == nil {
				continue
			}
			args := c.Common().Args
			if len(args) != len(H.Params) {
				continue
			}
			if lh.Maker {
				// the result must go to exactly one Do of a package-level guard, nowhere else
				in := lazyInst{Helper: lh, Site: c}
				in.Map, _ = args[lh.MapIdx].(*ssa.Global)
				if lh.ListIdx >= 0 {
					in.List = loadedGlobal(args[lh.ListIdx])
				}
				if v := c.Value(); v != nil && v.Referrers() != nil {
					var do ssa.CallInstruction
					n := 0
					for _, ref := range *v.Referrers() {
						if _, dbg := ref.(*ssa.DebugRef); dbg {
							continue
						}
						n++
						if dc, ok := ref.(ssa.CallInstruction); ok && calleeName(dc) == "(*sync.Once).Do" && len(dc.Common().Args) == 2 && dc.Common().Args[1] == v {
							do = dc
						}
					}
					if n == 1 && do != nil {
						in.Guard, _ = do.Common().Args[0].(*ssa.Global)
						in.Site = do // reads of the map must come after this Do
						in.MakerCall = c
					}
				}
				if in.Map != nil {
					out[in.Map] = append(out[in.Map], in)
				}
				continue
			}
			in := lazyInst{Helper: lh, Site: c}
			in.Guard, _ = args[lh.OnceIdx].(*ssa.Global)
			in.Map, _ = args[lh.MapIdx].(*ssa.Global)
			if lh.ListIdx >= 0 {
				in.List = loadedGlobal(args[lh.ListIdx])
			}
			if in.Map != nil {
				out[in.Map] = append(out[in.Map], in)
			}
		}
	}
	for _, fn := range a.P.ModuleFuncs(false) {
		if fn.Parent() != nil {
			continue
		}
		lh, insts := a.inlineLazyOf(fn)
		if lh == nil {
			continue
		}
		for _, in := range insts {
			out[in.Map] = append(out[in.Map], in)
		}
		if lh.Problem != "" {
			a.inlineProblem = append(a.inlineProblem, lh)
		}
	}
	a.lazyInst = out
	return out
}

// isLazyUse: instruction u passes the address of g to a lazy helper in the guard (wantOnce)
// or the map position.
func (a *Analysis) isLazyUse(u ssa.Instruction, g *ssa.Global, wantOnce bool) bool {
	// inline form: the address is an edge of the φ of guards / is stored into the map pointer's variable
	for _, insts := range a.lazyInstances() {
		for _, in := range insts {
			if !in.Helper.Inline || in.Helper.Problem != "" {
				continue
			}
			if wantOnce && in.Guard == g {
				if phi, ok := u.(*ssa.Phi); ok && ssa.Value(phi) == in.Helper.Do.Call.Args[0] {
					return true
				}
			}
			if !wantOnce && in.Map == g {
				if st, ok := u.(*ssa.Store); ok && st.Val == ssa.Value(g) && st.Parent() == in.Helper.H {
					return true
				}
			}
		}
	}
	c, ok := u.(ssa.CallInstruction)
	if !ok {
		return false
	}
	H := c.Common().StaticCallee()
	if H == nil || !a.isModuleFunc(H) {
		return false
	}
	lh := a.lazyHelperOf(H)
	if lh == nil || lh.Problem != "" {
		return false
	}
	idx := lh.MapIdx
	if wantOnce {
		idx = lh.OnceIdx
	}
	args := c.Common().Args
	if idx >= len(args) || args[idx] != ssa.Value(g) {
		return false
	}
	for i, arg := range args {
		if i != idx && arg == ssa.Value(g) {
			return false
		}
	}
	return true
}
