package an

import (
	"fmt"
	"go/token"
	"go/types"

	"golang.org/x/tools/go/ssa"
)

// A lazy-construction helper is a module function
//
//	func H(once *sync.Once, m *map[string]T, list []string) map[string]T {
//		once.Do(func() { *m = <fresh map, inverse of list> })
//		return *m
//	}
//
// called as H(&fooOnce, &fooMapping, wordlist.Foo).  Each call site is an instance of the
// guard discipline of T3 with the guard, the map and the list it names: inside H the map is
// written only by the closure the guard runs and read only after the guard's Do, for whatever
// pointers H is given; the call sites say which variables those are.
type lazyHelper struct {
	H               *ssa.Function
	OnceIdx, MapIdx int
	ListIdx         int // -1 if the list is not a parameter
	Do              *ssa.Call
	Closure         *ssa.Function
	Problem         string // non-empty: H is not of the shape above
}

type lazyInst struct {
	Helper           *lazyHelper
	Site             ssa.CallInstruction
	Guard, Map, List *ssa.Global
}

func isOncePtr(t types.Type) bool {
	p, ok := t.Underlying().(*types.Pointer)
	return ok && isOnce(p.Elem())
}

func isMapPtr(t types.Type) bool {
	p, ok := t.Underlying().(*types.Pointer)
	if !ok {
		return false
	}
	_, isMap := p.Elem().Underlying().(*types.Map)
	return isMap
}

// lazyHelperOf analyses H once (memoised).
func (a *Analysis) lazyHelperOf(H *ssa.Function) *lazyHelper {
	if a.lazy == nil {
		a.lazy = map[*ssa.Function]*lazyHelper{}
	}
	if lh, ok := a.lazy[H]; ok {
		return lh
	}
	lh := &lazyHelper{H: H, OnceIdx: -1, MapIdx: -1, ListIdx: -1}
	a.lazy[H] = lh
	if len(H.Blocks) == 0 || H.Parent() != nil {
		a.lazy[H] = nil
		return nil
	}
	for i, p := range H.Params {
		switch {
		case isOncePtr(p.Type()):
			if lh.OnceIdx >= 0 {
				a.lazy[H] = nil
				return nil
			}
			lh.OnceIdx = i
		case isMapPtr(p.Type()):
			if lh.MapIdx >= 0 {
				a.lazy[H] = nil
				return nil
			}
			lh.MapIdx = i
		default:
			if sl, ok := p.Type().Underlying().(*types.Slice); ok {
				if b, ok := sl.Elem().Underlying().(*types.Basic); ok && b.Info()&types.IsString != 0 {
					lh.ListIdx = i
				}
			}
		}
	}
	if lh.OnceIdx < 0 || lh.MapIdx < 0 {
		a.lazy[H] = nil
		return nil
	}
	fail := func(format string, args ...any) *lazyHelper {
		lh.Problem = fmt.Sprintf(format, args...)
		return lh
	}
	once, m := H.Params[lh.OnceIdx], H.Params[lh.MapIdx]
	// the guard parameter: receiver of exactly one Do, nothing else
	for _, ref := range *once.Referrers() {
		switch x := ref.(type) {
		case *ssa.DebugRef:
		case *ssa.Call:
			if calleeName(x) != "(*sync.Once).Do" || len(x.Call.Args) != 2 || x.Call.Args[0] != ssa.Value(once) || lh.Do != nil {
				return fail("%s uses its *sync.Once parameter other than as the receiver of one Do", fnKey(H))
			}
			lh.Do = x
		default:
			return fail("%s uses its *sync.Once parameter other than as the receiver of one Do (%T)", fnKey(H), ref)
		}
	}
	if lh.Do == nil {
		return fail("%s never calls Do on its *sync.Once parameter", fnKey(H))
	}
	mc, ok := lh.Do.Call.Args[1].(*ssa.MakeClosure)
	if !ok {
		return fail("%s does not pass a closure to Do", fnKey(H))
	}
	lh.Closure, _ = mc.Fn.(*ssa.Function)
	if lh.Closure == nil {
		return fail("%s does not pass a closure to Do", fnKey(H))
	}
	// the map pointer: captured by that closure, read after the Do, nothing else.  (go/ssa
	// keeps a captured parameter in a cell: `t0 = new *map (m); *t0 = m`, the closure binds t0.)
	cellOf := func(p *ssa.Parameter) *ssa.Alloc {
		var cell *ssa.Alloc
		for _, ref := range *p.Referrers() {
			switch x := ref.(type) {
			case *ssa.DebugRef:
			case *ssa.Store:
				al, ok := x.Addr.(*ssa.Alloc)
				if !ok || x.Val != ssa.Value(p) || cell != nil {
					return nil
				}
				cell = al
			default:
				return nil
			}
		}
		return cell
	}
	mCell := cellOf(m)
	if mCell == nil {
		return fail("%s uses its map pointer other than by capturing it in the closure given to Do", fnKey(H))
	}
	for _, ref := range *mCell.Referrers() {
		switch x := ref.(type) {
		case *ssa.DebugRef, *ssa.Store:
		case *ssa.MakeClosure:
			if x != mc {
				return fail("%s hands its map pointer to another closure", fnKey(H))
			}
		case *ssa.UnOp:
			// the pointer itself; what is read through it must come after the Do
			for _, rr := range *x.Referrers() {
				ld, ok := rr.(*ssa.UnOp)
				if _, isDbg := rr.(*ssa.DebugRef); isDbg {
					continue
				}
				if !ok || ld.Op != token.MUL || !instrDominates(lh.Do, ld) {
					return fail("%s uses its map pointer other than to read the map after the Do on its guard", fnKey(H))
				}
			}
		default:
			return fail("%s uses its map pointer in %T", fnKey(H), ref)
		}
	}
	var lCell *ssa.Alloc
	if lh.ListIdx >= 0 {
		lCell = cellOf(H.Params[lh.ListIdx])
	}
	// inside the closure: the pointer is assigned through exactly once, a fresh map that is
	// the inverse of the captured list
	var fmCell, flCell ssa.Value
	for i, b := range mc.Bindings {
		if i >= len(lh.Closure.FreeVars) {
			break
		}
		if b == ssa.Value(mCell) {
			fmCell = lh.Closure.FreeVars[i]
		}
		if lCell != nil && b == ssa.Value(lCell) {
			flCell = lh.Closure.FreeVars[i]
		}
	}
	if fmCell == nil {
		return fail("the closure run by Do in %s does not capture the map pointer", fnKey(H))
	}
	if lh.ListIdx >= 0 && flCell == nil {
		return fail("the closure run by Do in %s does not capture the list parameter", fnKey(H))
	}
	isPtr := map[ssa.Value]bool{} // values of the map pointer inside the closure
	for _, ref := range *fmCell.Referrers() {
		switch x := ref.(type) {
		case *ssa.DebugRef:
		case *ssa.UnOp:
			if x.Op != token.MUL {
				return fail("the closure in %s uses the map pointer's variable in %v", fnKey(H), x)
			}
			isPtr[x] = true
		default:
			return fail("the closure in %s assigns or hands on the map pointer's variable (%T)", fnKey(H), ref)
		}
	}
	isList := map[ssa.Value]bool{}
	if flCell != nil {
		for _, ref := range *flCell.Referrers() {
			switch x := ref.(type) {
			case *ssa.DebugRef:
			case *ssa.UnOp:
				if x.Op == token.MUL {
					isList[x] = true
				}
			default:
				return fail("the closure in %s assigns or hands on the list variable (%T)", fnKey(H), ref)
			}
		}
	}
	var store *ssa.Store
	for pv := range isPtr {
		for _, ref := range *pv.Referrers() {
			switch x := ref.(type) {
			case *ssa.DebugRef:
			case *ssa.Store:
				if x.Addr != pv || store != nil {
					return fail("the closure in %s assigns through the map pointer more than once", fnKey(H))
				}
				store = x
			case *ssa.UnOp:
				// `(*m)[w] = i` after `*m = make(...)`: checked by fillShape below
			default:
				return fail("the closure in %s uses the map pointer in %T", fnKey(H), ref)
			}
		}
	}
	if store == nil {
		return fail("the closure in %s never assigns the map", fnKey(H))
	}
	listOK := func(v ssa.Value) bool { return isList[v] }
	switch v := store.Val.(type) {
	case *ssa.MakeMap:
		for _, c := range callsIn(lh.Closure) {
			if n := calleeName(c); n != "len" {
				return fail("the closure in %s calls %s", fnKey(H), n)
			}
		}
		listVal, msg := a.fillShape(lh.Closure, func(mv ssa.Value) bool {
			if mv == ssa.Value(v) {
				return true
			}
			if ld, ok := mv.(*ssa.UnOp); ok && ld.Op == token.MUL && isPtr[ld.X] {
				return instrDominates(store, ld)
			}
			return false
		})
		if listVal == nil {
			return fail("%s", msg)
		}
		if !listOK(listVal) {
			return fail("the closure in %s does not range over the list parameter", fnKey(H))
		}
	case *ssa.Call:
		h := v.Call.StaticCallee()
		if h == nil || !a.isModuleFunc(h) || len(v.Call.Args) != 1 || !listOK(v.Call.Args[0]) {
			return fail("the closure in %s assigns the result of %s", fnKey(H), calleeName(v))
		}
		if msg := a.helperShape(h); msg != "" {
			return fail("%s", msg)
		}
		for _, c := range callsIn(lh.Closure) {
			if c != ssa.CallInstruction(v) && calleeName(c) != "len" {
				return fail("the closure in %s also calls %s", fnKey(H), calleeName(c))
			}
		}
		for _, b := range lh.Closure.Blocks {
			for _, in := range b.Instrs {
				if _, ok := in.(*ssa.MapUpdate); ok {
					return fail("the closure in %s modifies the map after the helper built it", fnKey(H))
				}
			}
		}
	default:
		return fail("the closure in %s assigns something other than a fresh map", fnKey(H))
	}
	if lh.ListIdx < 0 {
		return fail("%s does not take the word list as a parameter", fnKey(H))
	}
	return lh
}

// lazyInstances lists the (non-test) call sites of lazy helpers that name package-level
// variables, per map.
func (a *Analysis) lazyInstances() map[*ssa.Global][]lazyInst {
	if a.lazyInst != nil {
		return a.lazyInst
	}
	out := map[*ssa.Global][]lazyInst{}
	for _, fn := range a.P.ModuleFuncs(false) {
		for _, c := range callsIn(fn) {
			H := c.Common().StaticCallee()
			if H == nil || !a.isModuleFunc(H) {
				continue
			}
			lh := a.lazyHelperOf(H)
			if lh == nil {
				continue
			}
			args := c.Common().Args
			if len(args) != len(H.Params) {
				continue
			}
			in := lazyInst{Helper: lh, Site: c}
			in.Guard, _ = args[lh.OnceIdx].(*ssa.Global)
			in.Map, _ = args[lh.MapIdx].(*ssa.Global)
			if lh.ListIdx >= 0 {
				in.List = loadedGlobal(args[lh.ListIdx])
			}
			if in.Map != nil {
				out[in.Map] = append(out[in.Map], in)
			}
		}
	}
	a.lazyInst = out
	return out
}

// isLazyUse: instruction u passes the address of g to a lazy helper in the guard (wantOnce)
// or the map position.
func (a *Analysis) isLazyUse(u ssa.Instruction, g *ssa.Global, wantOnce bool) bool {
	c, ok := u.(ssa.CallInstruction)
	if !ok {
		return false
	}
	H := c.Common().StaticCallee()
	if H == nil || !a.isModuleFunc(H) {
		return false
	}
	lh := a.lazyHelperOf(H)
	if lh == nil || lh.Problem != "" {
		return false
	}
	idx := lh.MapIdx
	if wantOnce {
		idx = lh.OnceIdx
	}
	args := c.Common().Args
	if idx >= len(args) || args[idx] != ssa.Value(g) {
		return false
	}
	for i, arg := range args {
		if i != idx && arg == ssa.Value(g) {
			return false
		}
	}
	return true
}
