package an

import (
	"go/token"
	"math"
	"math/big"
	"math/rand"
	"testing"
)

// The gate engine against brute force: for random atoms and random start sets, the refined
// set must contain exactly the window values on which the atom (evaluated with Go's own
// truncated arithmetic) has the wanted truth value.  This tests the checker, not /repo.
func TestRefineAgainstBruteForce(t *testing.T) {
	rng := rand.New(rand.NewSource(1))
	ops := []token.Token{token.LSS, token.LEQ, token.GTR, token.GEQ, token.EQL, token.NEQ}
	g := &GateResult{Bits: 64, Relied: nil}
	const W = 400
	for iter := 0; iter < 4000; iter++ {
		var e gexpr
		n := rng.Intn(3)
		for k := 0; k < n; k++ {
			switch rng.Intn(3) {
			case 0:
				e.ops = append(e.ops, gop{kind: '+', c: int64(rng.Intn(41) - 20)})
			case 1:
				e.ops = append(e.ops, gop{kind: '*', c: int64(rng.Intn(5) + 1)})
			case 2:
				e.ops = append(e.ops, gop{kind: '/', c: int64(rng.Intn(6) + 1)})
			}
		}
		if rng.Intn(2) == 0 {
			// periodic form needs only + and * before %
			var f gexpr
			for _, o := range e.ops {
				if o.kind != '/' {
					f.ops = append(f.ops, o)
				}
			}
			e = f
			e.ops = append(e.ops, gop{kind: '%', c: int64(rng.Intn(7) + 1)})
		}
		a := &atom{e: &e, op: ops[rng.Intn(len(ops))], c: int64(rng.Intn(61) - 30)}
		lo := int64(rng.Intn(2*W) - W)
		hi := lo + int64(rng.Intn(2*W))
		s := ZRange(lo, hi)
		if rng.Intn(3) == 0 {
			s = s.residue(int64(rng.Intn(4)+2), int64(rng.Intn(2)))
		}
		for _, want := range []bool{true, false} {
			got := g.refine(s, a, want)
			for v := lo - 3; v <= hi+3; v++ {
				x, ok := e.eval(v, 64)
				if !ok {
					t.Fatalf("eval overflow in window")
				}
				exp := s.Contains(v) && cmpHolds(x, a.op, a.c) == want
				if got.Contains(v) != exp {
					t.Fatalf("iter %d: atom %+v %s %d want=%v on %v: v=%d f(v)=%d: refined set %v contains=%v, expected %v", iter, e.ops, a.op, a.c, want, s, v, x, got, got.Contains(v), exp)
				}
			}
		}
	}
}

// Overflowing chains: the refinement must stay a superset of the truth (it may keep values it cannot decide).
func TestRefineOverflowIsSuperset(t *testing.T) {
	g := &GateResult{Bits: 64}
	e := gexpr{[]gop{{kind: '*', c: 32}, {kind: '/', c: 3}}}
	for _, op := range []token.Token{token.LSS, token.GEQ} {
		a := &atom{e: &e, op: op, c: 128}
		s := ZRange(math.MinInt64, math.MaxInt64)
		tr := g.refine(s, a, true)
		// Go semantics: v*32 wraps
		for _, v := range []int64{0, 11, 12, 24, 25, 1 << 59, 12 + 1<<59, math.MinInt64 + 12, math.MaxInt64, -5} {
			x := (v * 32) / 3
			if cmpHolds(x, op, 128) && !tr.Contains(v) {
				t.Fatalf("op %s: value %d satisfies the atom under wrapping arithmetic but was refined away (%v)", op, v, tr)
			}
		}
	}
}

func TestTableAtoms(t *testing.T) {
	g := &GateResult{Bits: 64}
	tab := &gtable{name: "t", dense: make([]int64, 33)}
	for _, k := range []int{16, 20, 24, 28, 32} {
		tab.dense[k] = int64(k / 4 * 3)
	}
	e := (&gexpr{}).withTable(tab)
	a := &atom{e: e, op: token.EQL, c: 0}
	s := ZRange(0, 32)
	rej := g.refine(s, a, true)
	acc := g.refine(s, a, false)
	for v := int64(0); v <= 32; v++ {
		isSpec := v >= 16 && v%4 == 0
		if acc.Contains(v) != isSpec || rej.Contains(v) == isSpec {
			t.Fatalf("table atom at %d: acc=%v rej=%v", v, acc, rej)
		}
	}
	m := &gtable{name: "m", keyed: map[int64]int64{12: 16, 15: 20, 18: 24, 21: 28, 24: 32}}
	ak := &atom{e: &gexpr{}, op: token.EQL, keys: m.keyed}
	full := ZRange(math.MinInt64, math.MaxInt64)
	in := g.refine(full, ak, true)
	out := g.refine(full, ak, false)
	if vs, ok := in.Enumerate(10); !ok || len(vs) != 5 {
		t.Fatalf("in-keys set %v", in)
	}
	if out.Contains(12) || !out.Contains(13) || !out.Contains(math.MinInt64) {
		t.Fatalf("not-in-keys set %v", out)
	}
}

// Layout algebra against concrete integers: assign random bits to every symbol, evaluate
// layouts to big integers, and compare Shr / Low / Slice / AddDisjoint / SubstSym with the
// corresponding integer operations.
func concrete(l Layout, bits map[string]*big.Int) *big.Int {
	out := new(big.Int)
	pos := uint(0)
	for _, f := range l {
		w := uint(f.W.A)
		if f.Sym != "" {
			src := bits[f.symString()]
			part := new(big.Int).Rsh(src, uint(f.Lo.A))
			mask := new(big.Int).Sub(new(big.Int).Lsh(big.NewInt(1), w), big.NewInt(1))
			part.And(part, mask)
			out.Or(out, part.Lsh(part, pos))
		}
		pos += w
	}
	return out
}

func TestLayoutAlgebra(t *testing.T) {
	rng := rand.New(rand.NewSource(2))
	bits := map[string]*big.Int{}
	for _, s := range []string{"A", "B", "C"} {
		bits[s] = new(big.Int).Rand(rng, new(big.Int).Lsh(big.NewInt(1), 300))
	}
	randLayout := func() Layout {
		var l Layout
		for k := rng.Intn(4) + 1; k > 0; k-- {
			sym := []string{"", "A", "B", "C"}[rng.Intn(4)]
			l = append(l, Field{W: K(int64(rng.Intn(40) + 1)), Sym: sym, Lo: K(int64(rng.Intn(200)))})
		}
		return l
	}
	for iter := 0; iter < 3000; iter++ {
		l := randLayout()
		v := concrete(l, bits)
		if n := concrete(l.Norm(), bits); n.Cmp(v) != 0 {
			t.Fatalf("Norm changed the value of %v", l)
		}
		k := int64(rng.Intn(90))
		if sh, ok := l.Shr(k); ok {
			if concrete(sh, bits).Cmp(new(big.Int).Rsh(v, uint(k))) != 0 {
				t.Fatalf("Shr(%d) of %v", k, l)
			}
		}
		if lw, ok := l.Low(k); ok {
			mask := new(big.Int).Sub(new(big.Int).Lsh(big.NewInt(1), uint(k)), big.NewInt(1))
			if concrete(lw, bits).Cmp(new(big.Int).And(v, mask)) != 0 {
				t.Fatalf("Low(%d) of %v", k, l)
			}
		}
		sl := l.Shl(K(k))
		if concrete(sl, bits).Cmp(new(big.Int).Lsh(v, uint(k))) != 0 {
			t.Fatalf("Shl(%d) of %v", k, l)
		}
		y := randLayout()
		yw, _ := y.Width()
		x := l.Shl(K(yw + int64(rng.Intn(3))))
		if sum, ok := AddDisjoint(x, y); ok {
			want := new(big.Int).Add(concrete(x, bits), concrete(y, bits))
			if concrete(sum, bits).Cmp(want) != 0 {
				t.Fatalf("AddDisjoint(%v, %v) = %v", x, y, sum)
			}
		} else {
			t.Fatalf("AddDisjoint refused a disjoint pair %v + %v", x, y)
		}
		// substitution: replace symbol A by another layout
		repl := randLayout()
		rv := concrete(repl, bits)
		if sub, ok := l.SubstSym("A", false, 0, repl); ok {
			b2 := map[string]*big.Int{"A": rv, "B": bits["B"], "C": bits["C"]}
			if concrete(sub, bits).Cmp(concrete(l, b2)) != 0 {
				t.Fatalf("SubstSym on %#v with %#v -> %#v", l, repl, sub)
			}
		}
	}
}

func TestZSetBasics(t *testing.T) {
	s := ZRange(0, 100).residue(4, 0)
	if !s.Contains(16) || s.Contains(17) || !s.Contains(100) {
		t.Fatal("residue")
	}
	u := s.MinusFinite([]int64{16, 20})
	if u.Contains(16) || !u.Contains(24) {
		t.Fatal("minus")
	}
	if vs, ok := ZOf(3, 1, 2, 2).Enumerate(10); !ok || len(vs) != 3 || vs[0] != 1 {
		t.Fatal("enumerate")
	}
	full := ZRange(math.MinInt64, math.MaxInt64)
	if !full.Contains(math.MinInt64) || !full.Contains(math.MaxInt64) {
		t.Fatal("full range")
	}
	if x := full.MinusFinite([]int64{math.MinInt64, math.MaxInt64, 0}); x.Contains(0) || x.Contains(math.MaxInt64) || !x.Contains(1) {
		t.Fatal("minus at the extremes")
	}
}
