#!/bin/sh
# run.sh <property-id> <quick|thorough>  — (re)builds the checker if needed and runs it on /repo's current tree.
set -u
cd "$(dirname "$0")" || exit 2
export GOFLAGS=-mod=vendor GOPROXY=off GOSUMDB=off GOTOOLCHAIN=local CGO_ENABLED=0
unset GOWORK
ID="${1:?usage: run.sh <id> <quick|thorough>}"
TIER="${2:-${VERIF_TIER:-quick}}"
BIN=/verif/bin/bipcheck
stale=0
[ -x "$BIN" ] || stale=1
if [ "$stale" = 0 ] && [ -n "$(find checker -name '*.go' -newer "$BIN" -not -path 'checker/vendor/*' 2>/dev/null | head -1)" ]; then stale=1; fi
if [ "$stale" = 1 ]; then
  mkdir -p /verif/bin
  (cd checker && go build -o "$BIN" ./cmd/bipcheck) || { echo "cannot build bipcheck"; exit 2; }
fi
if [ "$TIER" = thorough ]; then
  # self-test of the analyser's own domains (integer sets, layouts) against brute force / big integers:
  # a failure means the checker is broken, not the repository
  (cd checker && go test -count=1 ./internal/an >/dev/null 2>&1) || { echo "bipcheck self-test failed: the analyser is broken (cd /verif/checker && go test ./internal/an)"; exit 2; }
fi
LOG=$(mktemp "${TMPDIR:-/tmp}/bipcheck-$ID-XXXXXX")
"$BIN" -repo "${VERIF_REPO:-/repo}" -property "$ID" -tier "$TIER" -out /verif/evidence -known /verif/known_findings.json >"$LOG" 2>&1
rc=$?
cat "$LOG"
if [ "$rc" -ne 0 ] && [ "$rc" -ne 1 ]; then
  # the analyser itself ended abnormally (a fatal runtime error is not something it can turn into an
  # obligation): nothing was decided on this tree, which counts as a failure of the property's check
  mkdir -p /verif/evidence
  cp "$LOG" "/verif/evidence/$ID.abnormal.log"
  rm -f "$LOG"
  echo "bipcheck ended abnormally (exit $rc): property $ID is not decided on this tree"
  echo "VIOLATION property=$ID replay=/verif/evidence/$ID.abnormal.log"
  exit 1
fi
rm -f "$LOG"
exit "$rc"
